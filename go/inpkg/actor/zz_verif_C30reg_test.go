//go:build verif

package actor

// Fake cluster registry shared by the C30 (grains) and C36 (singletons) harnesses.
//
// One vregRegistry is shared by several in-process actor systems; every node gets its own
// vregCluster view (implements cluster.Cluster). Each registry operation is ONE atomic step of a
// linearizable key-value map (the M-REGISTRY model, coq/theories/C30/Registry.v) and is a
// scheduling point: a logical thread (identified by a context value) that reaches an operation
// reports to the driver and blocks until it is released with an outcome (ok / injected failure).
// Calls made without a logical thread in the context (stress mode) run immediately.

import (
	"context"
	"errors"
	"runtime"
	"strings"
	"sync"
	"sync/atomic"
	"time"

	"google.golang.org/protobuf/proto"

	"github.com/tochemey/goakt/v4/internal/cluster"
	"github.com/tochemey/goakt/v4/internal/internalpb"
)

var errVregInjected = errors.New("verif: injected registry failure")

// vregStuck counts threads abandoned by the driver; harnesses stop generating schedules once it is > 2
var vregStuck atomic.Int32

// ---------------------------------------------------------------- controlled threads

type vregThreadKey struct{}

type vregEvent struct {
	Blocked  string // hook kind the thread is blocked at ("" when finished)
	Finished bool
	Result   string // result class of a finished thread
}

// vregThread is a logical thread run under the controlled scheduler: it runs only between a
// release by the driver and its next scheduling point.
type vregThread struct {
	Node   int
	resume chan bool
	report chan vregEvent
	Last   vregEvent
	Hops   []int // C36: nodes a forwarded SpawnSingleton call currently runs on (innermost last)
	Answer int   // C36: the coordinator the next Members() call of this thread names
}

func newVregThread(node int) *vregThread {
	return &vregThread{Node: node, resume: make(chan bool), report: make(chan vregEvent)}
}

func (t *vregThread) ctx() context.Context {
	return context.WithValue(context.Background(), vregThreadKey{}, t)
}

func vregThreadOf(ctx context.Context) *vregThread {
	if ctx == nil {
		return nil
	}
	t, _ := ctx.Value(vregThreadKey{}).(*vregThread)
	return t
}

// point is called by the thread itself at a scheduling point; returns the outcome chosen by the driver.
func (t *vregThread) point(kind string) bool {
	t.report <- vregEvent{Blocked: kind}
	return <-t.resume
}

// vregPoint is the scheduling point used by hooks: no-op (ok) when the context carries no thread.
func vregPoint(ctx context.Context, kind string) bool {
	if t := vregThreadOf(ctx); t != nil {
		return t.point(kind)
	}
	if y := vregStressYield.Load(); y != nil {
		(*y)()
	}
	return true
}

var vregStressYield atomicPtrFunc

type atomicPtrFunc struct {
	mu sync.RWMutex
	f  *func()
}

func (a *atomicPtrFunc) Load() *func() { a.mu.RLock(); defer a.mu.RUnlock(); return a.f }
func (a *atomicPtrFunc) Store(f *func()) {
	a.mu.Lock()
	a.f = f
	a.mu.Unlock()
}

// spawn starts fn as the body of the thread; the body starts running at the first advance.
func (t *vregThread) spawn(fn func(ctx context.Context) string) {
	go func() {
		<-t.resume
		res := fn(t.ctx())
		t.report <- vregEvent{Finished: true, Result: res}
	}()
}

// tryAdvance releases the thread and waits at most d for it to block again or finish; reached=false means the
// thread is parked somewhere off a scheduling point (e.g. it joined another caller's single flight) and may still
// report later (collect with await).
func (t *vregThread) tryAdvance(ok bool, d time.Duration) (vregEvent, bool) {
	t.resume <- ok
	return t.await(d)
}

func (t *vregThread) await(d time.Duration) (vregEvent, bool) {
	select {
	case ev := <-t.report:
		t.Last = ev
		return ev, true
	case <-time.After(d):
		return vregEvent{}, false
	}
}

// advance releases the thread with the given outcome and waits until it blocks again or finishes.
func (t *vregThread) advance(ok bool) (vregEvent, error) {
	if t.Last.Finished {
		return t.Last, errors.New("thread already finished")
	}
	t.resume <- ok
	select {
	case ev := <-t.report:
		t.Last = ev
		return ev, nil
	case <-time.After(20 * time.Second):
		// the thread is stuck off a scheduling point (e.g. it joined another thread's single flight): give it up
		t.Last = vregEvent{Finished: true, Result: "stuck"}
		vregStuck.Add(1)
		return vregEvent{}, errors.New("thread neither reached a scheduling point nor finished within 20s")
	}
}

// ---------------------------------------------------------------- registry

type vregOp struct {
	Node int
	Op   string
	Key  string
	Res  string
}

type vregRegistry struct {
	mu     sync.Mutex
	grains map[string]*internalpb.Grain
	actors map[string]*internalpb.Actor
	hosts  map[string]int // "host:port" (remoting) -> node index
	// leadership oracle for C36: what each node currently believes
	leaderOf map[int]int // node -> node it believes to be coordinator (-1 none)
	nodes    []*vregCluster
	log      []vregOp
	logOn    bool
	// controlled mode: a registry call made by a goroutine that is not a logical thread (the death watch's
	// RemoveActor) becomes a pseudo thread that announces itself here and waits for the driver
	controlled bool
	bgArrivals chan *vregThread
	bgBase     int
}

func newVregRegistry() *vregRegistry {
	return &vregRegistry{grains: map[string]*internalpb.Grain{}, actors: map[string]*internalpb.Actor{},
		hosts: map[string]int{}, leaderOf: map[int]int{}, bgArrivals: make(chan *vregThread, 64)}
}

func (r *vregRegistry) record(node int, op, key, res string) {
	if r.logOn {
		r.log = append(r.log, vregOp{node, op, key, res})
	}
}

// grainOwner returns the node index named by the grain record (-1 when absent, -2 when unknown host).
func (r *vregRegistry) grainOwner(id string) int {
	r.mu.Lock()
	defer r.mu.Unlock()
	g, ok := r.grains[id]
	if !ok {
		return -1
	}
	if n, ok := r.hosts[hostPortKey(g.GetHost(), int(g.GetPort()))]; ok {
		return n
	}
	return -2
}

func hostPortKey(host string, port int) string {
	return host + ":" + itoa(port)
}

func itoa(i int) string {
	if i == 0 {
		return "0"
	}
	neg := i < 0
	if neg {
		i = -i
	}
	var b [20]byte
	p := len(b)
	for i > 0 {
		p--
		b[p] = byte('0' + i%10)
		i /= 10
	}
	if neg {
		p--
		b[p] = '-'
	}
	return string(b[p:])
}

// vregCluster is one node's view of the shared registry.
type vregCluster struct {
	cluster.Cluster // unimplemented methods panic (nil interface): the harness must notice new dependencies
	reg             *vregRegistry
	node            int
	host            string
	remotingPort    int
	peersPort       int
}

func (r *vregRegistry) addNode(host string, remotingPort, peersPort int) *vregCluster {
	r.mu.Lock()
	defer r.mu.Unlock()
	c := &vregCluster{reg: r, node: len(r.nodes), host: host, remotingPort: remotingPort, peersPort: peersPort}
	r.nodes = append(r.nodes, c)
	r.hosts[hostPortKey(host, remotingPort)] = c.node
	r.leaderOf[c.node] = 0
	return c
}

// calledFrom reports whether the current call stack contains a function whose name ends with suffix.
func calledFrom(suffix string) bool {
	pcs := make([]uintptr, 24)
	n := runtime.Callers(3, pcs)
	frames := runtime.CallersFrames(pcs[:n])
	for {
		f, more := frames.Next()
		if strings.HasSuffix(f.Function, suffix) {
			return true
		}
		if !more {
			return false
		}
	}
}

// ---- grains

// GrainExists. When called from cluster.PutGrainIfAbsent (the generic fallback used for non-builtin
// Cluster implementations is exists-then-put) the pair is executed here as ONE atomic put-if-absent,
// as the builtin engine does with an NX put: the record is reserved for this node and the PutGrain
// that follows only fills in the payload.
func (c *vregCluster) GrainExists(ctx context.Context, identity string) (bool, error) {
	if calledFrom("internal/cluster.PutGrainIfAbsent") {
		if !vregPoint(ctx, "claim") {
			c.reg.mu.Lock()
			c.reg.record(c.node, "claim", identity, "err")
			c.reg.mu.Unlock()
			return false, errVregInjected
		}
		c.reg.mu.Lock()
		defer c.reg.mu.Unlock()
		if _, ok := c.reg.grains[identity]; ok {
			c.reg.record(c.node, "claim", identity, "exists")
			return true, nil
		}
		c.reg.grains[identity] = &internalpb.Grain{GrainId: &internalpb.GrainId{Value: identity}, Host: c.host, Port: int32(c.remotingPort)}
		c.reg.record(c.node, "claim", identity, "won")
		return false, nil
	}
	if !vregPoint(ctx, "exists") {
		return false, errVregInjected
	}
	c.reg.mu.Lock()
	defer c.reg.mu.Unlock()
	_, ok := c.reg.grains[identity]
	c.reg.record(c.node, "exists", identity, boolStr(ok))
	return ok, nil
}

func boolStr(b bool) string {
	if b {
		return "true"
	}
	return "false"
}

func (c *vregCluster) PutGrain(ctx context.Context, grain *internalpb.Grain) error {
	id := grain.GetGrainId().GetValue()
	if calledFrom("internal/cluster.PutGrainIfAbsent") {
		// second half of the atomic claim: fill in the payload of the record reserved above
		c.reg.mu.Lock()
		defer c.reg.mu.Unlock()
		c.reg.grains[id] = proto.Clone(grain).(*internalpb.Grain)
		return nil
	}
	if !vregPoint(ctx, "put") {
		c.reg.mu.Lock()
		c.reg.record(c.node, "put", id, "err")
		c.reg.mu.Unlock()
		return errVregInjected
	}
	c.reg.mu.Lock()
	defer c.reg.mu.Unlock()
	c.reg.grains[id] = proto.Clone(grain).(*internalpb.Grain)
	c.reg.record(c.node, "put", id, "ok")
	return nil
}

func (c *vregCluster) GetGrain(ctx context.Context, identity string) (*internalpb.Grain, error) {
	if !vregPoint(ctx, "get") {
		return nil, errVregInjected
	}
	c.reg.mu.Lock()
	defer c.reg.mu.Unlock()
	g, ok := c.reg.grains[identity]
	if !ok {
		c.reg.record(c.node, "get", identity, "notfound")
		return nil, cluster.ErrGrainNotFound
	}
	c.reg.record(c.node, "get", identity, hostPortKey(g.GetHost(), int(g.GetPort())))
	return proto.Clone(g).(*internalpb.Grain), nil
}

func (c *vregCluster) RemoveGrain(ctx context.Context, identity string) error {
	if !vregPoint(ctx, "remove") {
		c.reg.mu.Lock()
		c.reg.record(c.node, "remove", identity, "err")
		c.reg.mu.Unlock()
		return errVregInjected
	}
	c.reg.mu.Lock()
	defer c.reg.mu.Unlock()
	delete(c.reg.grains, identity)
	c.reg.record(c.node, "remove", identity, "ok")
	return nil
}

// ---- actors (C36)

func (c *vregCluster) ActorExists(ctx context.Context, name string) (bool, error) {
	if !vregPoint(ctx, "aexists") {
		return false, errVregInjected
	}
	c.reg.mu.Lock()
	defer c.reg.mu.Unlock()
	_, ok := c.reg.actors[name]
	c.reg.record(c.node, "aexists", name, boolStr(ok))
	return ok, nil
}

func (c *vregCluster) PutActor(ctx context.Context, actor *internalpb.Actor) error {
	name := vregActorName(actor)
	if !vregPoint(ctx, "aput") {
		return errVregInjected
	}
	c.reg.mu.Lock()
	defer c.reg.mu.Unlock()
	c.reg.actors[name] = proto.Clone(actor).(*internalpb.Actor)
	c.reg.record(c.node, "aput", name, "ok")
	return nil
}

func (c *vregCluster) PutActorIfAbsent(ctx context.Context, actor *internalpb.Actor) error {
	name := vregActorName(actor)
	if !vregPoint(ctx, "aclaim") {
		return errVregInjected
	}
	c.reg.mu.Lock()
	defer c.reg.mu.Unlock()
	if _, ok := c.reg.actors[name]; ok {
		c.reg.record(c.node, "aclaim", name, "exists")
		return cluster.ErrActorAlreadyExists
	}
	c.reg.actors[name] = proto.Clone(actor).(*internalpb.Actor)
	c.reg.record(c.node, "aclaim", name, "won")
	return nil
}

func (c *vregCluster) GetActor(ctx context.Context, name string) (*internalpb.Actor, error) {
	if !vregPoint(ctx, "aget") {
		return nil, errVregInjected
	}
	c.reg.mu.Lock()
	defer c.reg.mu.Unlock()
	a, ok := c.reg.actors[name]
	if !ok {
		c.reg.record(c.node, "aget", name, "notfound")
		return nil, cluster.ErrActorNotFound
	}
	c.reg.record(c.node, "aget", name, a.GetAddress())
	return proto.Clone(a).(*internalpb.Actor), nil
}

func (c *vregCluster) RemoveActor(ctx context.Context, name string) error {
	c.reg.mu.Lock()
	controlled := c.reg.controlled
	c.reg.mu.Unlock()
	// the death watch runs on its own goroutine but may inherit the stopping thread's context values
	if (vregThreadOf(ctx) == nil || calledFrom("(*deathWatch).handleTerminated")) && controlled {
		th := newVregThread(c.node)
		c.reg.bgArrivals <- th
		ok := <-th.resume
		defer func() { th.report <- vregEvent{Finished: true} }()
		if !ok {
			return errVregInjected
		}
	} else if !vregPoint(ctx, "aremove") {
		return errVregInjected
	}
	c.reg.mu.Lock()
	defer c.reg.mu.Unlock()
	delete(c.reg.actors, name)
	c.reg.record(c.node, "aremove", name, "ok")
	return nil
}

// actorOwner returns the node index named by the actor record (-1 absent, -2 unknown host).
func (r *vregRegistry) actorOwner(name string) int {
	r.mu.Lock()
	defer r.mu.Unlock()
	a, ok := r.actors[name]
	if !ok {
		return -1
	}
	for hp, n := range r.hosts {
		if strings.Contains(a.GetAddress(), "@"+hp+"/") || strings.HasSuffix(a.GetAddress(), "@"+hp) {
			return n
		}
	}
	return -2
}

func vregActorName(actor *internalpb.Actor) string {
	addr := actor.GetAddress()
	if i := strings.LastIndex(addr, "/"); i >= 0 {
		return addr[i+1:]
	}
	return addr
}

// ---- membership (C36): every node answers from ITS OWN current belief about who leads

func (c *vregCluster) Members(ctx context.Context) ([]*cluster.Peer, error) {
	if !vregPoint(ctx, "members") {
		return nil, errVregInjected
	}
	c.reg.mu.Lock()
	defer c.reg.mu.Unlock()
	lead := c.reg.leaderOf[c.node]
	if t := vregThreadOf(ctx); t != nil {
		lead = t.Answer
	}
	out := make([]*cluster.Peer, 0, len(c.reg.nodes))
	for _, n := range c.reg.nodes {
		out = append(out, &cluster.Peer{Host: n.host, PeersPort: n.peersPort, RemotingPort: n.remotingPort,
			Coordinator: n.node == lead, CreatedAt: int64(n.node + 1)})
	}
	c.reg.record(c.node, "members", "", itoa(lead))
	return out, nil
}

func (c *vregCluster) IsLeader(ctx context.Context) bool {
	c.reg.mu.Lock()
	defer c.reg.mu.Unlock()
	return c.reg.leaderOf[c.node] == c.node
}

func (c *vregCluster) IsRunning() bool { return true }

func (c *vregCluster) Peers(ctx context.Context) ([]*cluster.Peer, error) {
	c.reg.mu.Lock()
	defer c.reg.mu.Unlock()
	out := make([]*cluster.Peer, 0, len(c.reg.nodes))
	for _, n := range c.reg.nodes {
		if n.node != c.node {
			out = append(out, &cluster.Peer{Host: n.host, PeersPort: n.peersPort, RemotingPort: n.remotingPort,
				Coordinator: n.node == c.reg.leaderOf[c.node], CreatedAt: int64(n.node + 1)})
		}
	}
	return out, nil
}
