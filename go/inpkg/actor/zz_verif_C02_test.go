//go:build verif

package actor

import (
	"context"
	"fmt"
	"runtime"
	"sync/atomic"
	"testing"
	"time"
	"unsafe"
)

// ---------------------------------------------------------------- real mailboxes, sequentially, vs the contract instance
type c02MbOp struct {
	Op string `json:"op"` // enq | deq | empty
	ID int    `json:"id"`
}
type c02MbCase struct {
	Kind string    `json:"kind"`
	Cap  int       `json:"cap"`
	Ops  []c02MbOp `json:"ops"`
}
type c02MbOut struct {
	Kind string `json:"kind"`
	Cap  int    `json:"cap"`
	Outs []int  `json:"outs"` // enq: 1 accepted / 0 rejected; deq: id or -1; empty: 1/0
	Lens []int  `json:"lens"`
}

func TestVerifC02MailboxSeq(t *testing.T) {
	cases := verifReadJSONL[c02MbCase](t, "c02_mb_in.jsonl")
	w := newVerifWriter(t, "c02_mb_out.jsonl")
	defer w.close()
	for _, c := range cases {
		var mb Mailbox
		switch c.Kind {
		case "unbounded":
			mb = NewUnboundedMailbox()
		case "segmented":
			mb = NewUnboundedSegmentedMailbox()
		case "nonblocking-bounded":
			mb = NewNonBlockingBoundedMailbox(c.Cap)
		case "bounded":
			mb = NewBoundedMailbox(c.Cap)
		default:
			if mb = vdMailboxByName(c.Kind); mb == nil {
				t.Fatalf("kind %q", c.Kind)
			}
		}
		out := c02MbOut{Kind: c.Kind, Cap: c.Cap}
		for _, op := range c.Ops {
			r := 0
			switch op.Op {
			case "enq":
				rc := new(ReceiveContext)
				rc.message = &vdMsg{ID: uint64(op.ID)}
				if err := mb.Enqueue(rc); err == nil {
					r = 1
				}
			case "deq":
				r = -1
				if rc := mb.Dequeue(); rc != nil {
					if m, ok := rc.Message().(*vdMsg); ok {
						r = int(m.ID)
					} else {
						r = -2
					}
				}
			case "empty":
				if mb.IsEmpty() {
					r = 1
				}
			}
			out.Outs = append(out.Outs, r)
			out.Lens = append(out.Lens, int(mb.Len()))
		}
		w.put(out)
	}
}

// ---------------------------------------------------------------- stress + scenarios with the exactly-once / stall oracle
func TestVerifC02Stress(t *testing.T) {
	w := newVerifWriter(t, "c02_stress_out.jsonl")
	defer w.close()
	seed := verifSeed() + 5000
	thorough := verifEnvInt("VERIF_THOROUGH", 0) == 1
	rounds := 1
	if thorough {
		rounds = 5
	}
	mailboxes := []string{"unbounded", "segmented", "bounded", "nonblocking-bounded", "priority", "upriority", "bpriority", "bstable"}
	n := 0
	for r := 0; r < rounds; r++ {
		for _, mbn := range mailboxes {
			rng := newVerifRNG(seed + uint64(n)*104729)
			cfg := vdStressCfg{Mailbox: mbn, Senders: 1 + rng.intn(6), PerSender: 150, Budget: []int{1, 3, 32}[n%3], Procs: []int{2, 4, 16}[(n/2)%3], Gate: n%2 == 0}
			if thorough {
				cfg.PerSender = 600
			}
			w.put(vdRunStress(cfg, seed+uint64(n)))
			n++
		}
	}
}

func TestVerifC02Stash(t *testing.T) {
	w := newVerifWriter(t, "c02_stash_out.jsonl")
	defer w.close()
	per := 200
	if verifEnvInt("VERIF_THOROUGH", 0) == 1 {
		per = 1500
	}
	w.put(vdRunStashStress("unbounded", 3, per, 2, 4, verifSeed()+61))
	w.put(vdRunStashStress("segmented", 2, per, 32, 8, verifSeed()+62))
}

func TestVerifC02Scenarios(t *testing.T) {
	w := newVerifWriter(t, "c02_scen_out.jsonl")
	defer w.close()
	mbs := []string{"unbounded", "segmented", "nonblocking-bounded"}
	if verifEnvInt("VERIF_THOROUGH", 0) != 1 {
		mbs = []string{mbs[int(verifSeed()+1)%len(mbs)], "unbounded"}
		if mbs[0] == "unbounded" {
			mbs = mbs[:1]
		}
	}
	for _, mb := range mbs {
		for _, o := range vdScenarios(mb) {
			w.put(o)
		}
	}
	// the reclaim races with the real mailbox sitting exactly on a segment / ring boundary
	type bnd struct {
		mb string
		n  int
	}
	bs := []bnd{{"segmented", 256}, {"segmented", 512}, {"nonblocking-bounded", 4096}, {"bounded", 4096}}
	if verifEnvInt("VERIF_THOROUGH", 0) == 1 {
		bs = append(bs, bnd{"segmented", 1024}, bnd{"unbounded", 256}, bnd{"priority", 256})
	}
	for _, b := range bs {
		for _, o := range vdScenariosAtBoundary(b.mb, b.n) {
			w.put(o)
		}
	}
}

func TestVerifC02Grain(t *testing.T) {
	w := newVerifWriter(t, "c02_grain_out.jsonl")
	defer w.close()
	seed := verifSeed()
	per := 200
	if verifEnvInt("VERIF_THOROUGH", 0) == 1 {
		per = 1500
	}
	w.put(vdRunGrainStress(6, per, 2, 4, seed))
	w.put(vdRunGrainStress(3, per, 32, 8, seed+1))
}

// ---------------------------------------------------------------- the fair-mailbox stall on a real actor
type c02FairOut struct {
	Completed     bool   `json:"completed"`
	Why           string `json:"why"`
	Stalled       bool   `json:"stalled"`
	HandledM1     bool   `json:"handled_m1"`
	HandledM2     bool   `json:"handled_m2"`
	Len           int64  `json:"mailbox_len"`
	IsEmpty       bool   `json:"mailbox_is_empty"`
	DequeueIsNil  bool   `json:"dequeue_returns_nil"`
	State         string `json:"state"`
	LaterHandled  bool   `json:"later_message_from_same_sender_handled"`
	SenderActive  bool   `json:"sender_active_flag"`
	SenderPending int64  `json:"sender_pending"`
}

// TestVerifC02FairStall replays C02_fair_stall_refuted on a real actor whose mailbox is the real
// UnboundedFairMailbox. Producer P1 (sender key = NoSender) is emulated with the mailbox's own atomic
// operations and preempted between the tail swap and the link of the per-sender queue; producer P2 is a
// real Tell with the same sender key. After P1 completes, both messages are accepted, IsEmpty() is false,
// and Dequeue() returns nil for ever: neither message is ever handled.
func TestVerifC02FairStall(t *testing.T) {
	w := newVerifWriter(t, "c02_fair_out.jsonl")
	defer w.close()
	var out c02FairOut
	defer func() { w.put(out) }()
	ctx := context.Background()
	sys, err := vdNewSystem("c02fair")
	if err != nil {
		out.Why = err.Error()
		return
	}
	defer sys.Stop(ctx)
	rec := newVdRecorder()
	mb := NewUnboundedFairMailbox()
	pid, err := sys.Spawn(ctx, "a", &vdActor{rec: rec}, WithLongLived(), WithMailbox(mb))
	if err != nil {
		out.Why = err.Error()
		return
	}
	if !vdWaitUntil(5*time.Second, func() bool { return pid.schedState.Load() == dispatchIdle && mb.IsEmpty() }) {
		out.Why = "actor did not become idle"
		return
	}
	noSender := sys.NoSender()
	m1 := &vdMsg{ID: 1}
	m2 := &vdMsg{ID: 2}
	// --- P1: first half of UnboundedFairMailbox.Enqueue / UnboundedMailbox.Enqueue, by hand
	rc1 := toReceiveContext(ctx, noSender, pid, m1, true)
	key := deriveSenderKey(rc1)
	var sq *senderBox
	if v, ok := mb.senders.Load(key); ok {
		sq = v.(*senderBox)
	} else {
		nsq := &senderBox{mailbox: NewUnboundedMailbox()}
		if actual, loaded := senderLoadOrStore(mb, key, nsq); loaded {
			sq = actual.(*senderBox)
		} else {
			sq = nsq
		}
	}
	inner, ok := sq.mailbox.(*UnboundedMailbox)
	if !ok {
		out.Why = "per-sender queue is no longer an *UnboundedMailbox: the emulation does not apply"
		return
	}
	atomic.StorePointer(&rc1.next, nil)
	prev := (*ReceiveContext)(atomic.SwapPointer(&inner.tail, unsafe.Pointer(rc1)))
	// --- P1 preempted here (tail swapped, not linked). P2: a complete real Tell with the same sender key.
	if err := Tell(ctx, pid, m2); err != nil {
		out.Why = "tell m2: " + err.Error()
		return
	}
	// the worker pops the sender, finds its queue transiently empty and deactivates it
	vdWaitUntil(2*time.Second, func() bool { return !sq.active.Load() })
	// --- P1 resumes: link, length++, pending++ (== 2, so no activation), TrySchedule
	atomic.StorePointer(&prev.next, unsafe.Pointer(rc1))
	atomic.AddInt64(&mb.length, 1)
	if pending := atomic.AddInt64(&sq.pending, 1); pending == 1 {
		if sq.active.CompareAndSwap(false, true) {
			mb.active.enqueue(sq)
		}
	}
	if pid.schedState.TrySchedule() {
		pid.dispatcher.schedule(pid)
	}
	out.Completed = true
	done := vdWaitUntil(3*time.Second, func() bool { return rec.handledN.Load() >= 2 })
	c, _ := rec.snapshot()
	out.HandledM1, out.HandledM2 = c[1] > 0, c[2] > 0
	out.Stalled = !done
	out.Len = mb.Len()
	out.IsEmpty = mb.IsEmpty()
	out.State = c01StateNameLib(pid.schedState.Load())
	out.SenderActive = sq.active.Load()
	out.SenderPending = atomic.LoadInt64(&sq.pending)
	if out.Stalled {
		// a later message from the same sender is stuck behind them too
		m3 := &vdMsg{ID: 3}
		_ = Tell(ctx, pid, m3)
		out.LaterHandled = vdWaitUntil(500*time.Millisecond, func() bool { c, _ := rec.snapshot(); return c[3] > 0 })
	}
}

// ---------------------------------------------------------------- a stopped actor with a non-empty disposed mailbox
type c02ZombieOut struct {
	Completed        bool    `json:"completed"`
	Why              string  `json:"why"`
	Workers          int     `json:"dispatcher_workers"`
	Zombies          int     `json:"stopped_actors_with_leftover_messages"`
	MailboxKind      string  `json:"mailbox"`
	LenAfterStop     []int64 `json:"mailbox_len_after_stop"`
	EmptyAfterStop   []bool  `json:"mailbox_is_empty_after_stop"`
	DequeuesIn100ms  []int64 `json:"dequeue_calls_in_100ms_after_stop"`
	Spinning         bool    `json:"worker_spins_on_stopped_actor"`
	LiveActorHandled bool    `json:"message_to_live_actor_handled"`
	LiveActorWaitMs  int64   `json:"live_actor_wait_ms"`
}

// TestVerifC02StoppedActorSpin: actors that stop themselves (ctx.Shutdown from the handler) while messages
// remain in their BoundedMailbox. Shutdown disposes the mailbox; if the disposed mailbox still reports
// non-empty while Dequeue returns nil, the worker that runs the turn reclaims for ever. With as many such
// actors as dispatcher workers, a message accepted by a LIVE actor is never handled.
func TestVerifC02StoppedActorSpin(t *testing.T) {
	w := newVerifWriter(t, "c02_zombie_out.jsonl")
	defer w.close()
	out := c02ZombieOut{MailboxKind: "BoundedMailbox(16)"}
	defer func() { w.put(out) }()
	old := runtime.GOMAXPROCS(2)
	defer runtime.GOMAXPROCS(old)
	ctx := context.Background()
	sys, err := vdNewSystem("c02zombie")
	if err != nil {
		out.Why = err.Error()
		return
	}
	defer func() {
		done := make(chan struct{})
		go func() { _ = sys.Stop(ctx); close(done) }()
		vdWait(done, 5*time.Second)
	}()
	out.Workers = len(sys.(*actorSystem).dispatcher.workers)
	out.Zombies = out.Workers
	liveRec := newVdRecorder()
	live, err := sys.Spawn(ctx, "live", &vdActor{rec: liveRec}, WithLongLived())
	if err != nil {
		out.Why = err.Error()
		return
	}
	var gates []*vdGateMailbox
	var zs []*PID
	for i := 0; i < out.Zombies; i++ {
		g := newVdGateMailbox(NewBoundedMailbox(16))
		z, err := sys.Spawn(ctx, fmt.Sprintf("z%d", i), &vdActor{rec: newVdRecorder()}, WithLongLived(), WithMailbox(g))
		if err != nil {
			out.Why = err.Error()
			return
		}
		gates, zs = append(gates, g), append(zs, z)
	}
	for i, z := range zs {
		if !vdWaitUntil(5*time.Second, func() bool { return z.schedState.Load() == dispatchIdle && gates[i].inner.IsEmpty() }) {
			out.Why = "actor did not become idle"
			return
		}
	}
	// each actor: a first message whose handler is held, two more queued behind it, then the handler stops the actor
	var rels []chan struct{}
	for _, z := range zs {
		m := &vdMsg{ID: 1, Entered: make(chan struct{}), Block: make(chan struct{}), Stop: true}
		if err := Tell(ctx, z, m); err != nil {
			out.Why = err.Error()
			return
		}
		if !vdWait(m.Entered, 15*time.Second) {
			out.Why = "first message not handled"
			return
		}
		_ = Tell(ctx, z, &vdMsg{ID: 2})
		_ = Tell(ctx, z, &vdMsg{ID: 3})
		rels = append(rels, m.Block)
	}
	for _, r := range rels {
		close(r)
	}
	for _, z := range zs {
		vdWaitUntil(5*time.Second, func() bool { return !z.IsRunning() })
	}
	time.Sleep(20 * time.Millisecond)
	out.Completed = true
	before := make([]int64, len(gates))
	for i, g := range gates {
		before[i] = g.hits[gpDeqBefore].Load()
	}
	time.Sleep(100 * time.Millisecond)
	for i, g := range gates {
		d := g.hits[gpDeqBefore].Load() - before[i]
		out.DequeuesIn100ms = append(out.DequeuesIn100ms, d)
		out.LenAfterStop = append(out.LenAfterStop, g.inner.Len())
		out.EmptyAfterStop = append(out.EmptyAfterStop, g.inner.IsEmpty())
		if d > 1000 {
			out.Spinning = true
		}
	}
	t0 := time.Now()
	if err := Tell(ctx, live, &vdMsg{ID: 77}); err != nil {
		out.Why = "live actor rejected the message: " + err.Error()
		return
	}
	out.LiveActorHandled = vdWaitUntil(5*time.Second, func() bool { c, _ := liveRec.snapshot(); return c[77] > 0 })
	out.LiveActorWaitMs = time.Since(t0).Milliseconds()
}

// ---------------------------------------------------------------- grain: the reclaim race, worker emulated with the grain's own methods
type c02GrainReclaimOut struct {
	Completed bool   `json:"completed"`
	Why       string `json:"why"`
	OwnedTurn bool   `json:"owned_turn"`
	EmptyDeq  bool   `json:"dequeue_was_nil"`
	Exit      bool   `json:"finishOrReclaim_said_exit"`
	Stranded  bool   `json:"message_stranded_idle_nonempty"`
	Handled   bool   `json:"handled"`
	State     string `json:"state_after"`
}

// TestVerifC02GrainReclaim: the turn loop of grainPID.runTurn is played by hand (TakeForProcessing; dequeue
// responses; dequeue mailbox -> nil), then a real producer (grainPID.receive) enqueues while the state is
// still Processing (its TrySchedule fails), then the REAL finishOrReclaim runs: it must reclaim the turn
// (return false); otherwise the message stays in the mailbox with the state Idle and no ticket.
func TestVerifC02GrainReclaim(t *testing.T) {
	w := newVerifWriter(t, "c02_grain_reclaim_out.jsonl")
	defer w.close()
	var out c02GrainReclaimOut
	defer func() { w.put(out) }()
	ctx := context.Background()
	sys, err := vdNewSystem("c02grainreclaim")
	if err != nil {
		out.Why = err.Error()
		return
	}
	defer sys.Stop(ctx)
	rec := newVdRecorder()
	id, err := sys.GrainIdentity(ctx, "g1", func(context.Context) (Grain, error) { return &vdGrain{rec: rec}, nil }, WithLongLivedGrain())
	if err != nil {
		out.Why = err.Error()
		return
	}
	if err := sys.TellGrain(ctx, id, &vdMsg{ID: 1}); err != nil {
		out.Why = "activation: " + err.Error()
		return
	}
	x := sys.(*actorSystem)
	pid, err := x.ensureGrainProcess(ctx, id)
	if err != nil || pid == nil {
		out.Why = "no grain process"
		return
	}
	if !vdWaitUntil(5*time.Second, func() bool { return pid.schedState.Load() == dispatchIdle && pid.mailbox.IsEmpty() }) {
		out.Why = "grain did not become idle"
		return
	}
	// the worker, by hand: take the turn without a ticket
	out.OwnedTurn = pid.schedState.TrySchedule() && pid.schedState.TakeForProcessing()
	if !out.OwnedTurn {
		out.Why = "could not take the turn"
		return
	}
	out.EmptyDeq = pid.dequeueResponse() == nil && pid.mailbox.Dequeue() == nil
	// a real producer while the state is Processing
	gctx := getGrainContext()
	gctx.build(ctx, pid, x, id, &vdMsg{ID: 2}, grainTell)
	pid.receive(gctx)
	out.Completed = true
	out.Exit = pid.finishOrReclaim()
	if out.Exit {
		out.Stranded = !pid.mailbox.IsEmpty() && pid.schedState.Load() == dispatchIdle
	} else {
		// continue the turn as runTurn does
		if m := pid.mailbox.Dequeue(); m != nil {
			pid.dispatchOne(m)
		}
		for i := 0; i < 4 && !pid.finishOrReclaim(); i++ {
			if m := pid.mailbox.Dequeue(); m != nil {
				pid.dispatchOne(m)
			}
		}
	}
	out.Handled = vdWaitUntil(3*time.Second, func() bool { c, _ := rec.snapshot(); return c[2] > 0 })
	out.State = c01StateNameLib(pid.schedState.Load())
}
