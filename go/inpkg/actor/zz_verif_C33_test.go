//go:build verif

package actor

import (
	"context"
	"errors"
	"fmt"
	"net"
	"os"
	"sort"
	"strconv"
	"strings"
	"sync"
	"testing"
	"time"

	"github.com/stretchr/testify/mock"

	"github.com/tochemey/goakt/v4/discovery"
	"github.com/tochemey/goakt/v4/eventstream"
	"github.com/tochemey/goakt/v4/internal/address"
	"github.com/tochemey/goakt/v4/internal/cluster"
	"github.com/tochemey/goakt/v4/internal/internalpb"
	"github.com/tochemey/goakt/v4/log"
	mockcluster "github.com/tochemey/goakt/v4/mocks/cluster"
	mocksremote "github.com/tochemey/goakt/v4/mocks/remoteclient"
)

// C33 (worker): runs the REAL relocationWorker.relocate against a mocked cluster registry (per-item
// success/failure of local recreation and release) and a mocked transport (peers that are unreachable
// for batches containing a "poison" item, peers that report per-item failures) and records every
// RelocateBatch attempt, the RelocationFailed events, the job release and the snapshot deletion.

const (
	c33DepHost     = "10.0.0.99"
	c33DepRemoting = 9099
	c33DepPeers    = 7099
)

type c33Case struct {
	N           int                 `json:"n"`
	LeaderRoles []int               `json:"leader_roles"`
	Peers       [][]int             `json:"peers"`
	Actors      []c32Actor          `json:"actors"`
	Grains      []c32Grain          `json:"grains"`
	HasLoads    bool                `json:"has_loads"`
	Loads       []int               `json:"loads"`
	LocalFail   []string            `json:"local_fail"`
	Poison      map[string][]string `json:"poison"`   // peer index -> items: a batch containing one of them gets an RPC error from that peer
	Reported    map[string][]string `json:"reported"` // peer index -> items the peer reports as failed in its response
	PeersError  bool                `json:"peers_error"`
	DepHost     string              `json:"dep_host"` // host of the departed node ("" = 10.0.0.99); IPv6 literals allowed
	Stale       []string            `json:"stale"`    // items whose registry entry still points at the departed node
}

type c33Call struct {
	AtMs     int64    `json:"at_ms"`
	Peer     int      `json:"peer"`
	Actors   []string `json:"actors"`
	Grains   []string `json:"grains"`
	Ok       bool     `json:"ok"`
	Reported []string `json:"reported"`
}

type c33Event struct {
	Addr   string   `json:"addr"`
	Actors []string `json:"actors"`
	Grains []string `json:"grains"`
}

type c33Out struct {
	N           int            `json:"n"`
	Calls       []c33Call      `json:"calls"`
	ActorLooks  map[string]int `json:"actor_lookups"`
	GrainLooks  map[string]int `json:"grain_lookups"`
	Events      []c33Event     `json:"events"`
	JobReleased bool           `json:"job_released"`
	Deletes     int            `json:"deletes"`
	Err         string         `json:"err"`
	TookMs      int64          `json:"took_ms"`
	Markers     []string       `json:"markers"`      // distinct departed-node markers carried by the RelocateBatch requests
	WantMarker  string         `json:"want_marker"`  // how the registry renders the departed node's endpoint
	DupAccepted int            `json:"dup_accepted"` // duplicate departures accepted while the snapshot was being deleted
}

type verifC33Store struct {
	mu       sync.Mutex
	deletes  []string
	onDelete func(addr string) // runs inside DeletePeerState, i.e. while the snapshot is still readable
}

func (s *verifC33Store) PersistPeerState(context.Context, *internalpb.PeerState) error { return nil }
func (s *verifC33Store) GetPeerState(context.Context, string) (*internalpb.PeerState, bool) {
	return nil, false
}
func (s *verifC33Store) DeletePeerState(_ context.Context, a string) error {
	if s.onDelete != nil {
		s.onDelete(a)
	}
	s.mu.Lock()
	s.deletes = append(s.deletes, a)
	s.mu.Unlock()
	return nil
}
func (s *verifC33Store) Close() error { return nil }

func c33ActorName(id int) string { return "a" + strconv.Itoa(id) }
func c33GrainName(id int) string { return "g" + strconv.Itoa(id) }

func c33WireActor(a c32Actor, host string) *internalpb.Actor {
	w := &internalpb.Actor{
		Address:     address.New(c33ActorName(a.ID), "test", host, c33DepRemoting).String(),
		Type:        "actor.verifc33unknown",
		Relocatable: true,
	}
	if a.Role != 0 {
		r := c32Role(a.Role)
		w.Role = &r
	}
	if a.Single {
		w.Singleton = &internalpb.SingletonSpec{}
	}
	return w
}

func c33WireGrain(g c32Grain, host string) *internalpb.Grain {
	return &internalpb.Grain{
		GrainId:           &internalpb.GrainId{Value: c33GrainName(g.ID), Name: c33GrainName(g.ID), Kind: "actor.verifc33grain"},
		Host:              host,
		Port:              c33DepRemoting,
		DisableRelocation: g.Disabled,
		EagerRelocation:   g.Eager,
	}
}

func c33NameOfAddress(s string) string {
	if addr, err := address.Parse(s); err == nil {
		return addr.Name()
	}
	return s
}

func c33Set(xs []string) map[string]bool {
	m := map[string]bool{}
	for _, x := range xs {
		m[x] = true
	}
	return m
}

func c33RunWorker(t *testing.T, c c33Case) (out c33Out) {
	out.N = c.N
	out.ActorLooks, out.GrainLooks = map[string]int{}, map[string]int{}
	defer func() {
		if r := recover(); r != nil {
			out.Err = fmt.Sprint("panic: ", r)
		}
	}()
	ctx := context.Background()
	system, err := NewActorSystem("test", WithLogger(log.DiscardLogger))
	if err != nil {
		out.Err = err.Error()
		return out
	}
	sys := system.(*actorSystem)
	var mu sync.Mutex
	started := time.Now()
	localFail := c33Set(c.LocalFail)
	stale := c33Set(c.Stale)
	depHost := c.DepHost
	if depHost == "" {
		depHost = c33DepHost
	}
	out.WantMarker = address.New("x", "test", depHost, c33DepRemoting).HostPort()
	generic := errors.New("registry unavailable")

	clusterMock := &mockcluster.Cluster{}
	clusterMock.Test(t)
	peers := c32Peers(c.Peers)
	if c.PeersError {
		clusterMock.EXPECT().Peers(mock.Anything).Return(nil, errors.New("cluster failure")).Maybe()
	} else {
		clusterMock.EXPECT().Peers(mock.Anything).Return(peers, nil).Maybe()
	}
	clusterMock.EXPECT().CountActorsByHost(mock.Anything, mock.Anything).RunAndReturn(func(context.Context, time.Duration) (map[string]int, error) {
		if !c.HasLoads {
			return nil, errors.New("scan failed")
		}
		m := map[string]int{}
		if len(c.Loads) > 0 {
			m[address.FormatHostPort(sys.Host(), sys.Port())] = c.Loads[0]
		}
		for i, p := range peers {
			if i+1 < len(c.Loads) {
				m[address.FormatHostPort(p.Host, p.RemotingPort)] = c.Loads[i+1]
			}
		}
		return m, nil
	}).Maybe()
	clusterMock.EXPECT().GetActor(mock.Anything, mock.Anything).RunAndReturn(func(_ context.Context, name string) (*internalpb.Actor, error) {
		mu.Lock()
		out.ActorLooks[name]++
		mu.Unlock()
		if localFail[name] {
			return nil, generic
		}
		if stale[name] {
			// the record still points at the departed node: it has to be withdrawn and the actor respawned
			// (which fails here: its type is not registered on this node)
			return &internalpb.Actor{Address: address.New(name, "test", depHost, c33DepRemoting).String(), Type: "actor.verifc33unknown"}, nil
		}
		// already present on a live node: the relocation of this item is complete without a respawn
		return &internalpb.Actor{Address: address.New(name, "test", "10.0.0.1", 9000).String()}, nil
	}).Maybe()
	clusterMock.EXPECT().GetGrain(mock.Anything, mock.Anything).RunAndReturn(func(_ context.Context, id string) (*internalpb.Grain, error) {
		mu.Lock()
		out.GrainLooks[id]++
		mu.Unlock()
		if localFail[id] {
			return nil, generic
		}
		if stale[id] {
			return &internalpb.Grain{GrainId: &internalpb.GrainId{Value: id, Name: id, Kind: "actor.verifc33grain"}, Host: depHost, Port: c33DepRemoting}, nil
		}
		return &internalpb.Grain{GrainId: &internalpb.GrainId{Value: id}, Host: "10.0.0.1", Port: 9000}, nil
	}).Maybe()

	clusterMock.EXPECT().RemoveActor(mock.Anything, mock.Anything).Return(nil).Maybe()
	clusterMock.EXPECT().PutActor(mock.Anything, mock.Anything).Return(nil).Maybe()
	clusterMock.EXPECT().RemoveGrain(mock.Anything, mock.Anything).Return(nil).Maybe()
	clusterMock.EXPECT().PutGrain(mock.Anything, mock.Anything).Return(nil).Maybe()

	remotingMock := &mocksremote.Client{}
	remotingMock.Test(t)
	remotingMock.EXPECT().RelocateBatch(mock.Anything, mock.Anything, mock.Anything, mock.Anything).
		RunAndReturn(func(_ context.Context, host string, port int, req *internalpb.RelocateBatchRequest) (*internalpb.RelocateBatchResponse, error) {
			peer := -1
			for i, p := range peers {
				if p.Host == host && p.RemotingPort == port {
					peer = i
				}
			}
			call := c33Call{Peer: peer, AtMs: time.Since(started).Milliseconds()}
			poison := c33Set(c.Poison[strconv.Itoa(peer)])
			reported := c33Set(c.Reported[strconv.Itoa(peer)])
			bad := false
			resp := &internalpb.RelocateBatchResponse{}
			for _, a := range req.GetActors() {
				n := c33NameOfAddress(a.GetAddress())
				call.Actors = append(call.Actors, n)
				bad = bad || poison[n]
				if reported[n] {
					call.Reported = append(call.Reported, n)
					resp.Failures = append(resp.Failures, &internalpb.RelocationFailure{Id: a.GetAddress(), Grain: false, Message: "remote failure"})
				}
			}
			for _, g := range req.GetGrains() {
				n := g.GetGrainId().GetValue()
				call.Grains = append(call.Grains, n)
				bad = bad || poison[n]
				if reported[n] {
					call.Reported = append(call.Reported, n)
					resp.Failures = append(resp.Failures, &internalpb.RelocationFailure{Id: n, Grain: true, Message: "remote failure"})
				}
			}
			call.Ok = !bad
			mu.Lock()
			known := false
			for _, m := range out.Markers {
				known = known || m == req.GetDepartedNode()
			}
			if !known {
				out.Markers = append(out.Markers, req.GetDepartedNode())
			}
			out.Calls = append(out.Calls, call)
			mu.Unlock()
			if !call.Ok {
				return nil, errors.New("peer unreachable")
			}
			return resp, nil
		}).Maybe()

	store := &verifC33Store{}
	sys.cluster = clusterMock
	sys.clusterStore = store
	sys.relocationEnabled.Store(true)
	sys.clusterNode = &discovery.Node{Host: "10.0.0.50", PeersPort: 7050, RemotingPort: 9050, Roles: c32Roles(c.LeaderRoles)}

	peerState := &internalpb.PeerState{
		Host: depHost, PeersPort: c33DepPeers, RemotingPort: c33DepRemoting,
		Actors: map[string]*internalpb.Actor{}, Grains: map[string]*internalpb.Grain{},
	}
	for _, a := range c.Actors {
		peerState.Actors[c33ActorName(a.ID)] = c33WireActor(a, depHost)
	}
	for _, g := range c.Grains {
		peerState.Grains[c33GrainName(g.ID)] = c33WireGrain(g, depHost)
	}
	jobKey := net.JoinHostPort(depHost, strconv.Itoa(c33DepPeers))
	// a duplicate NodeLeft handled by the leader while the worker is deleting the snapshot: the snapshot is
	// still readable, so only the registered job keeps it from starting a second relocation of the node
	store.onDelete = func(string) {
		if sys.beginRelocation(jobKey, &internalpb.PeerState{Host: depHost, PeersPort: c33DepPeers, RemotingPort: c33DepRemoting, Actors: peerState.Actors}) {
			mu.Lock()
			out.DupAccepted++
			mu.Unlock()
			sys.endRelocation(jobKey)
		}
	}
	if !sys.beginRelocation(jobKey, peerState) {
		out.Err = "beginRelocation refused a fresh job"
		return out
	}
	stream := eventstream.New()
	consumer := stream.AddSubscriber()
	stream.Subscribe(consumer, eventsTopic)
	worker := &relocationWorker{
		remoting: remotingMock,
		pid:      &PID{actorSystem: system, logger: log.DiscardLogger, eventsStream: stream},
		logger:   log.DiscardLogger,
	}
	receiveCtx := newReceiveContext(ctx, nil, worker.pid, &internalpb.Rebalance{PeerState: peerState})
	start := time.Now()
	worker.relocate(receiveCtx, peerState)
	out.TookMs = time.Since(start).Milliseconds()

	_, inflight := sys.relocationJob(jobKey)
	out.JobReleased = !inflight
	store.mu.Lock()
	out.Deletes = len(store.deletes)
	store.mu.Unlock()
	for message := range consumer.Iterator() {
		if ev, ok := message.Payload().(*RelocationFailed); ok {
			e := c33Event{Addr: ev.Address()}
			for _, a := range ev.Actors() {
				e.Actors = append(e.Actors, c33NameOfAddress(a))
			}
			e.Grains = append(e.Grains, ev.Grains()...)
			sort.Strings(e.Actors)
			sort.Strings(e.Grains)
			out.Events = append(out.Events, e)
		}
	}
	return out
}

func TestVerifC33Worker(t *testing.T) {
	cases := verifReadJSONL[c33Case](t, "c33_in.jsonl")
	w := newVerifWriter(t, "c33_out.jsonl")
	defer w.close()
	outs := make([]c33Out, len(cases))
	sem := make(chan struct{}, verifEnvInt("VERIF_C33_PAR", 12))
	var wg sync.WaitGroup
	for i, c := range cases {
		wg.Add(1)
		sem <- struct{}{}
		go func() {
			defer wg.Done()
			defer func() { <-sem }()
			outs[i] = c33RunWorker(t, c)
		}()
	}
	wg.Wait()
	for _, o := range outs {
		w.put(o)
	}
}


// ---------------------------------------------------------------------------------------------
// C33 (leader): the REAL relocationJobs map, relocator (startWorker / handleTerminated /
// abortRelocation) and relocation workers, stepped by the harness.  The relocator object is driven by
// hand (one message per step, as its mailbox would) with the PID of a holder actor, so ctx.Spawn /
// ctx.Watch / ctx.Tell act on a running actor tree: workers are real actors, their Terminated
// messages reach the holder, which only records them in the harness queue (= the relocator mailbox
// of the model).  A worker blocks inside cluster.Peers until the harness decides how it ends.

type c33Op struct {
	Op       string `json:"op"` // nodeleft | relocator | finish | crash
	Addr     int    `json:"addr"`
	TellOk   bool   `json:"tell_ok"`
	Content  string `json:"content"` // ok | unplaceable
	SpawnOk  bool   `json:"spawn_ok"`
	Pick     int    `json:"pick"`
	PeersErr bool   `json:"peers_error"`
}

type c33Seq struct {
	N   int     `json:"n"`
	Ops []c33Op `json:"ops"`
}

type c33Msg struct {
	Kind string `json:"kind"` // rebalance | terminated
	Addr int    `json:"addr"`
	Job  int    `json:"job"`
	W    int    `json:"w"`
}

type c33Applied struct {
	Op      string `json:"op"`
	Addr    int    `json:"addr"`
	TellOk  bool   `json:"tell_ok"`
	SpawnOk bool   `json:"spawn_ok"`
	W       int    `json:"w"`
	Kind    string `json:"kind"` // finish kind: none | failed | peers_error
	Stuck   string `json:"stuck"` // non-empty: no Terminated reached the relocator after the worker ended
	// observation after the step
	Jobs    map[string]int    `json:"jobs"`    // addr -> job id
	Workers map[string][2]int `json:"workers"` // worker number -> (addr, job)
	Seq     uint64            `json:"seq"`
	Queue   []c33Msg          `json:"queue"`
	Events  []c33LeaderEvent  `json:"events"`
	Deletes int               `json:"deletes"`
	DupAccepted int           `json:"dup_accepted"` // duplicate departures accepted while a snapshot was being deleted (so far)
}

type c33LeaderEvent struct {
	Addr   int `json:"addr"`
	Actors int `json:"actors"`
}

type c33LeaderOut struct {
	N       int          `json:"n"`
	Applied []c33Applied `json:"applied"`
	Err     string       `json:"err"`
}

type c33LogBuf struct {
	mu sync.Mutex
	b  []byte
}

func (l *c33LogBuf) Write(p []byte) (int, error) {
	l.mu.Lock()
	l.b = append(l.b, p...)
	l.mu.Unlock()
	return len(p), nil
}
func (l *c33LogBuf) tail(n int) string {
	l.mu.Lock()
	defer l.mu.Unlock()
	if len(l.b) > n {
		return string(l.b[len(l.b)-n:])
	}
	return string(l.b)
}

type verifC33Holder struct {
	mu    sync.Mutex
	queue []any
}

func (h *verifC33Holder) PreStart(*Context) error { return nil }
func (h *verifC33Holder) PostStop(*Context) error { return nil }
func (h *verifC33Holder) Receive(ctx *ReceiveContext) {
	if os.Getenv("VERIF_C33_DEBUG") != "" {
		fmt.Printf("HOLDER got %T\n", ctx.Message())
	}
	switch m := ctx.Message().(type) {
	case *internalpb.Rebalance, *Terminated:
		h.mu.Lock()
		h.queue = append(h.queue, m)
		h.mu.Unlock()
	}
}
func (h *verifC33Holder) length() int {
	h.mu.Lock()
	defer h.mu.Unlock()
	return len(h.queue)
}

type verifC33Idle struct{}

func (verifC33Idle) PreStart(*Context) error { return nil }
func (verifC33Idle) PostStop(*Context) error { return nil }
func (verifC33Idle) Receive(*ReceiveContext)   {}

type verifC33Gate struct {
	mu      sync.Mutex
	waiting []chan string
}

func (g *verifC33Gate) arrive() chan string {
	ch := make(chan string, 1)
	g.mu.Lock()
	g.waiting = append(g.waiting, ch)
	g.mu.Unlock()
	return ch
}
func (g *verifC33Gate) count() int {
	g.mu.Lock()
	defer g.mu.Unlock()
	return len(g.waiting)
}

func c33Wait(cond func() bool) bool { return c33WaitFor(5*time.Second, cond) }

func c33WaitFor(d time.Duration, cond func() bool) bool {
	deadline := time.Now().Add(d)
	for time.Now().Before(deadline) {
		if cond() {
			return true
		}
		time.Sleep(time.Millisecond)
	}
	return cond()
}

func c33WorkerNumber(name string) int {
	i := strings.LastIndex(name, "-")
	n, _ := strconv.Atoi(name[i+1:])
	return n
}

func c33RunLeader(t *testing.T, sq c33Seq) (out c33LeaderOut) {
	out.N = sq.N
	defer func() {
		if r := recover(); r != nil {
			out.Err = fmt.Sprint("panic: ", r)
		}
	}()
	ctx := context.Background()
	var logBuf c33LogBuf
	var logger log.Logger = log.DiscardLogger
	if os.Getenv("VERIF_C33_DEBUG") != "" {
		logger = log.NewSlog(log.DebugLevel, &logBuf)
		defer func() {
			if strings.Contains(out.Err, "spawn") || func() bool {
				for _, a := range out.Applied {
					if strings.HasPrefix(a.Kind, "spawn-error") {
						return true
					}
				}
				return false
			}() {
				fmt.Printf("==== LOG of sequence %d ====\n%s\n", sq.N, logBuf.tail(400000))
			}
		}()
	}
	system, err := NewActorSystem("verifC33-"+strconv.Itoa(sq.N), WithLogger(logger))
	if err != nil {
		out.Err = err.Error()
		return out
	}
	if err := system.Start(ctx); err != nil {
		out.Err = err.Error()
		return out
	}
	defer func() { _ = system.Stop(ctx) }()
	sys := system.(*actorSystem)

	gate := &verifC33Gate{}
	clusterMock := &mockcluster.Cluster{}
	clusterMock.Test(t)
	clusterMock.EXPECT().Peers(mock.Anything).RunAndReturn(func(context.Context) ([]*cluster.Peer, error) {
		switch <-gate.arrive() {
		case "error":
			return nil, errors.New("cluster failure")
		case "panic":
			panic("verif: injected worker crash")
		}
		return nil, nil
	}).Maybe()
	clusterMock.EXPECT().CountActorsByHost(mock.Anything, mock.Anything).Return(nil, errors.New("no scan")).Maybe()
	clusterMock.EXPECT().GetActor(mock.Anything, mock.Anything).RunAndReturn(func(_ context.Context, name string) (*internalpb.Actor, error) {
		return &internalpb.Actor{Address: address.New(name, "test", "10.0.0.1", 9000).String()}, nil
	}).Maybe()
	store := &verifC33Store{}
	var dupMu sync.Mutex
	dupAccepted := 0
	// a duplicate NodeLeft handled by the leader while the snapshot of that address is being deleted
	store.onDelete = func(addr string) {
		host, port, _ := net.SplitHostPort(addr)
		pp, _ := strconv.Atoi(port)
		if sys.beginRelocation(addr, &internalpb.PeerState{Host: host, PeersPort: int32(pp), Actors: map[string]*internalpb.Actor{"dup": {Address: "dup"}}}) {
			dupMu.Lock()
			dupAccepted++
			dupMu.Unlock()
			sys.endRelocation(addr)
		}
	}
	sys.cluster = clusterMock
	sys.clusterStore = store
	sys.relocationEnabled.Store(true)

	holder := &verifC33Holder{}
	holderPID, err := system.Spawn(ctx, "verif-holder", holder, WithLongLived())
	if err != nil {
		out.Err = err.Error()
		return out
	}
	senderPID, err := system.Spawn(ctx, "verif-sender", verifC33Idle{}, WithLongLived())
	if err != nil {
		out.Err = err.Error()
		return out
	}
	stoppedPID, err := system.Spawn(ctx, "verif-stopped", verifC33Idle{}, WithLongLived())
	if err != nil {
		out.Err = err.Error()
		return out
	}
	// give the guardians time to handle their PostStart: a Terminated (system mailbox) that overtakes the
	// PostStart (user mailbox) of the user guardian makes it log through a nil logger and takes the system down
	time.Sleep(150 * time.Millisecond)
	_ = stoppedPID.Shutdown(ctx)
	consumer, err := system.Subscribe()
	if err != nil {
		out.Err = err.Error()
		return out
	}
	manager := &relocator{remoting: &mocksremote.Client{}, pid: holderPID, logger: log.DiscardLogger, workers: make(map[string]workerJob)}

	jobOf := map[*internalpb.PeerState]int{}
	nextJob := 0
	addrKey := func(a int) string { return "10.0.1." + strconv.Itoa(a+1) + ":7000" }
	addrOfKey := func(k string) int {
		for a := 0; a < 8; a++ {
			if addrKey(a) == k {
				return a
			}
		}
		return -1
	}
	type liveWorker struct {
		w    int
		gate chan string
		ps   *internalpb.PeerState
	}
	var live []liveWorker
	consumed := 0 // messages of holder.queue already handed to the relocator
	var events []c33LeaderEvent

	observe := func(ap *c33Applied) {
		ap.Jobs = map[string]int{}
		for a := 0; a < 4; a++ {
			if ps, ok := sys.relocationJob(addrKey(a)); ok {
				ap.Jobs[strconv.Itoa(a)] = jobOf[ps]
			}
		}
		ap.Workers = map[string][2]int{}
		for name, job := range manager.workers {
			ap.Workers[strconv.Itoa(c33WorkerNumber(name))] = [2]int{addrOfKey(job.address), jobOf[job.peerState]}
		}
		ap.Seq = manager.sequence
		holder.mu.Lock()
		for _, m := range holder.queue[consumed:] {
			switch v := m.(type) {
			case *internalpb.Rebalance:
				ps := v.GetPeerState()
				ap.Queue = append(ap.Queue, c33Msg{Kind: "rebalance", Addr: addrOfKey(ps.GetHost() + ":" + strconv.Itoa(int(ps.GetPeersPort()))), Job: jobOf[ps]})
			case *Terminated:
				ap.Queue = append(ap.Queue, c33Msg{Kind: "terminated", W: c33WorkerNumber(v.ActorPath().Name())})
			}
		}
		holder.mu.Unlock()
		// RelocationFailed events published so far
		time.Sleep(2 * time.Millisecond)
		for message := range consumer.Iterator() {
			if ev, ok := message.Payload().(*RelocationFailed); ok {
				events = append(events, c33LeaderEvent{Addr: addrOfKey(ev.Address()), Actors: len(ev.Actors())})
			}
		}
		ap.Events = append([]c33LeaderEvent(nil), events...)
		store.mu.Lock()
		ap.Deletes = len(store.deletes)
		store.mu.Unlock()
		dupMu.Lock()
		ap.DupAccepted = dupAccepted
		dupMu.Unlock()
	}

	for _, op := range sq.Ops {
		ap := c33Applied{Op: op.Op}
		switch op.Op {
		case "nodeleft":
			ps := &internalpb.PeerState{Host: "10.0.1." + strconv.Itoa(op.Addr+1), PeersPort: 7000, RemotingPort: 9000,
				Actors: map[string]*internalpb.Actor{"p": {Address: address.New("p"+strconv.Itoa(nextJob), "test", "10.0.1."+strconv.Itoa(op.Addr+1), 9000).String(), Relocatable: true}}}
			if op.Content == "unplaceable" {
				role := "nobody"
				ps.Actors["u"] = &internalpb.Actor{Address: address.New("u"+strconv.Itoa(nextJob), "test", "10.0.1."+strconv.Itoa(op.Addr+1), 9000).String(), Relocatable: true, Role: &role}
			}
			ap.Addr, ap.TellOk = op.Addr, op.TellOk
			// the three statements of dispatchDerivedRebalance / handleNodeLeftEvent after the snapshot is known
			if sys.beginRelocation(addrKey(op.Addr), ps) {
				jobOf[ps] = nextJob // snapshot identities are numbered in the order they get registered
				nextJob++
				target := holderPID
				if !op.TellOk {
					target = stoppedPID
				}
				before := holder.length()
				if err := senderPID.Tell(ctx, target, &internalpb.Rebalance{PeerState: ps}); err != nil {
					sys.endRelocation(addrKey(op.Addr))
				} else if !c33Wait(func() bool { return holder.length() > before }) {
					out.Err = "the Rebalance order never reached the relocator mailbox"
					return out
				}
			}
		case "relocator":
			holder.mu.Lock()
			var m any
			if consumed < len(holder.queue) {
				m = holder.queue[consumed]
			}
			holder.mu.Unlock()
			if m == nil {
				continue
			}
			consumed++
			ap.SpawnOk = op.SpawnOk
			before := gate.count()
			spawned := false
			if rb, ok := m.(*internalpb.Rebalance); ok {
				self := holderPID
				if !op.SpawnOk {
					// the relocator's own PID is not part of a running tree: ctx.Spawn fails
					self = stoppedPID
				}
				rctx := newReceiveContext(ctx, senderPID, self, rb)
				manager.Receive(rctx)
				if op.SpawnOk {
					if e := rctx.getError(); e != nil {
						ap.Kind = fmt.Sprintf("spawn-error: %v (holder running=%v suspended=%v stopping-state; system running=%v stopping=%v; processed=%d)", e, holderPID.IsRunning(), holderPID.IsSuspended(), system.Running(), sys.isStopping(), holderPID.ProcessedCount())
					}
				}
				if _, tracked := manager.workers[fmt.Sprintf("%s-%d", reservedName(relocationWorkerType), manager.sequence)]; tracked {
					spawned = true
					if !c33Wait(func() bool { return gate.count() > before }) {
						out.Err = "the spawned worker never started its relocation"
						return out
					}
					gate.mu.Lock()
					ch := gate.waiting[len(gate.waiting)-1]
					gate.mu.Unlock()
					live = append(live, liveWorker{w: int(manager.sequence), gate: ch, ps: rb.GetPeerState()})
				}
				ap.SpawnOk = spawned
			} else {
				manager.Receive(newReceiveContext(ctx, senderPID, holderPID, m))
			}
		case "finish", "crash":
			if len(live) == 0 {
				continue
			}
			i := op.Pick % len(live)
			lw := live[i]
			live = append(live[:i], live[i+1:]...)
			ap.W = lw.w
			before := holder.length()
			switch {
			case op.Op == "crash":
				lw.gate <- "panic"
			case op.PeersErr:
				ap.Kind = "peers_error"
				lw.gate <- "error"
			default:
				ap.Kind = "none"
				if _, has := lw.ps.GetActors()["u"]; has {
					ap.Kind = "failed"
				}
				lw.gate <- "ok"
			}
			if !c33WaitFor(3*time.Second, func() bool { return holder.length() > before }) {
				wname := fmt.Sprintf("%s-%d", reservedName(relocationWorkerType), lw.w)
				st := "gone"
				if node, ok := sys.actors.nodeByName(wname); ok && node.value() != nil {
					st = fmt.Sprintf("running=%v suspended=%v", node.value().IsRunning(), node.value().IsSuspended())
				}
				key := lw.ps.GetHost() + ":" + strconv.Itoa(int(lw.ps.GetPeersPort()))
				_, reg := sys.relocationJob(key)
				again := sys.beginRelocation(key, &internalpb.PeerState{Host: lw.ps.GetHost(), PeersPort: lw.ps.GetPeersPort()})
				if again {
					sys.endRelocation(key)
				}
				ap.Stuck = fmt.Sprintf("worker %s: %s; job of %s still registered=%v; a new departure of %s would be accepted=%v", wname, st, key, reg, key, again)
				observe(&ap)
				out.Applied = append(out.Applied, ap)
				for _, l2 := range live {
					l2.gate <- "error"
				}
				return out
			}
		default:
			continue
		}
		observe(&ap)
		out.Applied = append(out.Applied, ap)
	}
	// let blocked workers go before the system stops
	for _, lw := range live {
		lw.gate <- "error"
	}
	return out
}

func TestVerifC33Leader(t *testing.T) {
	seqs := verifReadJSONL[c33Seq](t, "c33_leader_in.jsonl")
	w := newVerifWriter(t, "c33_leader_out.jsonl")
	defer w.close()
	outs := make([]c33LeaderOut, len(seqs))
	sem := make(chan struct{}, verifEnvInt("VERIF_C33_PAR", 8))
	var wg sync.WaitGroup
	for i, sq := range seqs {
		wg.Add(1)
		sem <- struct{}{}
		go func() {
			defer wg.Done()
			defer func() { <-sem }()
			outs[i] = c33RunLeader(t, sq)
		}()
	}
	wg.Wait()
	for _, o := range outs {
		w.put(o)
	}
}
