package actor

// Yield-point hook for the instrumented copies of the mailbox files (tools/mbinstr). This file and
// the instrumented copies exist only in the `go test -overlay` build of the /verif harness.

import "sync/atomic"

var verifMbHook atomic.Pointer[func(fn, op string)]

func verifMbPoint(fn, op string) {
	if h := verifMbHook.Load(); h != nil {
		(*h)(fn, op)
	}
}
