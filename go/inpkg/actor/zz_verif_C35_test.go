//go:build verif

package actor

import (
	"context"
	"errors"
	"fmt"
	"os"
	"sync"
	"syscall"
	"testing"
	"time"

	gerrors "github.com/tochemey/goakt/v4/errors"
	"github.com/tochemey/goakt/v4/internal/address"
)

// C35: drives the REAL deliverAcrossHandoff / deliverBypassingHandoff / sleepWithinHandoff with a
// scripted ActorSystem double (only the hooks the functions consult) and records wall-clock
// timestamps of every resolution attempt, of the delivery and of the return.

type c35Attempt struct {
	O         string `json:"o"`          // live | pinned | notfound | addrnotfound | sendfail | reqtimeout | ctxdeadline | connrefused | nettimeout | inprogress | terminal | dead
	ResolveMs int64  `json:"resolve_ms"` // time spent inside ActorOf
	NoFlight  bool   `json:"no_flight"`  // relocationInFlight() is false while this attempt is classified
}

type c35Scenario struct {
	N          int          `json:"n"`
	MaxWaitMs  int64        `json:"max_wait_ms"`
	InCluster  bool         `json:"in_cluster"`
	Attempts   []c35Attempt `json:"attempts"`
	Tail       c35Attempt   `json:"tail"` // repeated once the list is used up
	CancelMs   int64        `json:"cancel_ms"`
	Async      bool         `json:"async"`
	DeliverErr bool         `json:"deliver_err"`
	ViaSend    bool         `json:"via_send"` // go through PID.SendSync / PID.SendAsync (actor/pid.go)
	// DeliverResult: "" (success) or the error kind the delivery callback returns (connrefused | sendfail |
	// nettimeout | reqtimeout | terminal); FlipDuringDeliver: the target's endpoint gets marked as
	// relocating (a NodeLeft lands) while the delivery callback runs
	DeliverResult     string `json:"deliver_result"`
	FlipDuringDeliver bool   `json:"flip_during_deliver"`
}

type c35Seen struct {
	O       string `json:"o"`
	EntryNs int64  `json:"entry_ns"`
	RetNs   int64  `json:"ret_ns"`
}

type c35Result struct {
	N            int       `json:"n"`
	Attempts     []c35Seen `json:"attempts"`
	Delivered    int       `json:"delivered"`
	DeliverAtNs  int64     `json:"deliver_at_ns"`
	HasDeadline  bool      `json:"has_deadline"`
	DeadlineNs   int64     `json:"deadline_ns"`
	RetNs        int64     `json:"ret_ns"`
	Err          string    `json:"err"` // ok | inprogress | resolution | deliver | other:<text>
	Handoffs     int       `json:"handoffs"`
	Resp         string    `json:"resp"`
}

type verifC35System struct {
	ActorSystem
	mu        sync.Mutex
	sc        c35Scenario
	t0        time.Time
	seen      []c35Seen
	lastErr   error
	noFlight  bool
	handoffs  int
	inCluster bool
	flipped   bool
}

type verifC35NetTimeout struct{}

func (verifC35NetTimeout) Error() string   { return "i/o timeout" }
func (verifC35NetTimeout) Timeout() bool   { return true }
func (verifC35NetTimeout) Temporary() bool { return true }

var verifC35Terminal = errors.New("boom")

const (
	verifC35DeadHost = "10.1.1.9"
	verifC35LiveHost = "10.1.1.2"
)

func (f *verifC35System) InCluster() bool { return f.inCluster }

func (f *verifC35System) ActorOf(context.Context, string) (*PID, error) {
	entry := time.Since(f.t0).Nanoseconds()
	f.mu.Lock()
	i := len(f.seen)
	a := f.sc.Tail
	if i < len(f.sc.Attempts) {
		a = f.sc.Attempts[i]
	}
	f.mu.Unlock()
	if a.ResolveMs > 0 {
		time.Sleep(time.Duration(a.ResolveMs) * time.Millisecond)
	}
	var to *PID
	var err error
	switch a.O {
	case "live":
		to = newRemotePID(address.New("target", "test", verifC35LiveHost, 9002), nil)
	case "pinned":
		to = newRemotePID(address.New("target", "test", verifC35DeadHost, 7000), nil)
	case "notfound":
		err = gerrors.NewErrActorNotFound("target")
	case "addrnotfound":
		err = gerrors.ErrAddressNotFound
	case "sendfail":
		err = gerrors.ErrRemoteSendFailure
	case "reqtimeout":
		err = gerrors.ErrRequestTimeout
	case "ctxdeadline":
		err = context.DeadlineExceeded
	case "connrefused":
		err = syscall.ECONNREFUSED
	case "nettimeout":
		err = verifC35NetTimeout{}
	case "inprogress":
		err = gerrors.ErrRelocationInProgress
	case "dead":
		err = gerrors.ErrDead
	default:
		err = verifC35Terminal
	}
	f.mu.Lock()
	f.lastErr = err
	f.noFlight = a.NoFlight
	f.seen = append(f.seen, c35Seen{O: a.O, EntryNs: entry, RetNs: time.Since(f.t0).Nanoseconds()})
	f.mu.Unlock()
	return to, err
}

func (f *verifC35System) isEndpointRelocating(addr *address.Address) bool {
	if addr == nil {
		return false
	}
	f.mu.Lock()
	flipped := f.flipped
	f.mu.Unlock()
	return addr.Host() == verifC35DeadHost || (flipped && addr.Host() == verifC35LiveHost)
}

func (f *verifC35System) relocationInFlight() bool {
	f.mu.Lock()
	defer f.mu.Unlock()
	return !f.noFlight
}

func (f *verifC35System) recordRelocationHandoff(context.Context) {
	f.mu.Lock()
	f.handoffs++
	f.mu.Unlock()
}

func c35Run(sc c35Scenario) c35Result {
	sys := &verifC35System{sc: sc, inCluster: sc.InCluster}
	pid := &PID{actorSystem: sys}
	res := c35Result{N: sc.N}
	ctx := context.Background()
	var cancel context.CancelFunc
	if sc.CancelMs > 0 {
		ctx, cancel = context.WithCancel(ctx)
		defer cancel()
	}
	deliverErr := errors.New("delivery failed")
	switch sc.DeliverResult {
	case "connrefused":
		deliverErr = fmt.Errorf("dial: %w", syscall.ECONNREFUSED)
	case "sendfail":
		deliverErr = fmt.Errorf("tell: %w", gerrors.ErrRemoteSendFailure)
	case "nettimeout":
		deliverErr = verifC35NetTimeout{}
	case "reqtimeout":
		deliverErr = fmt.Errorf("ask: %w", gerrors.ErrRequestTimeout)
	}
	var dmu sync.Mutex
	deliver := func(dctx context.Context, to *PID) (any, error) {
		dmu.Lock()
		defer dmu.Unlock()
		res.Delivered++
		res.DeliverAtNs = time.Since(sys.t0).Nanoseconds()
		if dl, ok := dctx.Deadline(); ok {
			res.HasDeadline, res.DeadlineNs = true, dl.Sub(sys.t0).Nanoseconds()
		}
		if sc.FlipDuringDeliver {
			sys.mu.Lock()
			sys.flipped = true
			sys.mu.Unlock()
		}
		if sc.DeliverErr || sc.DeliverResult != "" {
			return nil, deliverErr
		}
		return "ok", nil
	}
	sys.t0 = time.Now()
	if cancel != nil {
		timer := time.AfterFunc(time.Duration(sc.CancelMs)*time.Millisecond, cancel)
		defer timer.Stop()
	}
	var resp any
	var err error
	if sc.ViaSend {
		pid.setState(runningState, true)
		if sc.Async {
			err = pid.SendAsync(ctx, "target", "ping")
		} else {
			resp, err = pid.SendSync(ctx, "target", "ping", time.Duration(sc.MaxWaitMs)*time.Millisecond)
		}
	} else if sc.Async {
		resp, err = pid.deliverBypassingHandoff(ctx, "target", deliver)
	} else {
		resp, err = pid.deliverAcrossHandoff(ctx, "target", time.Duration(sc.MaxWaitMs)*time.Millisecond, deliver)
	}
	res.RetNs = time.Since(sys.t0).Nanoseconds()
	sys.mu.Lock()
	res.Attempts = append([]c35Seen(nil), sys.seen...)
	res.Handoffs = sys.handoffs
	last := sys.lastErr
	sys.mu.Unlock()
	if s, ok := resp.(string); ok {
		res.Resp = s
	}
	switch {
	case err == nil:
		res.Err = "ok"
	case errors.Is(err, deliverErr):
		res.Err = "deliver"
	case errors.Is(err, gerrors.ErrRelocationInProgress) && (last == nil || !errors.Is(last, gerrors.ErrRelocationInProgress)):
		res.Err = "inprogress"
	case last != nil && errors.Is(err, last):
		res.Err = "resolution"
	default:
		res.Err = "other:" + err.Error()
	}
	return res
}

func TestVerifC35Handoff(t *testing.T) {
	scs := verifReadJSONL[c35Scenario](t, "c35_in.jsonl")
	w := newVerifWriter(t, "c35_out.jsonl")
	defer w.close()
	results := make([]c35Result, len(scs))
	par := verifEnvInt("VERIF_C35_PAR", 12)
	if os.Getenv("VERIF_C35_SEQ") == "1" {
		par = 1
	}
	sem := make(chan struct{}, par)
	var wg sync.WaitGroup
	for i, sc := range scs {
		wg.Add(1)
		sem <- struct{}{}
		go func() {
			defer wg.Done()
			defer func() { <-sem }()
			results[i] = c35Run(sc)
		}()
	}
	wg.Wait()
	for _, r := range results {
		w.put(r)
	}
}

type c35SleepIn struct {
	N          int   `json:"n"`
	DurationMs int64 `json:"duration_ms"`
	DeadlineMs int64 `json:"deadline_ms"` // relative to the call, may be negative
	CancelMs   int64 `json:"cancel_ms"`   // 0: never
}

type c35SleepOut struct {
	N       int   `json:"n"`
	Ok      bool  `json:"ok"`
	TookNs  int64 `json:"took_ns"`
	RemNs   int64 `json:"rem_ns"` // remaining as measured by the harness right before the call
}

func TestVerifC35Sleep(t *testing.T) {
	ins := verifReadJSONL[c35SleepIn](t, "c35_sleep_in.jsonl")
	w := newVerifWriter(t, "c35_sleep_out.jsonl")
	defer w.close()
	outs := make([]c35SleepOut, len(ins))
	var wg sync.WaitGroup
	for i, in := range ins {
		wg.Add(1)
		go func() {
			defer wg.Done()
			ctx := context.Background()
			if in.CancelMs > 0 {
				var cancel context.CancelFunc
				ctx, cancel = context.WithTimeout(ctx, time.Duration(in.CancelMs)*time.Millisecond)
				defer cancel()
			}
			start := time.Now()
			deadline := start.Add(time.Duration(in.DeadlineMs) * time.Millisecond)
			rem := time.Until(deadline).Nanoseconds()
			ok := sleepWithinHandoff(ctx, time.Duration(in.DurationMs)*time.Millisecond, deadline)
			outs[i] = c35SleepOut{N: in.N, Ok: ok, TookNs: time.Since(start).Nanoseconds(), RemNs: rem}
		}()
	}
	wg.Wait()
	for _, o := range outs {
		w.put(o)
	}
}
