//go:build verif

package actor

// C16, grain variant (actor/grain_pid.go registerRequestState / completeRequest / deregisterRequestState /
// paused): real grains issue RequestActor under real goroutines; only the property's oracle is evaluated.
// A paused grain keeps its user messages in the mailbox, so here nothing is re-enqueued.

import (
	"context"
	"errors"
	"fmt"
	"os"
	"runtime"
	"sync"
	"sync/atomic"
	"testing"
	"time"

	gerrors "github.com/tochemey/goakt/v4/errors"
	"github.com/tochemey/goakt/v4/reentrancy"
	"github.com/tochemey/goakt/v4/supervisor"
	"github.com/tochemey/goakt/v4/test/data/testpb"
)

type c16GrainOut struct {
	Grains, Messages, Requests, Rejected, Replies, Timeouts, Cancels, Continuations, Panics, ReceivePanics, TellTimeouts int64
	Violations                                                                                                           []string
}

type c16GReq struct {
	state     *requestState
	calls     atomic.Int32
	stashMode bool
}

type c16Grain struct {
	name     string
	limit    int
	stashDef bool
	rng      *verifRNG
	viol     *c16Viol
	stats    *c16GrainOut
	pid      atomic.Pointer[grainPID]
	owner    atomic.Uint64
	depth    int
	blockOut int
	outst    int
	mu       sync.Mutex
	reqs     []*c16GReq
	handled  map[int32]int
}

func (g *c16Grain) OnActivate(context.Context, *GrainProps) error   { return nil }
func (g *c16Grain) OnDeactivate(context.Context, *GrainProps) error { return nil }

func (g *c16Grain) enter(what string) {
	id := c16Gid()
	prev := g.owner.Swap(id)
	if prev != 0 && prev != id {
		g.viol.add("%s: %s ran on goroutine %d while goroutine %d was inside the grain's OnReceive/continuation", g.name, what, id, prev)
	}
	g.depth++
}

func (g *c16Grain) leave() {
	g.depth--
	if g.depth == 0 {
		g.owner.Store(0)
	}
}

func (g *c16Grain) OnReceive(gctx *GrainContext) {
	m, ok := gctx.Message().(*testpb.TestCount)
	if !ok {
		gctx.Unhandled()
		return
	}
	g.enter("OnReceive")
	defer g.leave()
	defer gctx.NoErr()
	if g.blockOut > 0 {
		g.viol.add("%s: ordinary message %d handled while %d StashNonReentrant request(s) are outstanding", g.name, m.GetValue(), g.blockOut)
	}
	g.mu.Lock()
	g.handled[m.GetValue()]++
	g.mu.Unlock()
	pid := g.pid.Load()
	n := 1 + g.rng.intn(2)
	for i := 0; i < n; i++ {
		stash := g.stashDef
		opts := []RequestOption{}
		switch g.rng.intn(4) {
		case 0:
			stash = true
			opts = append(opts, WithReentrancyMode(reentrancy.StashNonReentrant))
		case 1:
			stash = false
			opts = append(opts, WithReentrancyMode(reentrancy.AllowAll))
		}
		target := []string{"g-fast", "g-slow", "g-silent"}[g.rng.intn(3)]
		timeout := 30 * time.Second
		if target == "g-silent" || g.rng.intn(3) == 0 {
			timeout = time.Duration(200+g.rng.intn(2500)) * time.Microsecond
		}
		opts = append(opts, WithRequestTimeout(timeout))
		before := g.outst
		call := gctx.RequestActor(target, &testpb.TestCount{Value: m.GetValue()}, opts...)
		st := call.(*requestHandle).state
		st.mu.Lock()
		rejected, rerr := st.completed, st.err
		st.mu.Unlock()
		if rejected {
			// admission failures come back as an already completed handle
			atomic.AddInt64(&g.stats.Rejected, 1)
			if errors.Is(rerr, gerrors.ErrReentrancyInFlightLimit) {
				if g.limit <= 0 || before < g.limit {
					g.viol.add("%s: RequestActor rejected with the in-flight limit %d although at most %d requests can be in flight (counter drift)", g.name, g.limit, before)
				}
			} else {
				g.viol.add("%s: RequestActor failed unexpectedly: %v", g.name, rerr)
			}
			continue
		}
		atomic.AddInt64(&g.stats.Requests, 1)
		r := &c16GReq{state: st, stashMode: stash}
		g.mu.Lock()
		g.reqs = append(g.reqs, r)
		g.mu.Unlock()
		g.outst++
		if stash {
			g.blockOut++
		}
		if pid != nil && g.limit > 0 {
			if l := pid.reentrancy.Load().requestStates.Len(); l > g.limit {
				g.viol.add("%s: %d requests in flight, limit %d", g.name, l, g.limit)
			}
		}
		explode := g.rng.intn(6) == 0
		if explode {
			atomic.AddInt64(&g.stats.Panics, 1)
		}
		call.Then(func(_ any, err error) {
			g.enter("continuation")
			defer g.leave()
			if c := r.calls.Add(1); c > 1 {
				g.viol.add("%s: continuation invoked %d times for one request", g.name, c)
			}
			if p := g.pid.Load(); p != nil && p.schedState.Load() != dispatchProcessing {
				g.viol.add("%s: continuation ran while the grain was not in its processing turn", g.name)
			}
			atomic.AddInt64(&g.stats.Continuations, 1)
			switch {
			case err == nil:
				atomic.AddInt64(&g.stats.Replies, 1)
			case errors.Is(err, gerrors.ErrRequestTimeout):
				atomic.AddInt64(&g.stats.Timeouts, 1)
			case errors.Is(err, gerrors.ErrRequestCanceled):
				atomic.AddInt64(&g.stats.Cancels, 1)
			}
			g.outst--
			if r.stashMode {
				g.blockOut--
			}
			if explode {
				// contained by the turn's recovery; the request's bookkeeping must already be released
				panic("c16: continuation exploded")
			}
		})
		if g.rng.intn(8) == 0 {
			_ = call.Cancel()
		}
	}
	if g.rng.intn(10) == 0 {
		// OnReceive panics AFTER it issued its requests: contained by the turn, the requests stay in flight
		atomic.AddInt64(&g.stats.ReceivePanics, 1)
		panic("c16: OnReceive exploded after issuing requests")
	}
}

func TestVerifC16Grain(t *testing.T) {
	w := newVerifWriter(t, "c16_grain_out.jsonl")
	defer w.close()
	seed := verifSeed()
	nGrains, nMsg, senders := 4, 120, 3
	if os.Getenv("VERIF_TIER") == "thorough" {
		nGrains, nMsg = 6, 800
	}
	out := c16GrainOut{Grains: int64(nGrains)}
	viol := &c16Viol{}
	sys, ctx := c16System(t, "c16-grains")
	tr := newVerifRNG(seed + 11)
	var trMu sync.Mutex
	c16Spawn(t, sys, ctx, "g-fast", func(rc *ReceiveContext) {
		if _, ok := rc.Message().(*testpb.TestCount); ok {
			rc.Response(&testpb.Reply{Content: "ok"})
		}
	})
	c16Spawn(t, sys, ctx, "g-slow", func(rc *ReceiveContext) {
		if _, ok := rc.Message().(*testpb.TestCount); ok {
			trMu.Lock()
			d := tr.intn(1500)
			trMu.Unlock()
			time.Sleep(time.Duration(d) * time.Microsecond)
			rc.Response(&testpb.Reply{Content: "ok"})
		}
	})
	c16Spawn(t, sys, ctx, "g-silent", func(*ReceiveContext) {})
	asys := sys.(*actorSystem)
	grains := make([]*c16Grain, nGrains)
	ids := make([]*GrainIdentity, nGrains)
	for i := range grains {
		g := &c16Grain{name: fmt.Sprintf("grain%d", i), limit: []int{0, 2, 4, 1}[i%4], stashDef: i%2 == 1, rng: newVerifRNG(seed*53 + uint64(i)),
			viol: viol, stats: &out, handled: map[int32]int{}}
		mode := reentrancy.AllowAll
		if g.stashDef {
			mode = reentrancy.StashNonReentrant
		}
		id, err := sys.GrainIdentity(ctx, g.name, func(context.Context) (Grain, error) { return g, nil },
			WithGrainReentrancy(reentrancy.New(reentrancy.WithMode(mode), reentrancy.WithMaxInFlight(g.limit))))
		if err != nil {
			t.Fatalf("GrainIdentity: %v", err)
		}
		if p, ok := asys.grains.Get(id.String()); ok {
			g.pid.Store(p)
		} else {
			t.Fatalf("grain %s not activated", g.name)
		}
		grains[i], ids[i] = g, id
	}
	var wg sync.WaitGroup
	for i := range grains {
		for s := 0; s < senders; s++ {
			wg.Add(1)
			go func(i, s int) {
				defer wg.Done()
				r := newVerifRNG(seed*101 + uint64(i*16+s))
				for n := s; n < nMsg; n += senders {
					if err := sys.TellGrain(ctx, ids[i], &testpb.TestCount{Value: int32(n)}); err != nil {
						if _, isPanic := errors.AsType[*gerrors.PanicError](err); !isPanic { // a panicking OnReceive reports itself to the sender
							// TellGrain waits for the grain's turn with DefaultGrainRequestTimeout: on a heavily loaded
							// machine that wait can expire although nothing is wrong. A timed-out tell is inconclusive
							// (the message may or may not have been handled): it is counted, not reported.
							if errors.Is(err, gerrors.ErrRequestTimeout) || errors.Is(err, context.DeadlineExceeded) {
								atomic.AddInt64(&out.TellTimeouts, 1)
								continue
							}
							viol.add("%s: TellGrain(%d) failed: %v", grains[i].name, n, err)
							return
						}
					}
					atomic.AddInt64(&out.Messages, 1)
					if r.intn(5) == 0 {
						runtime.Gosched()
					}
				}
			}(i, s)
		}
	}
	wg.Wait()
	for i, g := range grains {
		p := g.pid.Load()
		ok := c16WaitFor(t, g.name+" quiescent", func() bool {
			g.mu.Lock()
			defer g.mu.Unlock()
			for _, r := range g.reqs {
				r.state.mu.Lock()
				c := r.state.completed
				r.state.mu.Unlock()
				if !c || r.calls.Load() == 0 {
					return false
				}
			}
			return p.schedState.Load() == dispatchIdle
		})
		re := p.reentrancy.Load()
		if a, b, l := re.inFlightCount.Load(), re.blockingCount.Load(), re.requestStates.Len(); !ok || a != 0 || b != 0 || l != 0 {
			viol.add("%s: at quiescence(reached=%v) inFlightCount=%d blockingCount=%d len(requestStates)=%d", g.name, ok, a, b, l)
		}
		g.mu.Lock()
		for n := 0; n < nMsg; n++ {
			if g.handled[int32(n)] != 1 {
				viol.add("%s: message %d handled %d times", g.name, n, g.handled[int32(n)])
				break
			}
		}
		for k, r := range g.reqs {
			if c := r.calls.Load(); c != 1 {
				viol.add("%s: continuation of request #%d ran %d times", g.name, k, c)
				break
			}
		}
		g.mu.Unlock()
		_ = i
	}
	out.Violations = viol.v
	w.put(out)
}

// TestVerifC16GrainPanic: a StashNonReentrant grain, one blocking request, two ordinary messages held
// behind it, and a reply whose continuation panics on the grain's turn. The panic is contained by the
// turn; the request has completed, so its bookkeeping must be released and the held messages handled.
type c16GrainPanicOut struct {
	Continuations, InFlight, Blocking int64
	TableLen                          int
	Handled                           []int32
	Violations                        []string
}

type c16ScriptGrain struct{ receive func(*GrainContext) }

func (g *c16ScriptGrain) OnActivate(context.Context, *GrainProps) error   { return nil }
func (g *c16ScriptGrain) OnDeactivate(context.Context, *GrainProps) error { return nil }
func (g *c16ScriptGrain) OnReceive(gctx *GrainContext)                    { g.receive(gctx) }

func TestVerifC16GrainPanic(t *testing.T) {
	w := newVerifWriter(t, "c16_grain_panic_out.jsonl")
	defer w.close()
	out := c16GrainPanicOut{}
	sys, ctx := c16System(t, "c16-grain-panic")
	release := make(chan struct{})
	got := make(chan struct{}, 1)
	c16Spawn(t, sys, ctx, "gp-target", func(rc *ReceiveContext) {
		if _, ok := rc.Message().(*testpb.TestCount); ok {
			got <- struct{}{}
			<-release
			rc.Response(&testpb.Reply{Content: "ok"})
		}
	})
	var mu sync.Mutex
	var handled []int32
	var conts atomic.Int64
	grain := &c16ScriptGrain{receive: func(gctx *GrainContext) {
		m, ok := gctx.Message().(*testpb.TestCount)
		if !ok {
			gctx.Unhandled()
			return
		}
		if m.GetValue() == 1 {
			gctx.RequestActor("gp-target", &testpb.TestCount{Value: 1}, WithRequestTimeout(30*time.Second)).Then(func(any, error) {
				conts.Add(1)
				panic("c16: continuation exploded")
			})
		} else {
			mu.Lock()
			handled = append(handled, m.GetValue())
			mu.Unlock()
		}
		gctx.NoErr()
	}}
	id, err := sys.GrainIdentity(ctx, "gp-requester", func(context.Context) (Grain, error) { return grain, nil },
		WithGrainReentrancy(reentrancy.New(reentrancy.WithMode(reentrancy.StashNonReentrant), reentrancy.WithMaxInFlight(1))))
	if err != nil {
		t.Fatalf("GrainIdentity: %v", err)
	}
	pid, ok := sys.(*actorSystem).grains.Get(id.String())
	if !ok {
		t.Fatal("grain not active")
	}
	defer pid.reentrancy.Load().reset() // a grain left paused would stall system.Stop
	if err := sys.TellGrain(ctx, id, &testpb.TestCount{Value: 1}); err != nil {
		t.Fatalf("TellGrain: %v", err)
	}
	<-got
	for i, n := range []int32{2, 3} {
		go func(n int32) {
			tctx, cancel := context.WithTimeout(ctx, 20*time.Second)
			defer cancel()
			_ = sys.TellGrain(tctx, id, &testpb.TestCount{Value: n})
		}(n)
		want := int64(i + 1)
		c16WaitFor(t, "held message enqueued", func() bool { return pid.mailbox.Len() == want })
	}
	mu.Lock()
	if len(handled) != 0 {
		out.Violations = append(out.Violations, fmt.Sprintf("ordinary messages %v handled while the blocking request was outstanding", handled))
	}
	mu.Unlock()
	close(release)
	deadline := time.Now().Add(15 * time.Second)
	for time.Now().Before(deadline) {
		re := pid.reentrancy.Load()
		mu.Lock()
		n := len(handled)
		mu.Unlock()
		if conts.Load() == 1 && re.inFlightCount.Load() == 0 && re.blockingCount.Load() == 0 && re.requestStates.Len() == 0 && n == 2 {
			break
		}
		time.Sleep(time.Millisecond)
	}
	re := pid.reentrancy.Load()
	out.Continuations, out.InFlight, out.Blocking, out.TableLen = conts.Load(), re.inFlightCount.Load(), re.blockingCount.Load(), re.requestStates.Len()
	mu.Lock()
	out.Handled = append([]int32{}, handled...)
	mu.Unlock()
	if out.Continuations != 1 {
		out.Violations = append(out.Violations, fmt.Sprintf("continuation ran %d times", out.Continuations))
	}
	if out.InFlight != 0 || out.Blocking != 0 || out.TableLen != 0 {
		out.Violations = append(out.Violations, fmt.Sprintf("after the request completed (its continuation panicked on the turn) inFlightCount=%d blockingCount=%d len(requestStates)=%d",
			out.InFlight, out.Blocking, out.TableLen))
	}
	if len(out.Handled) != 2 || out.Handled[0] != 2 || out.Handled[1] != 3 {
		out.Violations = append(out.Violations, fmt.Sprintf("held messages [2 3] handled as %v after the blocking request completed", out.Handled))
	}
	w.put(out)
}

// TestVerifC16RestartOnPanic: Receive issues a request (continuation registered), then panics; the
// supervisor restarts the actor, i.e. cancelInFlightRequests runs on a goroutine that is not the
// requester's turn. The request must end up completed, its continuation must never run off the
// requester's turn (and at most once), the bookkeeping must be clean after the restart and the
// restarted actor must handle later messages in order. Both modes.
type c16RestartOut struct {
	Mode               string
	Completed          bool
	Calls, OffTurn     int64
	InFlight, Blocking int64
	TableLen, Restarts int
	Handled            []int32
	Violations         []string
}

func TestVerifC16RestartOnPanic(t *testing.T) {
	w := newVerifWriter(t, "c16_restart_out.jsonl")
	defer w.close()
	sys, ctx := c16System(t, "c16-restart")
	silent := c16Spawn(t, sys, ctx, "rs-silent", func(*ReceiveContext) {})
	for mi, mode := range []reentrancy.Mode{reentrancy.StashNonReentrant, reentrancy.AllowAll} {
		out := c16RestartOut{Mode: fmt.Sprint(mode)}
		var mu sync.Mutex
		var handled []int32
		var state atomic.Pointer[requestState]
		var calls, offTurn atomic.Int64
		var inReceive atomic.Uint64 // goroutine currently inside Receive, 0 when none
		var self atomic.Pointer[PID]
		requester := c16Spawn(t, sys, ctx, fmt.Sprintf("rs-requester-%d", mi), func(rc *ReceiveContext) {
			m, ok := rc.Message().(*testpb.TestCount)
			if !ok {
				return
			}
			inReceive.Store(c16Gid())
			defer inReceive.Store(0)
			if m.GetValue() == 1 {
				call := rc.Request(silent, &testpb.TestCount{Value: 1}, WithRequestTimeout(time.Hour))
				if call != nil {
					state.Store(call.(*requestHandle).state)
					call.Then(func(any, error) {
						calls.Add(1)
						p := self.Load()
						g := inReceive.Load()
						if (g != 0 && g != c16Gid()) || p == nil || p.schedState.Load() != dispatchProcessing {
							offTurn.Add(1)
						}
					})
				}
				panic("c16: Receive exploded after issuing a request")
			}
			mu.Lock()
			handled = append(handled, m.GetValue())
			mu.Unlock()
		}, WithReentrancy(reentrancy.New(reentrancy.WithMode(mode), reentrancy.WithMaxInFlight(1))),
			WithSupervisor(supervisor.NewSupervisor(supervisor.WithAnyErrorDirective(supervisor.RestartDirective))))
		self.Store(requester)
		if err := Tell(ctx, requester, &testpb.TestCount{Value: 1}); err != nil {
			t.Fatalf("tell: %v", err)
		}
		restarted := c16WaitFor(t, "restart after the panic", func() bool { return requester.RestartCount() >= 1 && requester.IsRunning() })
		out.Restarts = requester.RestartCount()
		if restarted {
			for _, n := range []int32{2, 3} {
				if err := Tell(ctx, requester, &testpb.TestCount{Value: n}); err != nil {
					out.Violations = append(out.Violations, fmt.Sprintf("Tell(%d) to the restarted actor failed: %v", n, err))
				}
			}
			deadline := time.Now().Add(10 * time.Second)
			for time.Now().Before(deadline) {
				mu.Lock()
				n := len(handled)
				mu.Unlock()
				if n == 2 {
					break
				}
				time.Sleep(time.Millisecond)
			}
		}
		time.Sleep(5 * time.Millisecond)
		re := requester.reentrancy.Load()
		out.InFlight, out.Blocking, out.TableLen = re.inFlightCount.Load(), re.blockingCount.Load(), re.requestStates.Len()
		out.Calls, out.OffTurn = calls.Load(), offTurn.Load()
		if st := state.Load(); st != nil {
			st.mu.Lock()
			out.Completed = st.completed
			st.mu.Unlock()
			st.stopTimeoutIfSet()
		}
		mu.Lock()
		out.Handled = append([]int32{}, handled...)
		mu.Unlock()
		if !restarted {
			out.Violations = append(out.Violations, "the actor was not restarted after its Receive panicked")
		}
		if state.Load() != nil && !out.Completed {
			out.Violations = append(out.Violations, "the request in flight when the actor was restarted was never completed")
		}
		if out.OffTurn > 0 {
			out.Violations = append(out.Violations, fmt.Sprintf("the continuation ran %d time(s) off the requester's turn (restart cancels in-flight requests from another goroutine)", out.OffTurn))
		}
		if out.Calls > 1 {
			out.Violations = append(out.Violations, fmt.Sprintf("the continuation ran %d times", out.Calls))
		}
		if out.InFlight != 0 || out.Blocking != 0 || out.TableLen != 0 {
			out.Violations = append(out.Violations, fmt.Sprintf("after the restart inFlightCount=%d blockingCount=%d len(requestStates)=%d", out.InFlight, out.Blocking, out.TableLen))
		}
		if restarted && (len(out.Handled) != 2 || out.Handled[0] != 2 || out.Handled[1] != 3) {
			out.Violations = append(out.Violations, fmt.Sprintf("messages [2 3] sent to the restarted actor were handled as %v", out.Handled))
		}
		w.put(out)
	}
}
