//go:build verif

package actor

// C31 — grain activations are ordered and single-threaded.
//
//   TestVerifC31Scripts  the REAL grainPID machinery (ensureGrainProcess/activate, receive, runTurn/dispatchOne,
//                        handlePoisonPill, passivationTry, deactivate) driven by a controlled scheduler: every
//                        logical goroutine (sender, dispatcher worker turn, passivation manager) runs from one user
//                        hook boundary to the next; after every step the flags, turn state, mailbox length, thread
//                        positions and the hook events are written out for comparison with coq/theories/C31/Model.v.
//   TestVerifC31Real     started actor systems with their own dispatcher and passivation manager; deterministic
//                        scenarios synchronised on hook events (no sleeps decide an outcome) + a stress run; the
//                        event logs are judged by the property oracle in checks/C31.py.

import (
	"context"
	"errors"
	"fmt"
	"runtime"
	"strconv"
	"strings"
	"sync"
	"sync/atomic"
	"testing"
	"time"

	"github.com/flowchartsman/retry"

	"github.com/tochemey/goakt/v4/internal/types"
	"github.com/tochemey/goakt/v4/internal/xsync"
	"github.com/tochemey/goakt/v4/log"
)

// ---------------------------------------------------------------- threads identified by goroutine id

func c31GID() uint64 {
	var buf [64]byte
	n := runtime.Stack(buf[:], false)
	f := strings.Fields(string(buf[:n]))
	if len(f) >= 2 {
		id, _ := strconv.ParseUint(f[1], 10, 64)
		return id
	}
	return 0
}

type c31Thread struct {
	*vregThread
	kind string // send | work | pass
	info []int  // what the thread is blocked in: pid index, message id
}

var (
	c31Mu      sync.Mutex
	c31Threads = map[uint64]*c31Thread{}
)

func c31Cur() *c31Thread {
	c31Mu.Lock()
	defer c31Mu.Unlock()
	return c31Threads[c31GID()]
}

func c31Spawn(kind string, fn func(th *c31Thread) string) *c31Thread {
	th := &c31Thread{vregThread: newVregThread(0), kind: kind}
	go func() {
		gid := c31GID()
		c31Mu.Lock()
		c31Threads[gid] = th
		c31Mu.Unlock()
		<-th.resume
		res := fn(th)
		c31Mu.Lock()
		delete(c31Threads, gid)
		c31Mu.Unlock()
		th.report <- vregEvent{Finished: true, Result: res}
	}()
	return th
}

// ---------------------------------------------------------------- instrumented grain + event log

type c31Event struct {
	K  int `json:"k"` // 1 ActBegin 2 ActEnd 3 RecvBegin 4 RecvEnd 5 DeactBegin 6 DeactEnd
	P  int `json:"p"` // pid index (order of first OnActivate)
	M  int `json:"m"` // message id (recv) / ok flag (ActEnd, DeactEnd)
	G  string `json:"g,omitempty"` // grain name (real-system runs)
	T  int64  `json:"t,omitempty"` // ns since start (real-system runs; diagnostics only)
}

type c31Rec struct {
	mu     sync.Mutex
	pids   []*grainPID
	events []c31Event
	start  time.Time
	notify chan struct{} // pulsed on every event (real-system scenarios wait on it)
	// free mode (no controlled thread): behaviour of the hooks
	onRecv  func(p, m int)
	onDeact func(p int) bool
	onAct   func(p int) bool
}

var c31R = &c31Rec{notify: make(chan struct{}, 1024)}

func (r *c31Rec) reset() {
	r.mu.Lock()
	r.pids = nil
	r.events = nil
	r.start = time.Now()
	r.onRecv, r.onDeact, r.onAct = nil, nil, nil
	r.mu.Unlock()
}

func (r *c31Rec) index(pid *grainPID) int {
	r.mu.Lock()
	defer r.mu.Unlock()
	for i, p := range r.pids {
		if p == pid {
			return i
		}
	}
	r.pids = append(r.pids, pid)
	return len(r.pids) - 1
}

func (r *c31Rec) add(k, p, m int, g string) {
	r.mu.Lock()
	r.events = append(r.events, c31Event{K: k, P: p, M: m, G: g, T: int64(time.Since(r.start))})
	r.mu.Unlock()
	select {
	case r.notify <- struct{}{}:
	default:
	}
}

func (r *c31Rec) snapshot() []c31Event {
	r.mu.Lock()
	defer r.mu.Unlock()
	return append([]c31Event(nil), r.events...)
}

// waitFor blocks until pred holds on the event log (or the timeout expires); returns whether it held.
func (r *c31Rec) waitFor(d time.Duration, pred func([]c31Event) bool) bool {
	deadline := time.After(d)
	for {
		if pred(r.snapshot()) {
			return true
		}
		select {
		case <-r.notify:
		case <-time.After(5 * time.Millisecond):
		case <-deadline:
			return pred(r.snapshot())
		}
	}
}

type c31Msg struct{ ID int }

type C31Grain struct{}

func b2i(b bool) int {
	if b {
		return 1
	}
	return 0
}

func (g *C31Grain) OnActivate(ctx context.Context, props *GrainProps) error {
	p := c31R.index(props.pid)
	name := props.Identity().Name()
	c31R.add(1, p, 0, name)
	ok := true
	if th := c31Cur(); th != nil {
		th.info = []int{p}
		ok = th.point("act")
	} else if f := c31R.onAct; f != nil {
		ok = f(p)
	}
	c31R.add(2, p, b2i(ok), name)
	if !ok {
		return retry.Stop(errors.New("verif: injected activation failure"))
	}
	return nil
}

func (g *C31Grain) OnReceive(gctx *GrainContext) {
	p := c31R.index(gctx.pid)
	id := -1
	if m, ok := gctx.Message().(*c31Msg); ok {
		id = m.ID
	}
	name := gctx.Self().Name()
	c31R.add(3, p, id, name)
	if th := c31Cur(); th != nil {
		th.info = []int{p, id}
		th.point("recv")
	} else if f := c31R.onRecv; f != nil {
		f(p, id)
	}
	c31R.add(4, p, id, name)
	gctx.NoErr()
}

func (g *C31Grain) OnDeactivate(ctx context.Context, props *GrainProps) error {
	p := c31R.index(props.pid)
	name := props.Identity().Name()
	c31R.add(5, p, 0, name)
	ok := true
	if th := c31Cur(); th != nil {
		th.info = []int{p}
		ok = th.point("deact")
	} else if f := c31R.onDeact; f != nil {
		ok = f(p)
	}
	c31R.add(6, p, b2i(ok), name)
	if !ok {
		return errors.New("verif: injected deactivation failure")
	}
	return nil
}

// ---------------------------------------------------------------- controlled scripts

type c31Step struct {
	A  string `json:"a"`  // send | work | pass | adv
	M  int    `json:"m"`  // send: message id (>=0) or -1 for a PoisonPill
	P  int    `json:"p"`  // work/pass: pid index
	T  int    `json:"t"`  // adv: thread index
	OK bool   `json:"ok"` // adv: outcome of the hook
}

type c31Script struct {
	ID       string    `json:"id"`
	Mode     string    `json:"mode"`
	Seed     uint64    `json:"seed"`
	MaxSteps int       `json:"max_steps"`
	Flavor   string    `json:"flavor"` // onturn (no direct passivation) | any
	FailPct  int       `json:"fail_pct"`
	Steps    []c31Step `json:"steps"`
}

type c31Trace struct {
	ID     string     `json:"id"`
	Steps  []c31Step  `json:"steps"`
	Obs    [][]int    `json:"obs"`
	Events []c31Event `json:"events"`
	Err    string     `json:"err"`
}

type c31Run struct {
	sys     *actorSystem
	id      *GrainIdentity
	threads []*c31Thread
	nev     int
	nextMsg int
}

func newC31BareSystem() *actorSystem {
	sys := &actorSystem{
		name:       "verif-c31",
		logger:     log.DiscardLogger,
		dispatcher: newDispatcher(2, 1<<20), // never started: turns are run by the harness's worker threads
		grains:     xsync.NewMap[string, *grainPID](),
	}
	sys.registry = types.NewRegistry()
	sys.reflection = newReflection(sys.registry)
	sys.started.Store(true)
	sys.registry.Register(&C31Grain{})
	return sys
}

func (r *c31Run) observe() []int {
	key := r.id.String()
	c31R.mu.Lock()
	pids := append([]*grainPID(nil), c31R.pids...)
	events := append([]c31Event(nil), c31R.events...)
	c31R.mu.Unlock()
	g := 0
	if pid, ok := r.sys.grains.Get(key); ok {
		for i, p := range pids {
			if p == pid {
				g = i + 1
			}
		}
	}
	out := []int{g, len(pids)}
	for _, p := range pids {
		out = append(out, b2i(p.activated.Load()), b2i(p.onPoisonPill.Load()), int(p.schedState.Load()), int(p.mailbox.Len()))
	}
	out = append(out, len(r.threads))
	for _, th := range r.threads {
		switch {
		case th.Last.Finished:
			out = append(out, 0)
		case th.Last.Blocked == "act":
			out = append(out, 1, th.info[0])
		case th.Last.Blocked == "enq":
			out = append(out, 2, th.info[0])
		case th.Last.Blocked == "recv":
			out = append(out, 3, th.info[0], th.info[1])
		case th.Last.Blocked == "deact" && th.kind == "pass":
			out = append(out, 5, th.info[0])
		case th.Last.Blocked == "deact":
			out = append(out, 4, th.info[0])
		default:
			out = append(out, 99)
		}
	}
	out = append(out, len(events))
	for _, e := range events[r.nev:] {
		switch e.K {
		case 1, 5:
			out = append(out, e.K, e.P)
		default:
			out = append(out, e.K, e.P, e.M)
		}
	}
	r.nev = len(events)
	return out
}

func (r *c31Run) pid(i int) *grainPID {
	c31R.mu.Lock()
	defer c31R.mu.Unlock()
	if i < 0 || i >= len(c31R.pids) {
		return nil
	}
	return c31R.pids[i]
}

func (r *c31Run) actInFlight() bool {
	for _, th := range r.threads {
		if !th.Last.Finished && th.Last.Blocked == "act" {
			return true
		}
	}
	return false
}

func (r *c31Run) apply(st c31Step) error {
	sys := r.sys
	switch st.A {
	case "send":
		if pid, ok := sys.grains.Get(r.id.String()); !(ok && pid.isActive()) && r.actInFlight() {
			return errors.New("send: would join the activation flight in progress")
		}
		var message any = &c31Msg{ID: st.M}
		if st.M < 0 {
			message = new(PoisonPill)
		}
		th := c31Spawn("send", func(th *c31Thread) string {
			ctx := context.Background()
			pid, err := sys.ensureGrainProcess(ctx, r.id)
			if err != nil {
				return "err"
			}
			th.info = []int{c31R.index(pid)}
			th.point("enq")
			gctx := getGrainContext()
			gctx.build(ctx, pid, sys, r.id, message, grainTell)
			pid.receive(gctx)
			return "ok"
		})
		r.threads = append(r.threads, th)
		_, err := th.advance(true)
		return err
	case "work":
		pid := r.pid(st.P)
		if pid == nil || pid.schedState.Load() != dispatchScheduled {
			return errors.New("work: pid not scheduled")
		}
		w := sys.dispatcher.workers[0]
		th := c31Spawn("work", func(th *c31Thread) string {
			pid.runTurn(w)
			return "ok"
		})
		r.threads = append(r.threads, th)
		_, err := th.advance(true)
		return err
	case "pass":
		pid := r.pid(st.P)
		if pid == nil {
			return errors.New("pass: no such pid")
		}
		th := c31Spawn("pass", func(th *c31Thread) string {
			pid.passivationTry("verif")
			return "ok"
		})
		r.threads = append(r.threads, th)
		_, err := th.advance(true)
		return err
	case "adv":
		if st.T < 0 || st.T >= len(r.threads) || r.threads[st.T].Last.Finished {
			return errors.New("adv: no such running thread")
		}
		_, err := r.threads[st.T].advance(st.OK)
		return err
	}
	return fmt.Errorf("unknown action %q", st.A)
}

func (r *c31Run) enabled(rng *verifRNG, sc c31Script) []c31Step {
	var out []c31Step
	sys := r.sys
	fast := false
	if pid, ok := sys.grains.Get(r.id.String()); ok && pid.isActive() {
		fast = true
	}
	running := 0
	for i, th := range r.threads {
		if th.Last.Finished {
			continue
		}
		running++
		ok := true
		if (th.Last.Blocked == "act" || th.Last.Blocked == "deact") && rng.intn(100) < sc.FailPct {
			ok = false
		}
		out = append(out, c31Step{A: "adv", T: i, OK: ok}, c31Step{A: "adv", T: i, OK: ok})
	}
	if (fast || !r.actInFlight()) && running < 5 {
		m := r.nextMsg
		if rng.intn(5) == 0 {
			m = -1
		}
		out = append(out, c31Step{A: "send", M: m})
	}
	c31R.mu.Lock()
	pids := append([]*grainPID(nil), c31R.pids...)
	c31R.mu.Unlock()
	for i, p := range pids {
		if p.schedState.Load() == dispatchScheduled {
			out = append(out, c31Step{A: "work", P: i}, c31Step{A: "work", P: i})
		}
		if sc.Flavor != "onturn" && rng.intn(3) == 0 {
			out = append(out, c31Step{A: "pass", P: i})
		}
	}
	return out
}

func c31RunScript(sc c31Script, idx int) c31Trace {
	c31R.reset()
	run := &c31Run{sys: newC31BareSystem(), id: newGrainIdentity(&C31Grain{}, fmt.Sprintf("g%d", idx))}
	tr := c31Trace{ID: sc.ID}
	do := func(st c31Step) bool {
		if err := run.apply(st); err != nil {
			tr.Err = fmt.Sprintf("step %d %+v: %v", len(tr.Steps), st, err)
			return false
		}
		if st.A == "send" && st.M >= 0 {
			run.nextMsg = st.M + 1
		}
		tr.Steps = append(tr.Steps, st)
		tr.Obs = append(tr.Obs, run.observe())
		return true
	}
	if sc.Mode == "random" {
		rng := newVerifRNG(sc.Seed)
		for i := 0; i < sc.MaxSteps; i++ {
			en := run.enabled(rng, sc)
			if len(en) == 0 {
				break
			}
			if !do(en[rng.intn(len(en))]) {
				break
			}
		}
	} else {
		for _, st := range sc.Steps {
			if !do(st) {
				break
			}
		}
	}
	tr.Events = c31R.snapshot()
	for _, th := range run.threads {
		for k := 0; k < 50 && !th.Last.Finished; k++ {
			if _, err := th.advance(true); err != nil {
				break
			}
		}
	}
	return tr
}

func TestVerifC31Scripts(t *testing.T) {
	scripts := verifReadJSONL[c31Script](t, "c31_scripts.jsonl")
	out := newVerifWriter(t, "c31_traces.jsonl")
	defer out.close()
	for i, sc := range scripts {
		if vregStuck.Load() > 2 {
			out.put(c31Trace{ID: sc.ID, Err: "skipped: the driver lost control of too many threads in earlier schedules"})
			continue
		}
		out.put(c31RunScript(sc, i))
	}
}

// ---------------------------------------------------------------- real systems

type c31RealOut struct {
	Scenario string     `json:"scenario"`
	Events   []c31Event `json:"events"`
	Notes    []string   `json:"notes"`
	Err      string     `json:"err"`
}

func c31RealSystem(t *testing.T) *actorSystem {
	s, err := NewActorSystem("verifc31", WithLogger(log.DiscardLogger))
	if err != nil {
		t.Fatalf("NewActorSystem: %v", err)
	}
	if err := s.Start(context.Background()); err != nil {
		t.Fatalf("Start: %v", err)
	}
	return s.(*actorSystem)
}

func c31Identity(t *testing.T, sys *actorSystem, name string, opts ...GrainOption) *GrainIdentity {
	id, err := sys.GrainIdentity(context.Background(), name, func(context.Context) (Grain, error) { return &C31Grain{}, nil }, opts...)
	if err != nil {
		t.Fatalf("GrainIdentity: %v", err)
	}
	return id
}

func c31Has(k, p, m int) func([]c31Event) bool {
	return func(ev []c31Event) bool {
		for _, e := range ev {
			if e.K == k && (p < 0 || e.P == p) && (m < -1 || e.M == m) {
				return true
			}
		}
		return false
	}
}

func TestVerifC31Real(t *testing.T) {
	out := newVerifWriter(t, "c31_real.jsonl")
	defer out.close()
	ctx := context.Background()

	// R1: direct passivation while OnReceive is still running (non-reentrant grain, short idle timeout, long handler)
	func() {
		c31R.reset()
		res := c31RealOut{Scenario: "passivation_during_receive"}
		sys := c31RealSystem(t)
		defer func() { _ = sys.Stop(ctx) }()
		release := make(chan struct{})
		c31R.onRecv = func(p, m int) {
			if m == 1 {
				<-release
			}
		}
		id := c31Identity(t, sys, "r1", WithGrainDeactivateAfter(80*time.Millisecond))
		go func() { _ = sys.TellGrain(ctx, id, &c31Msg{ID: 1}) }()
		if !c31R.waitFor(10*time.Second, c31Has(3, -1, 1)) {
			res.Err = "OnReceive(1) never started"
		}
		// the handler is now inside OnReceive and stays there; wait (bounded) for a deactivation to begin
		seen := c31R.waitFor(3*time.Second, c31Has(5, -1, -2))
		res.Notes = append(res.Notes, fmt.Sprintf("deactivation began while OnReceive(1) was running: %v", seen))
		close(release)
		c31R.waitFor(5*time.Second, c31Has(4, -1, 1))
		time.Sleep(20 * time.Millisecond)
		res.Events = c31R.snapshot()
		out.put(res)
	}()

	// R2: PoisonPill on the turn; a concurrent send is accepted while OnDeactivate runs and is handled AFTER it
	func() {
		c31R.reset()
		res := c31RealOut{Scenario: "send_during_pill_deactivation"}
		sys := c31RealSystem(t)
		defer func() { _ = sys.Stop(ctx) }()
		release := make(chan struct{})
		c31R.onDeact = func(p int) bool { <-release; return true }
		id := c31Identity(t, sys, "r2", WithLongLivedGrain())
		_ = sys.TellGrain(ctx, id, &c31Msg{ID: 1})
		go func() { _ = sys.TellGrain(ctx, id, new(PoisonPill)) }()
		if !c31R.waitFor(10*time.Second, c31Has(5, -1, -2)) {
			res.Err = "OnDeactivate never started"
		}
		done := make(chan error, 1)
		go func() { done <- sys.TellGrain(ctx, id, &c31Msg{ID: 2}) }()
		// wait until the message sits in the mailbox of the deactivating pid (or the sender gave up)
		pid := c31R.pids[0]
		deadline := time.Now().Add(3 * time.Second)
		for pid.mailbox.Len() == 0 && time.Now().Before(deadline) {
			time.Sleep(time.Millisecond)
		}
		res.Notes = append(res.Notes, fmt.Sprintf("message 2 queued on the deactivating pid: %v", pid.mailbox.Len() > 0))
		close(release)
		c31R.waitFor(3*time.Second, c31Has(3, -1, 2))
		select {
		case err := <-done:
			res.Notes = append(res.Notes, fmt.Sprintf("TellGrain(2) returned: %v", err))
		case <-time.After(3 * time.Second):
			res.Notes = append(res.Notes, "TellGrain(2) still pending")
		}
		res.Events = c31R.snapshot()
		out.put(res)
	}()

	// R3: a message sent after the deactivation completed activates a fresh instance that receives it
	func() {
		c31R.reset()
		res := c31RealOut{Scenario: "send_after_deactivation"}
		sys := c31RealSystem(t)
		defer func() { _ = sys.Stop(ctx) }()
		id := c31Identity(t, sys, "r3", WithLongLivedGrain())
		if err := sys.TellGrain(ctx, id, &c31Msg{ID: 1}); err != nil {
			res.Err = "tell 1: " + err.Error()
		}
		if err := sys.TellGrain(ctx, id, new(PoisonPill)); err != nil {
			res.Err = "pill: " + err.Error()
		}
		c31R.waitFor(3*time.Second, c31Has(6, -1, -2))
		time.Sleep(5 * time.Millisecond)
		if err := sys.TellGrain(ctx, id, &c31Msg{ID: 2}); err != nil {
			res.Err = "tell 2: " + err.Error()
		}
		c31R.waitFor(3*time.Second, c31Has(4, -1, 2))
		res.Events = c31R.snapshot()
		out.put(res)
	}()

	// R4: system shutdown poisons every grain: OnDeactivate exactly once each, after its last OnReceive
	func() {
		c31R.reset()
		res := c31RealOut{Scenario: "shutdown"}
		sys := c31RealSystem(t)
		for k := 0; k < 4; k++ {
			id := c31Identity(t, sys, fmt.Sprintf("r4-%d", k), WithLongLivedGrain())
			for m := 0; m < 3; m++ {
				_ = sys.TellGrain(ctx, id, &c31Msg{ID: 10*k + m})
			}
		}
		if err := sys.Stop(ctx); err != nil {
			res.Notes = append(res.Notes, "stop failed: "+err.Error()) // e.g. shutdown timeout on an overloaded machine: the count oracle is skipped
		} else {
			res.Notes = append(res.Notes, "stop ok")
		}
		res.Events = c31R.snapshot()
		out.put(res)
	}()

	// R6 family: sends issued WHILE the system shuts down, at every phase that is observable through the hooks: to a
	// grain that is already deactivated, to one whose OnDeactivate is running, with Tell and with Ask. One grain's
	// OnDeactivate is held so that shutdown stays in its grain-draining phase. After Stop every activation must have got
	// its OnDeactivate (the oracle compares successful OnActivate and OnDeactivate counts per grain).
	for _, variant := range []string{"tell", "ask"} {
		func() {
			c31R.reset()
			res := c31RealOut{Scenario: "send_during_shutdown_" + variant}
			sys := c31RealSystem(t)
			release := make(chan struct{})
			var holdP atomic.Int32
			holdP.Store(-1)
			c31R.onDeact = func(p int) bool {
				if int32(p) == holdP.Load() {
					<-release
				}
				return true
			}
			fast := c31Identity(t, sys, "r6-fast-"+variant, WithLongLivedGrain())
			slow := c31Identity(t, sys, "r6-slow-"+variant, WithLongLivedGrain())
			_ = sys.TellGrain(ctx, fast, &c31Msg{ID: 1})
			_ = sys.TellGrain(ctx, slow, &c31Msg{ID: 2})
			// which process index belongs to the slow grain
			for _, e := range c31R.snapshot() {
				if e.K == 2 && e.G == "r6-slow-"+variant {
					holdP.Store(int32(e.P))
				}
			}
			stopped := make(chan error, 1)
			go func() { stopped <- sys.Stop(ctx) }()
			// shutdown has poisoned both grains: the fast one is through its OnDeactivate, the slow one is inside it
			okFast := c31R.waitFor(10*time.Second, func(ev []c31Event) bool {
				for _, e := range ev {
					if e.K == 6 && e.G == "r6-fast-"+variant {
						return true
					}
				}
				return false
			})
			okSlow := c31R.waitFor(10*time.Second, func(ev []c31Event) bool {
				for _, e := range ev {
					if e.K == 5 && e.G == "r6-slow-"+variant {
						return true
					}
				}
				return false
			})
			res.Notes = append(res.Notes, fmt.Sprintf("fast grain deactivated by shutdown: %v; slow grain inside OnDeactivate: %v", okFast, okSlow))
			time.Sleep(10 * time.Millisecond) // let deactivate() of the fast grain finish (flag cleared, entry deleted)
			send := func(id *GrainIdentity, m int) {
				sctx, cancel := context.WithTimeout(ctx, 2*time.Second)
				defer cancel()
				var err error
				if variant == "tell" {
					err = sys.TellGrain(sctx, id, &c31Msg{ID: m})
				} else {
					_, err = sys.AskGrain(sctx, id, &c31Msg{ID: m}, time.Second)
				}
				res.Notes = append(res.Notes, fmt.Sprintf("%s(%s, %d) during shutdown -> %v", variant, id.Name(), m, err))
			}
			send(fast, 10) // to the already-deactivated grain
			send(slow, 11) // to the grain that is deactivating right now
			send(fast, 12)
			time.Sleep(20 * time.Millisecond)
			close(release)
			select {
			case err := <-stopped:
				if err != nil {
					res.Notes = append(res.Notes, "stop failed: "+err.Error())
				} else {
					res.Notes = append(res.Notes, "stop ok")
				}
			case <-time.After(60 * time.Second):
				res.Notes = append(res.Notes, "stop failed: still running after 60s")
			}
			time.Sleep(20 * time.Millisecond)
			res.Events = c31R.snapshot()
			out.put(res)
		}()
	}

	// R5: stress — concurrent senders, no passivation, pills only after the senders are done
	func() {
		c31R.reset()
		res := c31RealOut{Scenario: "stress"}
		sys := c31RealSystem(t)
		defer func() { _ = sys.Stop(ctx) }()
		rng := newVerifRNG(verifSeed() + 31)
		c31R.onRecv = func(p, m int) {
			if m%3 == 0 {
				runtime.Gosched()
			}
		}
		grains := verifEnvInt("VERIF_C31_GRAINS", 6)
		per := verifEnvInt("VERIF_C31_MSGS", 40)
		var ids []*GrainIdentity
		for k := 0; k < grains; k++ {
			ids = append(ids, newGrainIdentity(&C31Grain{}, fmt.Sprintf("r5-%d", k)))
		}
		if err := sys.RegisterGrainKind(ctx, &C31Grain{}); err != nil {
			res.Err = err.Error()
		}
		var wg sync.WaitGroup
		for s := 0; s < 4; s++ {
			wg.Add(1)
			base := s * 100000
			seed := rng.next()
			go func() {
				defer wg.Done()
				r := newVerifRNG(seed)
				for m := 0; m < per; m++ {
					id := ids[r.intn(len(ids))]
					if err := sys.TellGrain(ctx, id, &c31Msg{ID: base + m}); err != nil {
						c31R.mu.Lock()
						res.Notes = append(res.Notes, "tell error: "+err.Error())
						c31R.mu.Unlock()
					}
				}
			}()
		}
		wg.Wait()
		for _, id := range ids {
			_ = sys.TellGrain(ctx, id, new(PoisonPill))
		}
		res.Events = c31R.snapshot()
		out.put(res)
	}()
}
