//go:build verif

package actor

// C07 harness: runs the real supervisor configuration code and the real supervision machinery
// (recovery -> supervision consumer -> notifyParent -> Panicking -> handlePanicking ->
// handleStop/RestartDirective -> restartChild) on the cases written by checks/C07.py and records
// what an instrumented family of real actors shows after every step.

import (
	"context"
	"errors"
	"fmt"
	"runtime"
	"sort"
	"strings"
	"sync"
	"sync/atomic"
	"testing"
	"time"

	gerrors "github.com/tochemey/goakt/v4/errors"
	"github.com/tochemey/goakt/v4/log"
	"github.com/tochemey/goakt/v4/supervisor"
)

// ---- error types: key 0 = errors.AnyError, 1 = errors.PanicError, 2 = runtime.PanicNilError, 3.. user types

type verifErr3 struct{}
type verifErr4 struct{}
type verifErr5 struct{}
type verifErr6 struct{}

func (verifErr3) Error() string  { return "verif-err-3" }
func (*verifErr4) Error() string { return "verif-err-4" }
func (verifErr5) Error() string  { return "verif-err-5" }
func (*verifErr6) Error() string { return "verif-err-6" }

func c07Err(k int) error {
	switch k {
	case 0:
		return new(gerrors.AnyError)
	case 1:
		return gerrors.NewPanicError(errors.New("verif-err-1"))
	case 2:
		return &runtime.PanicNilError{}
	case 3:
		return verifErr3{}
	case 4:
		return &verifErr4{}
	case 5:
		return verifErr5{}
	default:
		return &verifErr6{}
	}
}

const c07NumEty = 7

// c07EtyOfReason maps the reason text of a PanicSignal back to the error type key.
func c07EtyOfReason(reason string) int {
	if strings.HasPrefix(reason, "panic: ") {
		return 1
	}
	for k := 0; k < c07NumEty; k++ {
		if reason == c07Err(k).Error() {
			return k
		}
	}
	if strings.Contains(reason, "verif-panic") {
		return 1
	}
	return -1
}

type c07Opt struct {
	K       string // strategy | dir | any | retry | backoff
	S, E, D int
	M       int64 // retry: max retries
	T       int64 // retry: timeout ms
	I, X, R int64 // backoff: initial, max, resetAfter (ms)
}

func c07Directive(d int) supervisor.Directive {
	switch d {
	case 0:
		return supervisor.StopDirective
	case 1:
		return supervisor.ResumeDirective
	case 2:
		return supervisor.RestartDirective
	default:
		return supervisor.EscalateDirective
	}
}

func c07DirectiveCode(d supervisor.Directive) int {
	switch d {
	case supervisor.StopDirective:
		return 0
	case supervisor.ResumeDirective:
		return 1
	case supervisor.RestartDirective:
		return 2
	case supervisor.EscalateDirective:
		return 3
	}
	return -1
}

func c07Build(opts []c07Opt) *supervisor.Supervisor {
	var so []supervisor.SupervisorOption
	for _, o := range opts {
		switch o.K {
		case "strategy":
			st := supervisor.OneForOneStrategy
			if o.S == 1 {
				st = supervisor.OneForAllStrategy
			}
			so = append(so, supervisor.WithStrategy(st))
		case "dir":
			so = append(so, supervisor.WithDirective(c07Err(o.E), c07Directive(o.D)))
		case "any":
			so = append(so, supervisor.WithAnyErrorDirective(c07Directive(o.D)))
		case "retry":
			so = append(so, supervisor.WithRetry(uint32(o.M), time.Duration(o.T)*time.Millisecond))
		case "backoff":
			so = append(so, supervisor.WithExponentialBackoff(time.Duration(o.I)*time.Millisecond, time.Duration(o.X)*time.Millisecond, time.Duration(o.R)*time.Millisecond))
		}
	}
	return supervisor.NewSupervisor(so...)
}

// ---------------------------------------------------------------- configuration / directive lookup

type c07SupIn struct {
	Opts []c07Opt
}
type c07SupOut struct {
	Strategy                   int
	Rules                      [][2]int // sorted (error type key, directive)
	MaxRetries                 int64
	TimeoutNs                  int64
	InitialNs, MaxNs, ResetNs  int64
	Direct                     []int // per error type key: Directive(err) code or -1
	Any                        int   // AnyErrorDirective or -1
	Chosen                     []int // per error type key: what notifyParent's lookup yields (-1 none)
	UnknownRuleNames           []string
}

func TestVerifC07Directive(t *testing.T) {
	ins := verifReadJSONL[c07SupIn](t, "c07_sup_in.jsonl")
	w := newVerifWriter(t, "c07_sup_out.jsonl")
	defer w.close()
	names := map[string]int{}
	for k := 0; k < c07NumEty; k++ {
		names[errorType(c07Err(k))] = k
	}
	for _, in := range ins {
		s := c07Build(in.Opts)
		out := c07SupOut{Strategy: int(s.Strategy()), MaxRetries: int64(s.MaxRetries()), TimeoutNs: int64(s.Timeout()),
			InitialNs: int64(s.InitialDelay()), MaxNs: int64(s.MaxDelay()), ResetNs: int64(s.BackoffResetAfter()), Any: -1}
		for _, r := range s.Rules() {
			k, ok := names[r.ErrorType]
			if !ok {
				out.UnknownRuleNames = append(out.UnknownRuleNames, r.ErrorType)
				continue
			}
			out.Rules = append(out.Rules, [2]int{k, c07DirectiveCode(r.Directive)})
		}
		sort.Slice(out.Rules, func(i, j int) bool { return out.Rules[i][0] < out.Rules[j][0] })
		if d, ok := s.AnyErrorDirective(); ok {
			out.Any = c07DirectiveCode(d)
		}
		for k := 0; k < c07NumEty; k++ {
			d, ok := s.Directive(c07Err(k))
			dc := -1
			if ok {
				dc = c07DirectiveCode(d)
			}
			out.Direct = append(out.Direct, dc)
			// the lookup order of notifyParent, through the same public calls
			ch := dc
			if !ok {
				if d2, ok2 := s.Directive(new(gerrors.AnyError)); ok2 {
					ch = c07DirectiveCode(d2)
				}
			}
			out.Chosen = append(out.Chosen, ch)
		}
		w.put(out)
	}
}

// ---------------------------------------------------------------- families of real actors

type c07Fail struct {
	Kind int // 0: panic(string)  1: ctx.Err(err)  2: panic(err)
	Ety  int
}
type c07Ping struct{}

// c07Block parks the child inside its handler so that the messages sent meanwhile are handled
// back to back in the same dispatcher turn once the gate opens
type c07Block struct{ gate chan struct{} }

type c07Child struct {
	pre, post, mem atomic.Int64
}

func (c *c07Child) PreStart(*Context) error { c.pre.Add(1); c.mem.Store(0); return nil }
func (c *c07Child) PostStop(*Context) error { c.post.Add(1); return nil }
func (c *c07Child) Receive(ctx *ReceiveContext) {
	switch m := ctx.Message().(type) {
	case *c07Fail:
		switch m.Kind {
		case 0:
			panic("verif-panic")
		case 1:
			ctx.Err(c07Err(m.Ety))
		default:
			panic(c07Err(m.Ety))
		}
	case *c07Ping:
		c.mem.Add(1)
	case *c07Block:
		<-m.gate
	}
}

type c07Parent struct {
	mu        sync.Mutex
	sigs      [][2]string // (sender name, reason)
	gate      chan struct{}
	pre, post atomic.Int64
	failWith  int // > 0: on a PanicSignal the handler fails itself with an error of this type (escalation chains)
}

func (p *c07Parent) PreStart(*Context) error { p.pre.Add(1); return nil }
func (p *c07Parent) PostStop(*Context) error { p.post.Add(1); return nil }
func (p *c07Parent) Receive(ctx *ReceiveContext) {
	switch m := ctx.Message().(type) {
	case *PanicSignal:
		name := ""
		if s := ctx.Sender(); s != nil {
			name = s.Name()
		}
		p.mu.Lock()
		p.sigs = append(p.sigs, [2]string{name, m.Reason()})
		p.mu.Unlock()
		if p.failWith > 0 {
			ctx.Err(c07Err(p.failWith))
		}
	case *c07Ping:
		if p.gate != nil {
			<-p.gate
		}
	}
}
func (p *c07Parent) signals() [][2]string {
	p.mu.Lock()
	defer p.mu.Unlock()
	return append([][2]string(nil), p.sigs...)
}

type c07Step struct {
	Op      string // fail | ping | reinstate
	Child   int
	Kind    int
	Ety     int
	GapMs   int
	Want    [][]int64 // per child: status, gen, posts  (what the check expects; used only to know when to stop waiting)
	WantEsc int
	HoldMs  int
}
type c07Case struct {
	Id    int
	Top   bool // children are spawned directly under the user guardian (one-for-one only)
	N     int
	Cfg   [][]c07Opt // one option list per child; a single list means shared by all
	Steps []c07Step
}
type c07Obs struct {
	Children [][]int64 // status, gen, mem, posts, restarts, faults
	Esc      [][2]int  // (child index, error type key)
	T0, T1   int64     // ns since harness start: before the step was issued / when the expected state was first seen
	TEnd     int64
	Matched  bool
	SendErr  string
}
type c07Result struct {
	Id     int
	Steps  []c07Obs
	Events [][]int64 // per child: suspended, restarted, stopped, reinstated events seen on the stream
	Lasts  [][]int64 // per step, per child: lastFaultAtNano relative to harness start (0: never)
	Err    string
}

func c07Status(p *PID) int64 {
	if p.IsRunning() {
		return 0
	}
	run := p.isStateSet(runningState)
	if run && p.IsSuspended() && !p.isStateSet(stoppingState) && !p.isStateSet(passivatingState) {
		return 1
	}
	if !run {
		return 2
	}
	return 3 // in transition
}

type c07Family struct {
	parent  *PID
	pact    *c07Parent
	pids    []*PID
	acts    []*c07Child
	names   []string
	base    time.Time
}

func (f *c07Family) observe() ([][]int64, [][2]int) {
	out := make([][]int64, len(f.pids))
	for i, p := range f.pids {
		a := f.acts[i]
		out[i] = []int64{c07Status(p), a.pre.Load(), a.mem.Load(), a.post.Load(), p.restartCount.Load(), p.consecutiveFaults.Load()}
	}
	var esc [][2]int
	if f.pact == nil {
		return out, esc
	}
	for _, s := range f.pact.signals() {
		idx := -1
		for i, n := range f.names {
			if n == s[0] {
				idx = i
			}
		}
		esc = append(esc, [2]int{idx, c07EtyOfReason(s[1])})
	}
	return out, esc
}

func c07Matches(obs [][]int64, esc [][2]int, st *c07Step) bool {
	if st.Want == nil {
		return true
	}
	if len(esc) != st.WantEsc {
		return false
	}
	for i, w := range st.Want {
		if i >= len(obs) {
			return false
		}
		o := obs[i]
		if o[0] != w[0] || o[1] != w[1] || o[3] != w[2] {
			return false
		}
	}
	return true
}

func c07Equal(a, b [][]int64) bool {
	if len(a) != len(b) {
		return false
	}
	for i := range a {
		for j := range a[i] {
			if a[i][j] != b[i][j] {
				return false
			}
		}
	}
	return true
}

func (f *c07Family) lasts() []int64 {
	out := make([]int64, len(f.pids))
	for i, p := range f.pids {
		if l := p.lastFaultAtNano.Load(); l > 0 {
			out[i] = l - f.base.UnixNano()
		}
	}
	return out
}

// settle waits until the family shows the state the check expects (or the deadline passes), then
// until the observation has been stable for hold. tChange is when the returned observation was first seen.
func (f *c07Family) settle(st *c07Step, limit, hold time.Duration) (obs [][]int64, esc [][2]int, matched bool, tChange time.Time) {
	deadline := time.Now().Add(limit)
	obs, esc = f.observe()
	tChange = time.Now()
	note := func() {
		o2, e2 := f.observe()
		if !c07Equal(o2, obs) || len(e2) != len(esc) {
			obs, esc = o2, e2
			tChange = time.Now()
		}
	}
	for {
		note()
		if c07Matches(obs, esc, st) {
			matched = true
			break
		}
		if time.Now().After(deadline) {
			break
		}
		time.Sleep(300 * time.Microsecond)
	}
	// stability window: anything still moving (late restart goroutine, extra suspension) is seen here
	stopAt := time.Now().Add(hold*8 + 200*time.Millisecond)
	for time.Since(tChange) < hold && time.Now().Before(stopAt) {
		time.Sleep(500 * time.Microsecond)
		note()
	}
	matched = c07Matches(obs, esc, st)
	return
}

func c07RunCase(ctx context.Context, sys ActorSystem, cs *c07Case, base time.Time) c07Result {
	res := c07Result{Id: cs.Id}
	f := &c07Family{pact: &c07Parent{}, base: base}
	var err error
	if cs.Top {
		f.pact = nil
		f.parent = sys.(*actorSystem).getUserGuardian()
	} else {
		f.parent, err = sys.Spawn(ctx, fmt.Sprintf("c07f%dp", cs.Id), f.pact, WithLongLived())
		if err != nil {
			res.Err = "spawn parent: " + err.Error()
			return res
		}
	}
	var shared *supervisor.Supervisor
	if len(cs.Cfg) == 1 {
		shared = c07Build(cs.Cfg[0])
	}
	for i := 0; i < cs.N; i++ {
		sup := shared
		if sup == nil {
			sup = c07Build(cs.Cfg[i])
		}
		a := &c07Child{}
		name := fmt.Sprintf("c07f%dc%d", cs.Id, i)
		var p *PID
		if cs.Top {
			p, err = sys.Spawn(ctx, name, a, WithSupervisor(sup), WithLongLived())
		} else {
			p, err = f.parent.SpawnChild(ctx, name, a, WithSupervisor(sup), WithLongLived())
		}
		if err != nil {
			res.Err = "spawn child: " + err.Error()
			return res
		}
		f.pids, f.acts, f.names = append(f.pids, p), append(f.acts, a), append(f.names, name)
	}
	// wait for PostStart of every child
	time.Sleep(2 * time.Millisecond)
	for si := range cs.Steps {
		st := &cs.Steps[si]
		if st.GapMs > 0 {
			time.Sleep(time.Duration(st.GapMs) * time.Millisecond)
		}
		o := c07Obs{T0: time.Since(base).Nanoseconds()}
		hold := time.Duration(st.HoldMs) * time.Millisecond
		if hold <= 0 {
			hold = 15 * time.Millisecond
		}
		switch st.Op {
		case "fail":
			if e := Tell(ctx, f.pids[st.Child], &c07Fail{Kind: st.Kind, Ety: st.Ety}); e != nil {
				o.SendErr = e.Error()
			}
		case "fail2":
			// two failing messages handled back to back: the second failure signal reaches the supervision
			// consumer while the actor is already suspended (or resumed) by the first
			gate := make(chan struct{})
			if e := Tell(ctx, f.pids[st.Child], &c07Block{gate: gate}); e != nil {
				o.SendErr = e.Error()
				close(gate)
			} else {
				_ = Tell(ctx, f.pids[st.Child], &c07Fail{Kind: st.Kind, Ety: st.Ety})
				_ = Tell(ctx, f.pids[st.Child], &c07Fail{Kind: st.Kind, Ety: st.Ety})
				close(gate)
			}
		case "reinstate":
			if e := f.parent.Reinstate(f.pids[st.Child]); e != nil {
				o.SendErr = e.Error()
			}
		case "ping":
			before, _ := f.observe()
			sent := make([]bool, len(f.pids))
			for i, p := range f.pids {
				if Tell(ctx, p, &c07Ping{}) == nil {
					sent[i] = true
				}
			}
			dl := time.Now().Add(2 * time.Second)
			for time.Now().Before(dl) {
				now, _ := f.observe()
				ok := true
				for i := range sent {
					if sent[i] && now[i][2] == before[i][2] && now[i][1] == before[i][1] {
						ok = false
					}
				}
				if ok {
					break
				}
				time.Sleep(500 * time.Microsecond)
			}
			hold = 2 * time.Millisecond
		}
		obs, esc, matched, tm := f.settle(st, 2*time.Second, hold)
		o.Children, o.Esc, o.Matched = obs, esc, matched
		o.T1 = tm.Sub(base).Nanoseconds()
		o.TEnd = time.Since(base).Nanoseconds()
		res.Steps = append(res.Steps, o)
		res.Lasts = append(res.Lasts, f.lasts())
	}
	return res
}

func TestVerifC07Family(t *testing.T) {
	cases := verifReadJSONL[c07Case](t, "c07_fam_in.jsonl")
	w := newVerifWriter(t, "c07_fam_out.jsonl")
	defer w.close()
	ctx := context.Background()
	sys, err := NewActorSystem("verifC07", WithLogger(log.DiscardLogger))
	if err != nil {
		t.Fatal(err)
	}
	if err := sys.Start(ctx); err != nil {
		t.Fatal(err)
	}
	defer func() { _ = sys.Stop(ctx) }()
	time.Sleep(50 * time.Millisecond)
	sub, err := sys.Subscribe()
	if err != nil {
		t.Fatal(err)
	}
	base := time.Now()
	results := make([]c07Result, len(cases))
	var wg sync.WaitGroup
	sem := make(chan struct{}, verifEnvInt("VERIF_C07_PAR", 6))
	for i := range cases {
		wg.Add(1)
		sem <- struct{}{}
		go func(i int) {
			defer wg.Done()
			defer func() { <-sem }()
			results[i] = c07RunCase(ctx, sys, &cases[i], base)
		}(i)
	}
	wg.Wait()
	time.Sleep(150 * time.Millisecond)
	// tally the supervision events published for every child
	ev := map[string][]int64{}
	bump := func(name string, k int) {
		if ev[name] == nil {
			ev[name] = make([]int64, 4)
		}
		ev[name][k]++
	}
	for m := range sub.Iterator() {
		switch e := m.Payload().(type) {
		case *ActorSuspended:
			bump(e.ActorPath().Name(), 0)
		case *ActorRestarted:
			bump(e.ActorPath().Name(), 1)
		case *ActorStopped:
			bump(e.ActorPath().Name(), 2)
		case *ActorReinstated:
			bump(e.ActorPath().Name(), 3)
		}
	}
	for i := range results {
		for c := 0; c < cases[i].N; c++ {
			e := ev[fmt.Sprintf("c07f%dc%d", cases[i].Id, c)]
			if e == nil {
				e = make([]int64, 4)
			}
			results[i].Events = append(results[i].Events, e)
		}
		w.put(results[i])
	}
}

// ---------------------------------------------------------------- overlapping failures (witness replay)

type c07OverlapOut struct {
	Before   [][]int64
	After    [][]int64
	Budget   int64
	WindowNs int64
}

// TestVerifC07Overlap replays the witness of C07_overlapping_failures_refuted on real actors: two
// one-for-all siblings (maxRetries 1, one hour window) fail while their parent is busy, so both
// Panicking messages are queued before the first is handled.
func TestVerifC07Overlap(t *testing.T) {
	w := newVerifWriter(t, "c07_overlap_out.jsonl")
	defer w.close()
	ctx := context.Background()
	sys, err := NewActorSystem("verifC07o", WithLogger(log.DiscardLogger))
	if err != nil {
		t.Fatal(err)
	}
	if err := sys.Start(ctx); err != nil {
		t.Fatal(err)
	}
	defer func() { _ = sys.Stop(ctx) }()
	time.Sleep(50 * time.Millisecond)
	for round := 0; round < 3; round++ {
		f := &c07Family{pact: &c07Parent{gate: make(chan struct{})}, base: time.Now()}
		f.parent, err = sys.Spawn(ctx, fmt.Sprintf("c07op%d", round), f.pact, WithLongLived())
		if err != nil {
			t.Fatal(err)
		}
		sup := supervisor.NewSupervisor(supervisor.WithStrategy(supervisor.OneForAllStrategy),
			supervisor.WithAnyErrorDirective(supervisor.RestartDirective), supervisor.WithRetry(1, time.Hour))
		for i := 0; i < 2; i++ {
			a := &c07Child{}
			name := fmt.Sprintf("c07o%dc%d", round, i)
			p, err := f.parent.SpawnChild(ctx, name, a, WithSupervisor(sup), WithLongLived())
			if err != nil {
				t.Fatal(err)
			}
			f.pids, f.acts, f.names = append(f.pids, p), append(f.acts, a), append(f.names, name)
		}
		time.Sleep(5 * time.Millisecond)
		_ = Tell(ctx, f.parent, &c07Ping{}) // the parent's handler now blocks on the gate
		time.Sleep(20 * time.Millisecond)
		_ = Tell(ctx, f.pids[0], &c07Fail{Kind: 0})
		_ = Tell(ctx, f.pids[1], &c07Fail{Kind: 0})
		// both children suspended, both Panicking messages queued at the parent
		dl := time.Now().Add(2 * time.Second)
		for time.Now().Before(dl) {
			o, _ := f.observe()
			if o[0][0] == 1 && o[1][0] == 1 {
				break
			}
			time.Sleep(time.Millisecond)
		}
		before, _ := f.observe()
		close(f.pact.gate)
		st := &c07Step{}
		time.Sleep(30 * time.Millisecond)
		after, _, _, _ := f.settle(st, time.Second, 60*time.Millisecond)
		w.put(c07OverlapOut{Before: before, After: after, Budget: int64(sup.MaxRetries()), WindowNs: int64(sup.Timeout())})
	}
}

// ---------------------------------------------------------------- escalation chains: G -> P -> children

type c07ChainStep struct {
	Op       string // fail | ping
	Child    int
	Kind     int
	Ety      int
	Want     [][]int64 // children: status, gen, posts
	WantP    []int64   // P: status, gen, posts
	WantEsc  int       // PanicSignals seen by P
	WantEscG int       // PanicSignals seen by G
	HoldMs   int
}
type c07ChainCase struct {
	Id    int
	N     int
	CfgP  []c07Opt // P's supervisor (applied by G)
	Cfg   []c07Opt // the children's supervisor (applied by P)
	EP    int      // the error type P fails with when it receives a PanicSignal
	Steps []c07ChainStep
}
type c07ChainObs struct {
	Children [][]int64
	P        []int64 // status, gen, posts, restarts, faults
	Esc      [][2]int
	EscG     [][2]int
	Matched  bool
	SendErr  string
}
type c07ChainResult struct {
	Id    int
	Steps []c07ChainObs
	Err   string
}

func TestVerifC07Chain(t *testing.T) {
	cases := verifReadJSONL[c07ChainCase](t, "c07_chain_in.jsonl")
	w := newVerifWriter(t, "c07_chain_out.jsonl")
	defer w.close()
	ctx := context.Background()
	sys, err := NewActorSystem("verifC07c", WithLogger(log.DiscardLogger))
	if err != nil {
		t.Fatal(err)
	}
	if err := sys.Start(ctx); err != nil {
		t.Fatal(err)
	}
	defer func() { _ = sys.Stop(ctx) }()
	time.Sleep(50 * time.Millisecond)
	results := make([]c07ChainResult, len(cases))
	var wg sync.WaitGroup
	sem := make(chan struct{}, verifEnvInt("VERIF_C07_PAR", 6))
	for ci := range cases {
		wg.Add(1)
		sem <- struct{}{}
		go func(ci int) {
			defer wg.Done()
			defer func() { <-sem }()
			cs := &cases[ci]
			res := c07ChainResult{Id: cs.Id}
			gact := &c07Parent{}
			g, err := sys.Spawn(ctx, fmt.Sprintf("c07k%dg", cs.Id), gact, WithLongLived())
			if err != nil {
				res.Err = err.Error()
				results[ci] = res
				return
			}
			f := &c07Family{pact: &c07Parent{failWith: cs.EP}, base: time.Now()}
			pname := fmt.Sprintf("c07k%dp", cs.Id)
			f.parent, err = g.SpawnChild(ctx, pname, f.pact, WithSupervisor(c07Build(cs.CfgP)), WithLongLived())
			if err != nil {
				res.Err = err.Error()
				results[ci] = res
				return
			}
			sup := c07Build(cs.Cfg)
			for i := 0; i < cs.N; i++ {
				a := &c07Child{}
				name := fmt.Sprintf("c07k%dc%d", cs.Id, i)
				p, err := f.parent.SpawnChild(ctx, name, a, WithSupervisor(sup), WithLongLived())
				if err != nil {
					res.Err = err.Error()
					results[ci] = res
					return
				}
				f.pids, f.acts, f.names = append(f.pids, p), append(f.acts, a), append(f.names, name)
			}
			time.Sleep(2 * time.Millisecond)
			observe := func() c07ChainObs {
				o := c07ChainObs{}
				o.Children, o.Esc = f.observe()
				o.P = []int64{c07Status(f.parent), f.pact.pre.Load(), f.pact.post.Load(), f.parent.restartCount.Load(), f.parent.consecutiveFaults.Load()}
				for _, s := range gact.signals() {
					idx := -1
					if s[0] == pname {
						idx = 0
					}
					o.EscG = append(o.EscG, [2]int{idx, c07EtyOfReason(s[1])})
				}
				return o
			}
			same := func(a, b c07ChainObs) bool {
				if !c07Equal(a.Children, b.Children) || len(a.Esc) != len(b.Esc) || len(a.EscG) != len(b.EscG) {
					return false
				}
				for i := range a.P {
					if a.P[i] != b.P[i] {
						return false
					}
				}
				return true
			}
			matches := func(o c07ChainObs, st *c07ChainStep) bool {
				if len(o.Esc) != st.WantEsc || len(o.EscG) != st.WantEscG {
					return false
				}
				if len(st.WantP) == 3 && (o.P[0] != st.WantP[0] || o.P[1] != st.WantP[1] || o.P[2] != st.WantP[2]) {
					return false
				}
				for i, w := range st.Want {
					c := o.Children[i]
					if c[0] != w[0] || c[1] != w[1] || c[3] != w[2] {
						return false
					}
				}
				return true
			}
			for si := range cs.Steps {
				st := &cs.Steps[si]
				sendErr := ""
				switch st.Op {
				case "fail":
					if e := Tell(ctx, f.pids[st.Child], &c07Fail{Kind: st.Kind, Ety: st.Ety}); e != nil {
						sendErr = e.Error()
					}
				case "ping":
					before, _ := f.observe()
					sent := make([]bool, len(f.pids))
					for i, p := range f.pids {
						if Tell(ctx, p, &c07Ping{}) == nil {
							sent[i] = true
						}
					}
					dl := time.Now().Add(2 * time.Second)
					for time.Now().Before(dl) {
						now, _ := f.observe()
						ok := true
						for i := range sent {
							if sent[i] && now[i][2] == before[i][2] && now[i][1] == before[i][1] {
								ok = false
							}
						}
						if ok {
							break
						}
						time.Sleep(500 * time.Microsecond)
					}
				}
				hold := time.Duration(st.HoldMs) * time.Millisecond
				if hold <= 0 {
					hold = 20 * time.Millisecond
				}
				deadline := time.Now().Add(2 * time.Second)
				cur := observe()
				tChange := time.Now()
				for {
					if o2 := observe(); !same(o2, cur) {
						cur, tChange = o2, time.Now()
					}
					if matches(cur, st) || time.Now().After(deadline) {
						break
					}
					time.Sleep(300 * time.Microsecond)
				}
				stopAt := time.Now().Add(hold*8 + 200*time.Millisecond)
				for time.Since(tChange) < hold && time.Now().Before(stopAt) {
					time.Sleep(500 * time.Microsecond)
					if o2 := observe(); !same(o2, cur) {
						cur, tChange = o2, time.Now()
					}
				}
				cur.Matched = matches(cur, st)
				cur.SendErr = sendErr
				res.Steps = append(res.Steps, cur)
			}
			results[ci] = res
		}(ci)
	}
	wg.Wait()
	for i := range results {
		w.put(results[i])
	}
}
