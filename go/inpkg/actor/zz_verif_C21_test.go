//go:build verif

package actor

import (
	"context"
	"fmt"
	"reflect"
	"sort"
	"strconv"
	"sync"
	"testing"
	"time"
	"unsafe"

	"github.com/tochemey/goakt/v4/hash"
	"github.com/tochemey/goakt/v4/log"
)

// ---------------------------------------------------------------------------------------------
// consistent-hash ring: the real consistentHashRing with the real xxh3 hasher (and a deliberately
// colliding hasher) on the member sets / keys written by checks/C21.py
// ---------------------------------------------------------------------------------------------

type c21RingCase struct {
	Members []string
	Shuffle []string // same membership, different order
	Remove  string   // member removed in phase 3 ("" = none)
	Add     string   // member added in phase 4 ("" = none)
	VN      int
	Hasher  string // "xxh3" | "mod<k>": xxh3 reduced modulo k (collisions)
	Keys    []string
	Big     bool // large ring: the vnode hash table and r.keys are not written out (only their size / duplicates)
}

type c21RingPhase struct {
	Members []string
	VHash   [][]string // VHash[m][i] = ring.hashVNode(Members[m], i)
	Keys    []string   // r.keys after set
	Owner   []string   // lookup(Keys[j])
	Owner2  []string   // lookup again
	NKeys   int        // len(r.keys)
	DupKeys int        // number of duplicate entries in r.keys (vnode collisions)
}

type c21RingOut struct {
	KeyHash []string // hasher.HashCode(key)
	Phases  []c21RingPhase
	VN      int // the ring's effective number of virtual nodes
}

type c21ModHasher struct{ k uint64 }

func (h c21ModHasher) HashCode(b []byte) uint64 { return hash.DefaultHasher().HashCode(b) % h.k }

func c21U64s(xs []uint64) []string {
	out := make([]string, len(xs))
	for i, x := range xs {
		out[i] = strconv.FormatUint(x, 10)
	}
	return out
}

func TestVerifC21Ring(t *testing.T) {
	cases := verifReadJSONL[c21RingCase](t, "c21_ring_in.jsonl")
	w := newVerifWriter(t, "c21_ring_out.jsonl")
	defer w.close()
	for _, c := range cases {
		var hasher hash.Hasher = hash.DefaultHasher()
		if len(c.Hasher) > 3 && c.Hasher[:3] == "mod" {
			k, _ := strconv.ParseUint(c.Hasher[3:], 10, 64)
			hasher = c21ModHasher{k}
		}
		ring := newConsistentHashRing(hasher, c.VN)
		out := c21RingOut{VN: ring.virtualNodes}
		for _, k := range c.Keys {
			out.KeyHash = append(out.KeyHash, strconv.FormatUint(hasher.HashCode([]byte(k)), 10))
		}
		phase := func(members []string) {
			ring.set(append([]string(nil), members...))
			p := c21RingPhase{Members: members, NKeys: len(ring.keys)}
			for i := 1; i < len(ring.keys); i++ {
				if ring.keys[i] == ring.keys[i-1] {
					p.DupKeys++
				}
			}
			if !c.Big {
				p.Keys = c21U64s(ring.keys)
				for _, m := range members {
					row := make([]uint64, 0, ring.virtualNodes)
					for i := 0; i < ring.virtualNodes; i++ {
						row = append(row, ring.hashVNode(m, i))
					}
					p.VHash = append(p.VHash, c21U64s(row))
				}
			}
			for _, k := range c.Keys {
				p.Owner = append(p.Owner, ring.lookup(k))
			}
			for _, k := range c.Keys {
				p.Owner2 = append(p.Owner2, ring.lookup(k))
			}
			out.Phases = append(out.Phases, p)
		}
		phase(c.Members)
		phase(c.Shuffle)
		cur := c.Shuffle
		if c.Remove != "" {
			var rest []string
			for _, m := range cur {
				if m != c.Remove {
					rest = append(rest, m)
				}
			}
			cur = rest
			phase(cur)
		}
		if c.Add != "" {
			cur = append(append([]string(nil), cur...), c.Add)
			phase(cur)
		}
		w.put(out)
	}
}

// ---------------------------------------------------------------------------------------------
// routeByStrategy on a real router struct with real routee actors (deterministic routees slice)
// and Broadcast through real spawned routers
// ---------------------------------------------------------------------------------------------

type verifC21Msg struct {
	ID  int
	Key string
}

type c21Recorder struct {
	mu   sync.Mutex
	got  map[int][]string // message id -> names of the routees that received it
	n    int
	tick chan struct{}
}

var c21Rec = &c21Recorder{got: map[int][]string{}}

func (r *c21Recorder) reset() {
	r.mu.Lock()
	r.got = map[int][]string{}
	r.n = 0
	r.mu.Unlock()
}
func (r *c21Recorder) add(id int, who string) {
	r.mu.Lock()
	r.got[id] = append(r.got[id], who)
	r.n++
	r.mu.Unlock()
}
func (r *c21Recorder) count() int {
	r.mu.Lock()
	defer r.mu.Unlock()
	return r.n
}
func (r *c21Recorder) snapshot() map[int][]string {
	r.mu.Lock()
	defer r.mu.Unlock()
	out := make(map[int][]string, len(r.got))
	for k, v := range r.got {
		out[k] = append([]string(nil), v...)
	}
	return out
}

// waitFor waits until `want` deliveries were recorded (or the deadline), then a short grace period
// so that a duplicate delivery still shows up.
func (r *c21Recorder) waitFor(want int, max time.Duration) {
	deadline := time.Now().Add(max)
	for r.count() < want && time.Now().Before(deadline) {
		time.Sleep(200 * time.Microsecond)
	}
	time.Sleep(3 * time.Millisecond)
}

type verifC21Routee struct{ name string }

func (x *verifC21Routee) PreStart(ctx *Context) error { x.name = ctx.ActorName(); return nil }
func (x *verifC21Routee) PostStop(*Context) error     { return nil }
func (x *verifC21Routee) Receive(ctx *ReceiveContext) {
	switch m := ctx.Message().(type) {
	case *verifC21Msg:
		c21Rec.add(m.ID, x.name)
	case *PostStart:
	default:
		ctx.Unhandled()
	}
}

type verifC21Idle struct{}

func (x *verifC21Idle) PreStart(*Context) error { return nil }
func (x *verifC21Idle) PostStop(*Context) error { return nil }
func (x *verifC21Idle) Receive(*ReceiveContext) {}

// cursor access by reflection so that a change of the field's integer type still builds
type c21Cursor struct {
	v    reflect.Value
	bits int
}

func c21CursorOf(x *router) *c21Cursor {
	f := reflect.ValueOf(x).Elem().FieldByName("roundRobinNext")
	if !f.IsValid() {
		return nil
	}
	switch f.Kind() {
	case reflect.Uint32, reflect.Uint64, reflect.Uint, reflect.Int32, reflect.Int64, reflect.Int:
	default:
		return nil
	}
	return &c21Cursor{v: reflect.NewAt(f.Type(), unsafe.Pointer(f.UnsafeAddr())).Elem(), bits: f.Type().Bits()}
}
func (c *c21Cursor) set(abs uint64, fromMax bool) {
	if c.v.CanUint() {
		if fromMax {
			abs = (uint64(1)<<uint(c.bits-1))*2 - 1 - abs
		}
		c.v.SetUint(abs)
		return
	}
	if fromMax {
		abs = uint64(1)<<uint(c.bits-1) - 1 - abs
	}
	c.v.SetInt(int64(abs))
}
func (c *c21Cursor) get() uint64 {
	if c.v.CanUint() {
		return c.v.Uint()
	}
	return uint64(c.v.Int())
}

type c21Op struct {
	Op      string // route | preset
	Routees []int  // route: indices of the spawned routees forming the slice handed to routeByStrategy
	V       uint64
	FromMax bool
}

type c21Case struct {
	Kind     string // direct | router
	Strategy string // rr | fanout | random | hash
	N        int    // number of routees
	Ops      []c21Op
	// router cases
	Preset  *c21Op
	Keys    []string // hash: message keys (one message per entry); others: ignored
	Count   int      // number of broadcasts (rr / fanout / random)
	Shrink  int      // hash: after the first pass remove this many routees (AdjustRouterPoolSize(-Shrink)) and send the keys again
	Directive string // "" | restart | resume | stop: the router's routee supervision directive
	Fail    int      // after the first pass this many routees fail, each with the interleaving: the routee suspends itself, the
	                 // router handles a Broadcast, only then the failure signal reaches the router; then send again
	Kill    int      // after the first pass stop this many routees from outside the router (routee.Shutdown), then send again
	VN      int
}

type c21Step struct {
	Op     string
	Cursor uint64
	Panic  string  `json:",omitempty"`
	To     []int   // route: indices of the routees that received this message (sorted)
	MsgID  int
}

type c21Out struct {
	Kind, Strategy string
	Bits           int
	Steps          []c21Step           `json:",omitempty"`
	Routees        []string            `json:",omitempty"` // router cases: routee names
	Pass1          map[string][]string `json:",omitempty"` // router cases: message id -> receivers
	Pass2          map[string][]string `json:",omitempty"`
	Alive2         []string            `json:",omitempty"` // routees left after shrinking / stopping
	Killed         []string            `json:",omitempty"`
	Failed         []string            `json:",omitempty"` // routees that failed (Fail scenario)
	Window         map[string][]string `json:",omitempty"` // Fail: receivers of the Broadcast handled inside each failure window
	Handled        bool                // Fail: every failure was handled by the router within the deadline
	Sent1, Sent2   int
	Err            string `json:",omitempty"`
}

func c21Strategy(s string) RoutingStrategy {
	switch s {
	case "rr":
		return RoundRobinRouting
	case "random":
		return RandomRouting
	case "hash":
		return ConsistentHashRouting
	}
	return FanOutRouting
}

func TestVerifC21Route(t *testing.T) {
	cases := verifReadJSONL[c21Case](t, "c21_route_in.jsonl")
	w := newVerifWriter(t, "c21_route_out.jsonl")
	defer w.close()
	ctx := context.Background()
	sys, err := NewActorSystem("verifc21", WithLogger(log.DiscardLogger))
	if err != nil {
		t.Fatal(err)
	}
	if err := sys.Start(ctx); err != nil {
		t.Fatal(err)
	}
	defer func() { _ = sys.Stop(ctx) }()
	time.Sleep(100 * time.Millisecond)

	self, err := sys.Spawn(ctx, "c21-self", &verifC21Idle{})
	if err != nil {
		t.Fatal(err)
	}
	const maxRoutees = 32
	direct := make([]*PID, maxRoutees)
	nameIdx := map[string]int{}
	for i := range direct {
		name := fmt.Sprintf("c21-direct-%d", i)
		direct[i], err = sys.Spawn(ctx, name, &verifC21Routee{})
		if err != nil {
			t.Fatal(err)
		}
		nameIdx[name] = i
	}
	time.Sleep(50 * time.Millisecond)
	msgID := 0

	for ci, c := range cases {
		out := c21Out{Kind: c.Kind, Strategy: c.Strategy}
		switch c.Kind {
		case "direct":
			c21Rec.reset()
			x := newRouter(c.N, &verifC21Routee{}, log.DiscardLogger, WithRoutingStrategy(c21Strategy(c.Strategy)))
			x.name = fmt.Sprintf("c21-direct-router-%d", ci)
			cur := c21CursorOf(x)
			if cur != nil {
				out.Bits = cur.bits
			}
			expect := 0
			for _, op := range c.Ops {
				st := c21Step{Op: op.Op, MsgID: -1}
				switch op.Op {
				case "preset":
					if cur != nil {
						cur.set(op.V, op.FromMax)
					}
				case "route":
					msgID++
					st.MsgID = msgID
					slice := make([]*PID, 0, len(op.Routees))
					for _, i := range op.Routees {
						slice = append(slice, direct[i])
					}
					msg := &verifC21Msg{ID: msgID}
					rctx := newReceiveContext(ctx, self, self, NewBroadcast(msg))
					func() {
						defer func() {
							if r := recover(); r != nil {
								st.Panic = fmt.Sprint(r)
							}
						}()
						x.routeByStrategy(rctx, msg, slice)
					}()
					if st.Panic == "" {
						if c.Strategy == "fanout" {
							expect += len(slice)
						} else {
							expect++
						}
					}
				}
				if cur != nil {
					st.Cursor = cur.get()
				}
				out.Steps = append(out.Steps, st)
			}
			c21Rec.waitFor(expect, 20*time.Second)
			got := c21Rec.snapshot()
			for i := range out.Steps {
				if out.Steps[i].MsgID < 0 {
					continue
				}
				to := []int{}
				for _, name := range got[out.Steps[i].MsgID] {
					to = append(to, nameIdx[name])
				}
				sort.Ints(to)
				out.Steps[i].To = to
			}
		case "router":
			c21Rec.reset()
			rname := fmt.Sprintf("c21router%d", ci)
			opts := []RouterOption{WithRoutingStrategy(c21Strategy(c.Strategy))}
			if c.Strategy == "hash" {
				opts = []RouterOption{WithConsistentHashRouter(func(m any) string {
					if v, ok := m.(*verifC21Msg); ok {
						return v.Key
					}
					return ""
				})}
				if c.VN > 0 {
					opts = append(opts, WithConsistentHashVirtualNodes(c.VN))
				}
			}
			switch c.Directive {
			case "restart":
				opts = append(opts, WithRestartRouteeOnFailure(2, 50*time.Millisecond))
			case "resume":
				opts = append(opts, WithResumeRouteeOnFailure())
			case "stop":
				opts = append(opts, WithStopRouteeOnFailure())
			}
			rpid, err := sys.SpawnRouter(ctx, rname, c.N, &verifC21Routee{}, opts...)
			if err != nil {
				out.Err = err.Error()
				w.put(out)
				continue
			}
			// wait until the routees exist
			var names []string
			for tries := 0; tries < 2000; tries++ {
				if resp, err := Ask(ctx, rpid, &GetRoutees{}, time.Second); err == nil {
					if r, ok := resp.(*Routees); ok && len(r.Names()) == c.N {
						names = r.Names()
						break
					}
				}
				time.Sleep(time.Millisecond)
			}
			sort.Strings(names)
			out.Routees = names
			if len(names) != c.N {
				out.Err = "routees did not start"
				w.put(out)
				continue
			}
			if c.Preset != nil {
				if xr, ok := rpid.Actor().(*router); ok {
					if cur := c21CursorOf(xr); cur != nil {
						out.Bits = cur.bits
						cur.set(c.Preset.V, c.Preset.FromMax) // the router is idle: no message in flight
					}
				}
			}
			send := func(keys []string, count int) (int, map[string][]string) {
				c21Rec.reset()
				first := msgID + 1
				n := count
				if c.Strategy == "hash" {
					n = len(keys)
				}
				for i := 0; i < n; i++ {
					msgID++
					m := &verifC21Msg{ID: msgID}
					if c.Strategy == "hash" {
						m.Key = keys[i]
					}
					if err := Tell(ctx, rpid, NewBroadcast(m)); err != nil {
						out.Err = err.Error()
					}
				}
				want := n
				if c.Strategy == "fanout" {
					want = n * c.N
				}
				c21Rec.waitFor(want, 20*time.Second)
				res := map[string][]string{}
				got := c21Rec.snapshot()
				for i := 0; i < n; i++ {
					rs := got[first+i]
					sort.Strings(rs)
					if rs == nil {
						rs = []string{}
					}
					res[strconv.Itoa(i)] = rs
				}
				return n, res
			}
			out.Sent1, out.Pass1 = send(c.Keys, c.Count)
			if c.Strategy == "hash" && c.Shrink > 0 {
				_ = Tell(ctx, rpid, NewAdjustRouterPoolSize(int32(-c.Shrink)))
				for tries := 0; tries < 2000; tries++ {
					if resp, err := Ask(ctx, rpid, &GetRoutees{}, time.Second); err == nil {
						if r, ok := resp.(*Routees); ok && len(r.Names()) == c.N-c.Shrink {
							out.Alive2 = r.Names()
							break
						}
					}
					time.Sleep(time.Millisecond)
				}
				sort.Strings(out.Alive2)
				out.Sent2, out.Pass2 = send(c.Keys, c.Count)
			}
			if c.Fail > 0 {
				xr, _ := rpid.Actor().(*router)
				byName := map[string]*PID{}
				if xr != nil {
					for _, p := range xr.routeesMap { // the router is idle
						byName[p.Name()] = p
					}
				}
				out.Window = map[string][]string{}
				out.Handled = true
				suspended := 0
				for vi := 0; vi < c.Fail && vi < len(names); vi++ {
					victim := byName[names[vi]]
					if victim == nil {
						continue
					}
					out.Failed = append(out.Failed, names[vi])
					before := victim.RestartCount()
					// 1st half of PID.notifyParent: the failing routee suspends itself
					victim.suspend("verif: routee failure")
					suspended++
					// the router handles a Broadcast before the failure signal gets to it
					c21Rec.reset()
					msgID++
					wid := msgID
					_ = Tell(ctx, rpid, NewBroadcast(&verifC21Msg{ID: wid, Key: "window"}))
					wantW := 1
					if c.Strategy == "fanout" {
						wantW = c.N - 1
						if c.Directive == "stop" {
							wantW = c.N - suspended
						}
					}
					c21Rec.waitFor(wantW, 5*time.Second)
					rs := c21Rec.snapshot()[wid]
					sort.Strings(rs)
					out.Window[names[vi]] = rs
					// 2nd half: the routee tells its parent, which escalates to the router actor
					victim.notifyParent(newSupervisionSignal(fmt.Errorf("verif: routee failure"), &verifC21Msg{ID: -1}))
					ok := false
					for tries := 0; tries < 5000; tries++ {
						switch c.Directive {
						case "restart":
							ok = victim.IsRunning() && victim.RestartCount() > before
						case "stop":
							ok = !victim.IsRunning() && !victim.IsSuspended()
						default:
							ok = victim.IsRunning()
						}
						if ok {
							break
						}
						time.Sleep(time.Millisecond)
					}
					if !ok {
						out.Handled = false
					}
					if c.Directive != "stop" {
						suspended--
					}
				}
				// let the router finish the PanicSignal turn(s): a GetRoutees round trip is processed after them
				_, _ = Ask(ctx, rpid, &GetRoutees{}, time.Second)
				for _, ch := range rpid.Children() {
					if ch.IsRunning() {
						out.Alive2 = append(out.Alive2, ch.Name())
					}
				}
				sort.Strings(out.Alive2)
				saveN := c.N
				c.N = len(out.Alive2)
				out.Sent2, out.Pass2 = send(c.Keys, c.Count)
				c.N = saveN
			}
			if c.Kill > 0 {
				// stop routees behind the router's back (as an operator, a poison pill or the routee
				// itself would); the router is idle, so reading its map here does not race
				xr, _ := rpid.Actor().(*router)
				victims := map[string]bool{}
				if xr != nil {
					// prefer the routees that own keys (hash) so that the stop matters
					owners := []string{}
					seen := map[string]bool{}
					for i := 0; i < out.Sent1; i++ {
						for _, r := range out.Pass1[strconv.Itoa(i)] {
							if !seen[r] {
								seen[r] = true
								owners = append(owners, r)
							}
						}
					}
					for _, n := range names {
						if !seen[n] {
							owners = append(owners, n)
						}
					}
					for _, n := range owners {
						if len(victims) < c.Kill {
							victims[n] = true
						}
					}
					var vps []*PID
					for _, p := range xr.routeesMap {
						if victims[p.Name()] {
							vps = append(vps, p)
						}
					}
					for _, p := range vps {
						_ = p.Shutdown(ctx)
					}
					for _, p := range vps {
						for tries := 0; tries < 5000 && p.IsRunning(); tries++ {
							time.Sleep(time.Millisecond)
						}
					}
				}
				for _, n := range names {
					if victims[n] {
						out.Killed = append(out.Killed, n)
					} else {
						out.Alive2 = append(out.Alive2, n)
					}
				}
				nAlive := len(out.Alive2)
				saveN := c.N
				c.N = nAlive // fan-out expectation of the second pass
				out.Sent2, out.Pass2 = send(c.Keys, c.Count)
				c.N = saveN
			}
			_ = rpid.Shutdown(ctx)
		}
		w.put(out)
	}
}


// ---------------------------------------------------------------------------------------------
// availableRoutees on a real router struct whose map holds real routee actors, some of them stopped
// ---------------------------------------------------------------------------------------------

type c21AvailCase struct {
	N        int
	Stop     []int
	Strategy string // rr | hash
}

type c21AvailOut struct {
	Returned []int // indices of the routees handed out (sorted)
	OK       bool
	MapAfter []int // indices left in routeesMap (sorted)
	Ring     []int // hash: indices of the members on the ring afterwards (sorted); nil when there is no ring
	HasRing  bool
}

func TestVerifC21Available(t *testing.T) {
	cases := verifReadJSONL[c21AvailCase](t, "c21_avail_in.jsonl")
	w := newVerifWriter(t, "c21_avail_out.jsonl")
	defer w.close()
	ctx := context.Background()
	sys, err := NewActorSystem("verifc21avail", WithLogger(log.DiscardLogger))
	if err != nil {
		t.Fatal(err)
	}
	if err := sys.Start(ctx); err != nil {
		t.Fatal(err)
	}
	defer func() { _ = sys.Stop(ctx) }()
	time.Sleep(100 * time.Millisecond)
	for ci, c := range cases {
		opts := []RouterOption{WithRoutingStrategy(RoundRobinRouting)}
		if c.Strategy == "hash" {
			opts = []RouterOption{WithConsistentHashRouter(func(any) string { return "k" })}
		}
		x := newRouter(c.N, &verifC21Routee{}, log.DiscardLogger, opts...)
		x.name = fmt.Sprintf("c21-avail-%d", ci)
		idx := map[string]int{}
		pids := make([]*PID, c.N)
		for i := 0; i < c.N; i++ {
			p, err := sys.Spawn(ctx, fmt.Sprintf("c21-avail-%d-%d", ci, i), &verifC21Routee{})
			if err != nil {
				t.Fatal(err)
			}
			pids[i] = p
			idx[p.ID()] = i
			x.routeesMap[p.ID()] = p
		}
		x.rebuildHashRing()
		for _, i := range c.Stop {
			_ = pids[i].Shutdown(ctx)
		}
		for _, i := range c.Stop {
			for tries := 0; tries < 5000 && pids[i].IsRunning(); tries++ {
				time.Sleep(time.Millisecond)
			}
		}
		routees, ok := x.availableRoutees()
		out := c21AvailOut{OK: ok, Returned: []int{}, MapAfter: []int{}}
		for _, r := range routees {
			out.Returned = append(out.Returned, idx[r.ID()])
		}
		for id := range x.routeesMap {
			out.MapAfter = append(out.MapAfter, idx[id])
		}
		if x.ring != nil {
			out.HasRing = true
			seen := map[int]bool{}
			out.Ring = []int{}
			for _, m := range x.ring.ring {
				if !seen[idx[m]] {
					seen[idx[m]] = true
					out.Ring = append(out.Ring, idx[m])
				}
			}
			sort.Ints(out.Ring)
		}
		sort.Ints(out.Returned)
		sort.Ints(out.MapAfter)
		w.put(out)
		for _, p := range pids {
			if p.IsRunning() {
				_ = p.Shutdown(ctx)
			}
		}
	}
}
