//go:build verif

package actor

import (
	"errors"
	"fmt"
	"strconv"
	"strings"
	"testing"
	"time"

	"github.com/tochemey/goakt/v4/internal/chunk"
	"github.com/tochemey/goakt/v4/internal/cluster"
	"github.com/tochemey/goakt/v4/internal/internalpb"
)

// C32: runs the REAL planning functions of actor/relocation_worker.go and internal/chunk on the
// cases written by checks/C32.py (c32_in.jsonl) and records their outputs (c32_out.jsonl).

type c32Actor struct {
	ID     int  `json:"id"`
	Role   int  `json:"role"`
	Single bool `json:"single"`
}

type c32Grain struct {
	ID       int  `json:"id"`
	Disabled bool `json:"disabled"`
	Eager    bool `json:"eager"`
}

type c32Req struct {
	Actors []c32Actor `json:"actors"`
	Grains []c32Grain `json:"grains"`
}

type c32In struct {
	Kind        string     `json:"kind"`
	N           int        `json:"n"`
	LeaderRoles []int      `json:"leader_roles"`
	Peers       [][]int    `json:"peers"`
	Actors      []c32Actor `json:"actors"`
	Loads       []int64    `json:"loads"`
	HasLoads    bool       `json:"has_loads"`
	Grains      []c32Grain `json:"grains"`
	Total       int        `json:"total"`
	Count       int        `json:"count"`
	Size        int        `json:"size"`
	Requests    []c32Req   `json:"requests"`
	NA          int        `json:"na"`
	NG          int        `json:"ng"`
	PeerIDs     []int      `json:"peer_ids"` // kind survivors: endpoints of the peers (equal numbers = same host:port)
	Target      int        `json:"target"`
}

type c32Out struct {
	N       int     `json:"n"`
	Kind    string  `json:"kind"`
	Leader  []int   `json:"leader"`
	Shares  [][]int `json:"shares"`
	Unpl    []int   `json:"unpl"`
	Grains  []int   `json:"grains"`
	Failed  []int   `json:"failed"`
	ReqA    [][]int `json:"req_a"`
	ReqG    [][]int `json:"req_g"`
	Dep     []string `json:"dep"`
	Err     string  `json:"err"`
	After   []int   `json:"after"` // the caller's peers slice after the call
}

func c32Role(r int) string {
	if r == 0 {
		return ""
	}
	return "r" + strconv.Itoa(r)
}

func c32Roles(rs []int) []string {
	if rs == nil {
		return nil
	}
	out := make([]string, 0, len(rs))
	for _, r := range rs {
		out = append(out, c32Role(r))
	}
	return out
}

func c32WireActor(a c32Actor) *internalpb.Actor {
	w := &internalpb.Actor{Address: "a" + strconv.Itoa(a.ID), Relocatable: true}
	if a.Role != 0 {
		r := c32Role(a.Role)
		w.Role = &r
	}
	if a.Single {
		w.Singleton = &internalpb.SingletonSpec{}
	}
	return w
}

func c32WireGrain(g c32Grain) *internalpb.Grain {
	return &internalpb.Grain{GrainId: &internalpb.GrainId{Value: "g" + strconv.Itoa(g.ID)}, DisableRelocation: g.Disabled, EagerRelocation: g.Eager}
}

func c32ActorIDs(as []*internalpb.Actor) []int {
	out := make([]int, 0, len(as))
	for _, a := range as {
		out = append(out, c32ID(a.GetAddress()))
	}
	return out
}

func c32GrainIDs(gs []*internalpb.Grain) []int {
	out := make([]int, 0, len(gs))
	for _, g := range gs {
		out = append(out, c32ID(g.GetGrainId().GetValue()))
	}
	return out
}

func c32ID(s string) int {
	n, err := strconv.Atoi(strings.TrimLeft(s, "ag"))
	if err != nil {
		return -1
	}
	return n
}

func c32Peers(ps [][]int) []*cluster.Peer {
	out := make([]*cluster.Peer, 0, len(ps))
	for i, rs := range ps {
		out = append(out, &cluster.Peer{Host: "10.0.0." + strconv.Itoa(i+1), RemotingPort: 9000 + i, PeersPort: 7000 + i, Roles: c32Roles(rs)})
	}
	return out
}

func c32Run(in c32In) (out c32Out) {
	out.N, out.Kind = in.N, in.Kind
	peersArg := c32Peers(in.Peers)
	defer func() {
		if r := recover(); r != nil {
			out.Err = fmt.Sprint("panic: ", r)
		}
	}()
	switch in.Kind {
	case "alloc":
		actors := make(map[string]*internalpb.Actor, len(in.Actors))
		for _, a := range in.Actors {
			actors["n"+strconv.Itoa(a.ID)] = c32WireActor(a)
		}
		var loads []int
		if in.HasLoads {
			loads = make([]int, len(in.Loads))
			for i, l := range in.Loads {
				loads[i] = int(l)
			}
		}
		leader, shares, unpl := allocateActors(c32Roles(in.LeaderRoles), peersArg, &internalpb.PeerState{Actors: actors}, loads)
		out.Leader = c32ActorIDs(leader)
		for _, s := range shares {
			out.Shares = append(out.Shares, c32ActorIDs(s))
		}
		out.Unpl = c32ActorIDs(unpl)
	case "grains":
		grains := make([]*internalpb.Grain, 0, in.Count)
		for i := 0; i < in.Count; i++ {
			grains = append(grains, c32WireGrain(c32Grain{ID: i}))
		}
		leader, shares := allocateGrains(in.Total, grains)
		out.Grains = c32GrainIDs(leader)
		for _, s := range shares {
			out.Shares = append(out.Shares, c32GrainIDs(s))
		}
		// the input slice must be left as it was
		for i, g := range grains {
			if c32ID(g.GetGrainId().GetValue()) != i {
				out.Err = "input slice modified"
			}
		}
	case "relgrains":
		m := make(map[string]*internalpb.Grain, len(in.Grains))
		for _, g := range in.Grains {
			m["k"+strconv.Itoa(g.ID)] = c32WireGrain(g)
		}
		out.Grains = c32GrainIDs(relocatableGrains(m))
	case "chunk":
		items := make([]int, in.Count)
		for i := range items {
			items[i] = i
		}
		for _, c := range chunk.Chunkify(items, in.Size) {
			out.Shares = append(out.Shares, append([]int(nil), c...))
		}
	case "batches":
		actors := make([]*internalpb.Actor, 0, in.NA)
		for i := 0; i < in.NA; i++ {
			actors = append(actors, c32WireActor(c32Actor{ID: i}))
		}
		grains := make([]*internalpb.Grain, 0, in.NG)
		for i := 0; i < in.NG; i++ {
			grains = append(grains, c32WireGrain(c32Grain{ID: i}))
		}
		for _, r := range buildRelocateBatchRequests("dep:1", actors, grains) {
			out.ReqA = append(out.ReqA, c32ActorIDs(r.GetActors()))
			out.ReqG = append(out.ReqG, c32GrainIDs(r.GetGrains()))
			out.Dep = append(out.Dep, r.GetDepartedNode())
		}
	case "reassign":
		reqs := make([]*internalpb.RelocateBatchRequest, 0, len(in.Requests))
		for _, r := range in.Requests {
			q := &internalpb.RelocateBatchRequest{DepartedNode: "dep:1"}
			for _, a := range r.Actors {
				q.Actors = append(q.Actors, c32WireActor(a))
			}
			for _, g := range r.Grains {
				q.Grains = append(q.Grains, c32WireGrain(g))
			}
			reqs = append(reqs, q)
		}
		failures := &relocationFailures{}
		failures.record("pre-existing", false, errors.New("earlier failure"))
		shares, leader, grains := reassignByRole(reqs, peersArg, c32Roles(in.LeaderRoles), failures)
		for _, s := range shares {
			out.Shares = append(out.Shares, c32ActorIDs(s))
		}
		out.Leader = c32ActorIDs(leader)
		out.Grains = c32GrainIDs(grains)
		items := failures.items()
		if len(items) == 0 || items[0].GetId() != "pre-existing" {
			out.Err = "earlier failures lost"
		} else {
			for _, f := range items[1:] {
				if f.GetGrain() {
					out.Err = "actor failure recorded as grain"
				}
				out.Failed = append(out.Failed, c32ID(f.GetId()))
			}
		}
	case "survivors":
		mk := func(id int) *cluster.Peer {
			return &cluster.Peer{Host: "10.0.2." + strconv.Itoa(id), RemotingPort: 9000 + id, PeersPort: 7000 + id}
		}
		peers := make([]*cluster.Peer, 0, len(in.PeerIDs))
		for _, id := range in.PeerIDs {
			peers = append(peers, mk(id))
		}
		res := survivingPeersExcept(peers, mk(in.Target))
		out.Leader = []int{}
		for _, p := range res {
			out.Leader = append(out.Leader, p.RemotingPort-9000)
		}
		out.After = []int{}
		for _, p := range peers {
			out.After = append(out.After, p.RemotingPort-9000)
		}
	default:
		out.Err = "unknown kind " + in.Kind
	}
	if in.Kind == "alloc" || in.Kind == "reassign" {
		// the callers keep using their peers slice (relocate hands the same slice to every share goroutine)
		want := c32Peers(in.Peers)
		got := peersArg
		if len(got) != len(want) {
			out.Err = "the peers slice changed length"
		}
		for i := range want {
			if i < len(got) && (got[i] == nil || got[i].Host != want[i].Host || got[i].RemotingPort != want[i].RemotingPort) {
				out.Err = "the peers slice passed by the caller was modified"
			}
		}
	}
	return out
}

func TestVerifC32Plan(t *testing.T) {
	ins := verifReadJSONL[c32In](t, "c32_in.jsonl")
	w := newVerifWriter(t, "c32_out.jsonl")
	defer w.close()
	for _, in := range ins {
		// Chunkify does not terminate for a zero chunk size on a non-empty slice: a case that does not come
		// back is reported with its input instead of hanging the whole run
		done := make(chan c32Out, 1)
		go func() { done <- c32Run(in) }()
		select {
		case o := <-done:
			w.put(o)
		case <-time.After(2 * time.Second):
			// the runaway goroutine keeps allocating: report the input and end the run right away
			w.put(c32Out{N: in.N, Kind: in.Kind, Err: "no result after 2s (non-termination?)"})
			return
		}
	}
}
