//go:build verif

package address

// Shared helpers for the /verif in-package harnesses (injected with `go test -overlay`).

import (
	"bufio"
	"encoding/json"
	"os"
	"path/filepath"
	"strconv"
	"testing"
)

func verifOutDir(t testing.TB) string {
	d := os.Getenv("VERIF_OUT")
	if d == "" {
		t.Skip("VERIF_OUT not set: /verif harness only")
	}
	return d
}

func verifSeed() uint64 {
	s, _ := strconv.ParseUint(os.Getenv("VERIF_SEED"), 10, 64)
	return s
}

func verifEnvInt(name string, def int) int {
	if v, err := strconv.Atoi(os.Getenv(name)); err == nil {
		return v
	}
	return def
}

// verifRNG is a splitmix64 generator: every random choice of a harness derives from VERIF_SEED.
type verifRNG struct{ s uint64 }

func newVerifRNG(seed uint64) *verifRNG { return &verifRNG{s: seed*0x9E3779B97F4A7C15 + 0x1234567} }
func (r *verifRNG) next() uint64 {
	r.s += 0x9E3779B97F4A7C15
	z := r.s
	z = (z ^ (z >> 30)) * 0xBF58476D1CE4E5B9
	z = (z ^ (z >> 27)) * 0x94D049BB133111EB
	return z ^ (z >> 31)
}
func (r *verifRNG) intn(n int) int { return int(r.next() % uint64(n)) }

// verifReadJSONL reads one JSON value per line from VERIF_OUT/<name>.
func verifReadJSONL[T any](t testing.TB, name string) []T {
	f, err := os.Open(filepath.Join(verifOutDir(t), name))
	if err != nil {
		t.Fatalf("open %s: %v", name, err)
	}
	defer f.Close()
	var out []T
	sc := bufio.NewScanner(f)
	sc.Buffer(make([]byte, 1<<20), 1<<28)
	for sc.Scan() {
		if len(sc.Bytes()) == 0 {
			continue
		}
		var v T
		if err := json.Unmarshal(sc.Bytes(), &v); err != nil {
			t.Fatalf("decode %s: %v", name, err)
		}
		out = append(out, v)
	}
	return out
}

// verifWriter writes one JSON value per line to VERIF_OUT/<name>.
type verifWriter struct {
	f *os.File
	w *bufio.Writer
}

func newVerifWriter(t testing.TB, name string) *verifWriter {
	f, err := os.Create(filepath.Join(verifOutDir(t), name))
	if err != nil {
		t.Fatalf("create %s: %v", name, err)
	}
	return &verifWriter{f: f, w: bufio.NewWriter(f)}
}
func (w *verifWriter) put(v any) {
	b, _ := json.Marshal(v)
	w.w.Write(b)
	w.w.WriteByte('\n')
}
func (w *verifWriter) close() { w.w.Flush(); w.f.Close() }
