//go:build verif

package address

import (
	"encoding/base64"
	"fmt"
	"testing"
)

// Harness for C26: builds real addresses (New / NewWithParent), records String(), Validate(),
// Parse(String()), HostPortOf(String()), HostPort(); and runs Parse / HostPortOf on arbitrary byte
// strings under recover.  All strings travel base64-encoded.

type c26Addr struct {
	Name, System, Host string // base64
	Port               int
	Parent             *c26Addr
	NoSender           bool // use NoSender() itself
}

type c26Case struct {
	Kind string // addr | str
	A    *c26Addr
	S    string // base64
}

type c26Parsed struct {
	OK                 bool
	Err                string `json:",omitempty"`
	Panic              string `json:",omitempty"`
	Name, System, Host string
	Port               int
	ParentName         string
	HasParent          bool
	ParentSystem       string
	ParentHost         string
	ParentPort         int
}

type c26Out struct {
	Kind       string
	Str        string // String() (addr) or the input (str), base64
	Valid      bool
	ValidErr   string `json:",omitempty"`
	Parsed     c26Parsed
	HPOf       string // HostPortOf(Str), base64
	HPOfOK     bool
	HPOfPanic  string `json:",omitempty"`
	HostPort   string // a.HostPort(), base64 (addr only)
	FormatHP   string // FormatHostPort(host, port), base64 (addr only)
	ReString   string // Parse(Str).String() when parsed, base64
}

func c26b(s string) string { return base64.StdEncoding.EncodeToString([]byte(s)) }
func c26d(s string) string {
	b, err := base64.StdEncoding.DecodeString(s)
	if err != nil {
		panic(err)
	}
	return string(b)
}

func c26Build(a *c26Addr) *Address {
	if a == nil {
		return nil
	}
	if a.NoSender {
		return NoSender()
	}
	if a.Parent != nil {
		return NewWithParent(c26d(a.Name), c26d(a.System), c26d(a.Host), a.Port, c26Build(a.Parent))
	}
	return New(c26d(a.Name), c26d(a.System), c26d(a.Host), a.Port)
}

func c26Parse(s string) (out c26Parsed, re string) {
	defer func() {
		if r := recover(); r != nil {
			out = c26Parsed{Panic: fmt.Sprint(r)}
		}
	}()
	addr, err := Parse(s)
	if err != nil {
		return c26Parsed{Err: err.Error()}, ""
	}
	if addr == nil {
		return c26Parsed{Err: "nil address without error"}, ""
	}
	out = c26Parsed{OK: true, Name: c26b(addr.Name()), System: c26b(addr.System()), Host: c26b(addr.Host()), Port: addr.Port()}
	if p := addr.Parent(); p != nil {
		out.HasParent = true
		out.ParentName = c26b(p.Name())
		out.ParentSystem = c26b(p.System())
		out.ParentHost = c26b(p.Host())
		out.ParentPort = p.Port()
	}
	return out, c26b(addr.String())
}

func c26HostPortOf(s string) (hp string, ok bool, pmsg string) {
	defer func() {
		if r := recover(); r != nil {
			pmsg = fmt.Sprint(r)
		}
	}()
	h, ok := HostPortOf(s)
	return c26b(h), ok, ""
}

func TestVerifC26Address(t *testing.T) {
	cases := verifReadJSONL[c26Case](t, "c26_in.jsonl")
	w := newVerifWriter(t, "c26_out.jsonl")
	defer w.close()
	for _, c := range cases {
		out := c26Out{Kind: c.Kind}
		var s string
		if c.Kind == "addr" {
			a := c26Build(c.A)
			s = a.String()
			if err := a.Validate(); err != nil {
				out.ValidErr = err.Error()
			} else {
				out.Valid = true
			}
			out.HostPort = c26b(a.HostPort())
			out.FormatHP = c26b(FormatHostPort(a.Host(), a.Port()))
		} else {
			s = c26d(c.S)
		}
		out.Str = c26b(s)
		out.Parsed, out.ReString = c26Parse(s)
		out.HPOf, out.HPOfOK, out.HPOfPanic = c26HostPortOf(s)
		w.put(out)
	}
}
