//go:build verif

package remoteclient

// C27 — remote tells keep order and are never silently dropped.
//
// Three drivers over the REAL coalescer / client of the current tree:
//   TestVerifC27Scripts  deterministic op scripts (written by checks/C27.py) against a scripted transport:
//                        every batch that reaches the transport is parked until the script gives its verdict,
//                        so the writer goroutine is always either idle or blocked inside flush and the event
//                        trace is reproducible. The trace is replayed through the Coq model by the check.
//   TestVerifC27Stress   real goroutines calling coalescer.submit / close concurrently, random verdicts.
//   TestVerifC27Client   the same through the public Client.RemoteTell / Close.
// The property oracle itself (accounted, at most once, per-caller order) runs in the check on the output.

import (
	"context"
	"errors"
	"fmt"
	"net"
	"runtime"
	"strconv"
	"sync"
	"sync/atomic"
	"testing"
	"time"

	"google.golang.org/protobuf/proto"
	"google.golang.org/protobuf/types/known/wrapperspb"

	"github.com/tochemey/goakt/v4/internal/address"
	"github.com/tochemey/goakt/v4/internal/internalpb"
	inet "github.com/tochemey/goakt/v4/internal/net"
	"github.com/tochemey/goakt/v4/remote"
)

// ------------------------------------------------------------------ scripted transport

type c27Arrival struct {
	ids     []string
	verdict chan int
}

type c27Transport struct {
	ps        *inet.ProtoServer
	host      string
	port      int
	addr      string
	serveDone chan error

	// scripted mode: arrivals are parked until a verdict is sent.
	arrivals chan *c27Arrival
	// auto mode: verdict and delay come from autoFn.
	autoFn atomic.Pointer[func(ids []string) (int, time.Duration)]

	mu  sync.Mutex
	log []c27Flush // auto mode: every batch with its verdict, in arrival order
}

type c27Flush struct {
	IDs []string `json:"ids"`
	V   int      `json:"v"`
}

var c27Ser = remote.NewProtoSerializer()

func c27ID(m *internalpb.RemoteMessage) string {
	if m == nil {
		return "<nil>"
	}
	if v, err := c27Ser.Deserialize(m.GetMessage()); err == nil {
		if sv, ok := v.(*wrapperspb.StringValue); ok {
			return sv.GetValue()
		}
	}
	return string(m.GetMessage())
}

func c27IDs(ms []*internalpb.RemoteMessage) []string {
	out := make([]string, len(ms))
	for i, m := range ms {
		out[i] = c27ID(m)
	}
	return out
}

func (tr *c27Transport) handler(_ context.Context, _ inet.Connection, msg proto.Message) (proto.Message, error) {
	req, ok := msg.(*internalpb.RemoteTellRequest)
	if !ok {
		return &internalpb.RemoteTellResponse{}, nil
	}
	ids := c27IDs(req.GetRemoteMessages())
	var v int
	if fn := tr.autoFn.Load(); fn != nil {
		var d time.Duration
		v, d = (*fn)(ids)
		tr.mu.Lock()
		tr.log = append(tr.log, c27Flush{IDs: ids, V: v})
		tr.mu.Unlock()
		if d > 0 {
			time.Sleep(d)
		}
	} else {
		a := &c27Arrival{ids: ids, verdict: make(chan int, 1)}
		tr.arrivals <- a
		v = <-a.verdict
	}
	switch v {
	case 0:
		return &internalpb.RemoteTellResponse{}, nil
	case 1:
		return &internalpb.Error{Code: internalpb.Code_CODE_UNAVAILABLE, Message: "verif: scripted batch failure"}, nil
	default:
		// handler error: the server closes the connection, the client sees a transport error
		return nil, errors.New("verif: scripted transport failure")
	}
}

func c27StartTransport(t testing.TB) *c27Transport {
	tr := &c27Transport{arrivals: make(chan *c27Arrival, 1024)}
	ps, err := inet.NewProtoServer("127.0.0.1:0", inet.WithProtoHandler("internalpb.RemoteTellRequest", tr.handler))
	if err != nil {
		t.Fatalf("proto server: %v", err)
	}
	if err := ps.Listen(); err != nil {
		t.Fatalf("listen: %v", err)
	}
	tr.ps = ps
	tr.serveDone = make(chan error, 1)
	go func() { tr.serveDone <- ps.Serve() }()
	host, portStr, _ := net.SplitHostPort(ps.ListenAddr().String())
	tr.host = host
	tr.port, _ = strconv.Atoi(portStr)
	tr.addr = net.JoinHostPort(host, portStr)
	// wait until the accept loop answers
	deadline := time.Now().Add(3 * time.Second)
	for time.Now().Before(deadline) {
		c, err := net.DialTimeout("tcp", tr.addr, 200*time.Millisecond)
		if err == nil {
			c.Close()
			break
		}
		time.Sleep(5 * time.Millisecond)
	}
	return tr
}

func (tr *c27Transport) stop() {
	// release anything still parked
	for {
		select {
		case a := <-tr.arrivals:
			a.verdict <- 0
			continue
		default:
		}
		break
	}
	_ = tr.ps.Shutdown(time.Second)
	select {
	case <-tr.serveDone:
	case <-time.After(2 * time.Second):
	}
}

// ------------------------------------------------------------------ script driver

type c27Op struct {
	Op  string `json:"op"`
	ID  string `json:"id,omitempty"`
	Ctx string `json:"ctx,omitempty"` // "bg" | "cancelled"
	V   int    `json:"v,omitempty"`
}

type c27Script struct {
	Name     string  `json:"name"`
	MaxBatch int     `json:"max_batch"`
	Handler  bool    `json:"handler"`
	Ops      []c27Op `json:"ops"`
}

type c27Event struct {
	K   string   `json:"k"`
	ID  string   `json:"id,omitempty"`
	Res string   `json:"res,omitempty"`
	IDs []string `json:"ids,omitempty"`
	V   int      `json:"v"`
}

type c27Trace struct {
	Name      string     `json:"name"`
	MaxBatch  int        `json:"max_batch"`
	Cap       int        `json:"cap"`
	Handler   bool       `json:"handler"`
	Events    []c27Event `json:"events"`
	Stranded  []string   `json:"stranded"`
	Exited    bool       `json:"exited"`
	Retained  [][]string `json:"retained"` // what the error handler's RETAINED slices hold at the end
	Anomalies []string   `json:"anomalies"`
}

// c27HookCtx is a context whose Done() runs a hook once: coalescer.submit evaluates ctx.Done() only on its
// slow path, i.e. after the shutdown pre-check passed and the non-blocking send found the queue full. That
// is a real preemption point inside the real submit.
type c27HookCtx struct {
	context.Context
	once sync.Once
	fn   func()
}

func (h *c27HookCtx) Done() <-chan struct{} {
	h.once.Do(h.fn)
	return nil // never fires
}

type c27Driver struct {
	t        testing.TB
	tr       *c27Transport
	c        *coalescer
	nc       *inet.Client
	trace    *c27Trace
	inflight *c27Arrival
	// accepted submits whose message has not yet been seen in an arrival
	outstanding  int
	closeStarted bool
	closeDone    chan struct{}
	exited       bool
	ehCh         chan []string
	retainedMu   sync.Mutex
	retained     [][]*internalpb.RemoteMessage
	handler      bool
}

func (d *c27Driver) ev(e c27Event) { d.trace.Events = append(d.trace.Events, e) }
func (d *c27Driver) anomaly(f string, a ...any) {
	d.trace.Anomalies = append(d.trace.Anomalies, fmt.Sprintf(f, a...))
}

// waitWriter waits for the writer's next visible action: a batch reaching the transport, or (after close was
// requested) the writer's exit. budget bounds the wait.
func (d *c27Driver) waitWriter(budget time.Duration) string {
	var cd chan struct{}
	if d.closeStarted && !d.exited {
		cd = d.closeDone
	}
	select {
	case a := <-d.tr.arrivals:
		d.inflight = a
		d.outstanding -= len(a.ids)
		d.ev(c27Event{K: "arr", IDs: a.ids})
		return "arr"
	case <-cd:
		d.exited = true
		d.ev(c27Event{K: "closed"})
		return "closed"
	case <-time.After(budget):
		return "timeout"
	}
}

func (d *c27Driver) verdict(v int) {
	if d.inflight == nil {
		// after close was requested a script cannot know whether the writer took another batch
		if !d.closeStarted {
			d.anomaly("verdict with nothing in flight")
		}
		return
	}
	ids := d.inflight.ids
	d.inflight.verdict <- v
	d.inflight = nil
	d.ev(c27Event{K: "ver", V: v, IDs: ids})
	if v != 0 && d.handler {
		select {
		case got := <-d.ehCh:
			d.ev(c27Event{K: "eh", IDs: got})
		case <-time.After(3 * time.Second):
			d.anomaly("error handler not invoked within 3s after failed batch %v", ids)
		}
	}
}

func (d *c27Driver) afterVerdict(budget time.Duration) {
	if d.exited {
		return
	}
	if d.outstanding > 0 || d.closeStarted {
		if r := d.waitWriter(budget); r == "timeout" {
			d.anomaly("writer made no visible progress within %s (outstanding=%d closeStarted=%v)", budget, d.outstanding, d.closeStarted)
		}
	}
}

func (d *c27Driver) startClose() {
	if d.closeStarted {
		return
	}
	d.closeStarted = true
	d.ev(c27Event{K: "close"})
	go func() { d.c.close(); close(d.closeDone) }()
	// the event order of the trace must be the real order: wait until done is really closed
	deadline := time.Now().Add(2 * time.Second)
	for time.Now().Before(deadline) {
		select {
		case <-d.c.done:
			return
		default:
			runtime.Gosched()
		}
	}
	d.anomaly("close() did not close the done channel within 2s")
}

func (d *c27Driver) submit(op c27Op) {
	mk := func() *internalpb.RemoteMessage {
		return &internalpb.RemoteMessage{Sender: "s", Receiver: "r", Message: []byte(op.ID)}
	}
	resOf := func(err error) string {
		switch {
		case err == nil:
			return "ok"
		case errors.Is(err, errCoalescerClosed):
			return "closed"
		case errors.Is(err, context.Canceled), errors.Is(err, context.DeadlineExceeded):
			return "ctx"
		default:
			return "err:" + err.Error()
		}
	}
	var ctx context.Context
	var cancel context.CancelFunc
	switch op.Ctx {
	case "cancelled":
		ctx, cancel = context.WithCancel(context.Background())
		cancel()
	default:
		ctx, cancel = context.WithTimeout(context.Background(), 2*time.Second)
	}
	defer cancel()
	if op.Op == "submit_hook" {
		called := false
		h := &c27HookCtx{Context: context.Background()}
		h.fn = func() {
			called = true
			d.ev(c27Event{K: "hook", ID: op.ID})
			d.startClose()
			// let the writer run to its exit: every batch succeeds
			for !d.exited {
				if d.inflight != nil {
					d.verdict(0)
				}
				if r := d.waitWriter(400 * time.Millisecond); r == "timeout" {
					// the writer is waiting for this very submit to finish (repaired code) — go on
					d.ev(c27Event{K: "hook_timeout"})
					break
				}
			}
		}
		err := d.c.submit(h, mk())
		res := resOf(err)
		if !called {
			d.ev(c27Event{K: "hook_not_called", ID: op.ID})
		}
		d.ev(c27Event{K: "sub", ID: op.ID, Res: res, V: 1})
		if err == nil {
			d.outstanding++
		}
	} else {
		err := d.c.submit(ctx, mk())
		res := resOf(err)
		d.ev(c27Event{K: "sub", ID: op.ID, Res: res})
		if err == nil {
			d.outstanding++
		}
	}
	if d.inflight == nil && !d.exited && d.outstanding > 0 {
		if r := d.waitWriter(3 * time.Second); r == "timeout" {
			d.anomaly("accepted message %s did not reach the transport within 3s with an idle writer", op.ID)
		}
	}
}

func c27RunScript(t testing.TB, tr *c27Transport, sc c27Script) *c27Trace {
	trace := &c27Trace{Name: sc.Name, MaxBatch: sc.MaxBatch, Handler: sc.Handler}
	d := &c27Driver{t: t, tr: tr, trace: trace, closeDone: make(chan struct{}), ehCh: make(chan []string, 1024), handler: sc.Handler}
	cfg := coalescingConfig{maxBatch: sc.MaxBatch}
	if sc.Handler {
		cfg.errHandler = func(_ string, ms []*internalpb.RemoteMessage, _ error) {
			// retain the slice like the real dead-letter fan-out does, and report what it holds now
			d.retainedMu.Lock()
			d.retained = append(d.retained, ms)
			d.retainedMu.Unlock()
			d.ehCh <- c27IDs(ms)
		}
	}
	d.nc = inet.NewClient(tr.addr)
	d.c = newCoalescer(tr.addr, d.nc, cfg)
	trace.Cap = cap(d.c.in)
	for _, op := range sc.Ops {
		switch op.Op {
		case "submit", "submit_hook":
			d.submit(op)
		case "verdict":
			d.verdict(op.V)
			d.afterVerdict(3 * time.Second)
		case "close":
			d.startClose()
			if d.inflight == nil {
				if r := d.waitWriter(3 * time.Second); r == "timeout" {
					d.anomaly("close did not return within 3s with an idle writer")
				}
			}
		default:
			d.anomaly("unknown op %q", op.Op)
		}
	}
	// settle: close if the script did not, let every remaining batch succeed, until the writer has exited
	d.startClose()
	for guard := 0; !d.exited && guard < 10000; guard++ {
		if d.inflight != nil {
			d.verdict(0)
		}
		if r := d.waitWriter(3 * time.Second); r == "timeout" {
			d.anomaly("writer did not exit within 3s after close")
			break
		}
	}
	trace.Exited = d.exited
	// observable state at quiescence: what is still sitting in the queue
	if d.exited {
	drain:
		for {
			select {
			case m := <-d.c.in:
				trace.Stranded = append(trace.Stranded, c27ID(m))
			default:
				break drain
			}
		}
	}
	d.retainedMu.Lock()
	for _, ms := range d.retained {
		trace.Retained = append(trace.Retained, c27IDs(ms))
	}
	d.retainedMu.Unlock()
	_ = d.nc.Close()
	return trace
}

func TestVerifC27Scripts(t *testing.T) {
	scripts := verifReadJSONL[c27Script](t, "c27_scripts.jsonl")
	w := newVerifWriter(t, "c27_traces.jsonl")
	defer w.close()
	tr := c27StartTransport(t)
	defer tr.stop()
	for _, sc := range scripts {
		w.put(c27RunScript(t, tr, sc))
	}
}

// ------------------------------------------------------------------ stress (real goroutines)

type c27Round struct {
	Level     string      `json:"level"` // "coalescer" | "client"
	Round     int         `json:"round"`
	MaxBatch  int         `json:"max_batch"`
	Callers   int         `json:"callers"`
	PerCaller int         `json:"per_caller"`
	CloseMode string      `json:"close_mode"`
	Accepted  [][]string  `json:"accepted"` // per caller, in call order, the ids whose send returned nil
	Rejected  int         `json:"rejected"`
	Flushes   []c27Flush  `json:"flushes"` // every batch in transport arrival order with its verdict
	Handled   [][]string  `json:"handled"` // error handler invocations (retained slices read at the end)
	Stranded  []string    `json:"stranded"`
	Exited    bool        `json:"exited"`
	Anomalies []string    `json:"anomalies"`
}

func c27AutoFn(seed uint64, failPct int, maxDelayUs int) *func(ids []string) (int, time.Duration) {
	var mu sync.Mutex
	rng := newVerifRNG(seed)
	fn := func(ids []string) (int, time.Duration) {
		mu.Lock()
		defer mu.Unlock()
		v := 0
		if rng.intn(100) < failPct {
			v = 1 + rng.intn(2)
		}
		d := time.Duration(0)
		if maxDelayUs > 0 {
			d = time.Duration(rng.intn(maxDelayUs)) * time.Microsecond
		}
		return v, d
	}
	return &fn
}

func TestVerifC27Stress(t *testing.T) {
	w := newVerifWriter(t, "c27_stress.jsonl")
	defer w.close()
	tr := c27StartTransport(t)
	defer tr.stop()
	rounds := verifEnvInt("VERIF_C27_ROUNDS", 40)
	rng := newVerifRNG(verifSeed() ^ 0xC27)
	for r := 0; r < rounds; r++ {
		maxBatch := []int{1, 2, 3, 8}[rng.intn(4)]
		callers := 2 + rng.intn(7)
		per := 20 + rng.intn(60)
		closeMode := []string{"after", "during", "during"}[rng.intn(3)]
		tr.mu.Lock()
		tr.log = nil
		tr.mu.Unlock()
		tr.autoFn.Store(c27AutoFn(rng.next(), 15, 300))
		out := c27Round{Level: "coalescer", Round: r, MaxBatch: maxBatch, Callers: callers, PerCaller: per, CloseMode: closeMode}
		var hmu sync.Mutex
		var retained [][]*internalpb.RemoteMessage
		nc := inet.NewClient(tr.addr)
		c := newCoalescer(tr.addr, nc, coalescingConfig{maxBatch: maxBatch, errHandler: func(_ string, ms []*internalpb.RemoteMessage, _ error) {
			hmu.Lock()
			retained = append(retained, ms)
			hmu.Unlock()
		}})
		out.Accepted = make([][]string, callers)
		var rejected atomic.Int64
		var wg sync.WaitGroup
		start := make(chan struct{})
		var sent atomic.Int64
		for k := 0; k < callers; k++ {
			wg.Add(1)
			go func(k int) {
				defer wg.Done()
				<-start
				for i := 0; i < per; i++ {
					id := fmt.Sprintf("r%d.c%d.%d", r, k, i)
					ctx, cancel := context.WithTimeout(context.Background(), time.Second)
					err := c.submit(ctx, &internalpb.RemoteMessage{Sender: "s", Receiver: "r", Message: []byte(id)})
					cancel()
					if err == nil {
						out.Accepted[k] = append(out.Accepted[k], id)
					} else {
						rejected.Add(1)
					}
					sent.Add(1)
					if i%7 == k%7 {
						runtime.Gosched()
					}
				}
			}(k)
		}
		closeAt := int64(rng.intn(callers*per + 1))
		closed := make(chan struct{})
		go func() {
			if closeMode == "after" {
				wg.Wait()
			} else {
				for sent.Load() < closeAt {
					runtime.Gosched()
				}
			}
			c.close()
			close(closed)
		}()
		close(start)
		wg.Wait()
		select {
		case <-closed:
			out.Exited = true
		case <-time.After(20 * time.Second):
			out.Anomalies = append(out.Anomalies, "close did not return within 20s")
		}
		if out.Exited {
		drain:
			for {
				select {
				case m := <-c.in:
					out.Stranded = append(out.Stranded, c27ID(m))
				default:
					break drain
				}
			}
		}
		out.Rejected = int(rejected.Load())
		tr.mu.Lock()
		out.Flushes = append([]c27Flush(nil), tr.log...)
		tr.mu.Unlock()
		hmu.Lock()
		for _, ms := range retained {
			out.Handled = append(out.Handled, c27IDs(ms))
		}
		hmu.Unlock()
		_ = nc.Close()
		w.put(out)
	}
	tr.autoFn.Store(nil)
}

// TestVerifC27Client drives the public API: Client.RemoteTell with coalescing enabled, Client.Close with
// messages pending. Close is only called after every caller returned (using a client after Close is outside
// its documented contract), so what is pending at Close is exactly what piled up behind a slow transport.
func TestVerifC27Client(t *testing.T) {
	w := newVerifWriter(t, "c27_client.jsonl")
	defer w.close()
	tr := c27StartTransport(t)
	defer tr.stop()
	rounds := verifEnvInt("VERIF_C27_CLIENT_ROUNDS", 24)
	rng := newVerifRNG(verifSeed() ^ 0xC27C)
	from := address.New("from", "sys", tr.host, tr.port)
	to := address.New("to", "sys", tr.host, tr.port)
	for r := 0; r < rounds; r++ {
		maxBatch := []int{1, 2, 4, 8}[rng.intn(4)]
		callers := 1 + rng.intn(6)
		per := 10 + rng.intn(40)
		tr.mu.Lock()
		tr.log = nil
		tr.mu.Unlock()
		// slow transport so that the queue backs up; some rounds with a short caller deadline => backpressure errors
		tr.autoFn.Store(c27AutoFn(rng.next(), 20, 2000))
		shortDeadline := rng.intn(3) == 0
		out := c27Round{Level: "client", Round: r, MaxBatch: maxBatch, Callers: callers, PerCaller: per, CloseMode: "after"}
		var hmu sync.Mutex
		var retained [][]*internalpb.RemoteMessage
		cl := NewClient(WithSendCoalescing(maxBatch), WithCoalescingErrorHandler(func(_ string, ms []*internalpb.RemoteMessage, _ error) {
			hmu.Lock()
			retained = append(retained, ms)
			hmu.Unlock()
		}))
		out.Accepted = make([][]string, callers)
		var rejected atomic.Int64
		var wg sync.WaitGroup
		start := make(chan struct{})
		for k := 0; k < callers; k++ {
			wg.Add(1)
			go func(k int) {
				defer wg.Done()
				<-start
				for i := 0; i < per; i++ {
					id := fmt.Sprintf("R%d.c%d.%d", r, k, i)
					d := 2 * time.Second
					if shortDeadline {
						d = 200 * time.Microsecond
					}
					ctx, cancel := context.WithTimeout(context.Background(), d)
					err := cl.RemoteTell(ctx, from, to, wrapperspb.String(id))
					cancel()
					if err == nil {
						out.Accepted[k] = append(out.Accepted[k], id)
					} else {
						rejected.Add(1)
					}
				}
			}(k)
		}
		close(start)
		wg.Wait()
		closed := make(chan struct{})
		go func() { cl.Close(); close(closed) }()
		select {
		case <-closed:
			out.Exited = true
		case <-time.After(30 * time.Second):
			out.Anomalies = append(out.Anomalies, "Client.Close did not return within 30s")
		}
		out.Rejected = int(rejected.Load())
		tr.mu.Lock()
		out.Flushes = append([]c27Flush(nil), tr.log...)
		tr.mu.Unlock()
		hmu.Lock()
		for _, ms := range retained {
			out.Handled = append(out.Handled, c27IDs(ms))
		}
		hmu.Unlock()
		w.put(out)
	}
	tr.autoFn.Store(nil)
}
