//go:build verif

package remoteclient

// C25 harness: the REAL serializers (remote.Proto/CBOR/JSON, commands.DeliverySerializer, and two toy
// user serializers) behind the REAL client.resolveSerializer and serializerDispatch, for every
// registration order of up to four entries, on generated messages.
// For each (configuration, message) it records
//   - the tables the abstract Coq model is instantiated with (which entry's type matches, what each
//     entry's Serialize returns, what each entry's Deserialize makes of every produced frame, whether
//     the proto fast path fires), and
//   - what the real resolveSerializer / dispatch.Serialize / dispatch.Deserialize did,
// plus the property's own oracle: a message sent with the serializer chosen for its type must come
// back equal through the composite dispatcher; unsupported messages must yield an error.

import (
	"bytes"
	"errors"
	"fmt"
	"math"
	"os"
	"reflect"
	"testing"

	"google.golang.org/protobuf/proto"

	"github.com/tochemey/goakt/v4/internal/commands"
	"github.com/tochemey/goakt/v4/internal/internalpb"
	inet "github.com/tochemey/goakt/v4/internal/net"
	"github.com/tochemey/goakt/v4/internal/types"
	"github.com/tochemey/goakt/v4/remote"
	"github.com/tochemey/goakt/v4/test/data/testpb"
)

// ---------------------------------------------------------------- message types of the harness

type c25Marker interface{ c25Mark() }

type c25Inner struct {
	A int32
	B string
}

type c25S1 struct {
	ID    int64
	Name  string
	Tags  []string
	Blob  []byte
	Score float64
	M     map[string]int
	In    c25Inner
	P     *c25Inner
	Flag  bool
	U     uint16
}

func (*c25S1) c25Mark() {}

type c25S2 struct {
	K string
	V int
	L []int64
}

func (*c25S2) c25Mark() {}

// c25F carries floats in every position a codec treats differently (field, slice element, map value, 32 bit).
type c25F struct {
	F float64
	L []float64
	M map[string]float64
	G float32
}

type c25Unreg struct{ X int }

type c25Toy struct{ S string }
type c25Toy2 struct{ S string }

// toyA frames: 'A' + text; it (carelessly) accepts every frame that starts with 'A'.
type c25ToyA struct{}

func (c25ToyA) Serialize(m any) ([]byte, error) {
	if t, ok := m.(*c25Toy); ok && t != nil {
		return append([]byte("A:"), t.S...), nil
	}
	return nil, errors.New("toyA: unsupported")
}
func (c25ToyA) Deserialize(b []byte) (any, error) {
	if len(b) >= 2 && b[0] == 'A' {
		return &c25Toy{S: string(b[2:])}, nil
	}
	return nil, errors.New("toyA: not mine")
}

// toyB frames: "AB" + text — they also start with 'A'.
type c25ToyB struct{}

func (c25ToyB) Serialize(m any) ([]byte, error) {
	if t, ok := m.(*c25Toy2); ok && t != nil {
		return append([]byte("AB"), t.S...), nil
	}
	return nil, errors.New("toyB: unsupported")
}
func (c25ToyB) Deserialize(b []byte) (any, error) {
	if len(b) >= 2 && b[0] == 'A' && b[1] == 'B' {
		return &c25Toy2{S: string(b[2:])}, nil
	}
	return nil, errors.New("toyB: not mine")
}

// toyP: a user serializer registered for ONE concrete proto message type.
type c25ToyP struct{}

func (c25ToyP) Serialize(m any) ([]byte, error) {
	if t, ok := m.(*testpb.Reply); ok && t != nil {
		return append([]byte("P!"), t.GetContent()...), nil
	}
	return nil, errors.New("toyP: unsupported")
}
func (c25ToyP) Deserialize(b []byte) (any, error) {
	if len(b) >= 2 && b[0] == 'P' && b[1] == '!' {
		return &testpb.Reply{Content: string(b[2:])}, nil
	}
	return nil, errors.New("toyP: not mine")
}

// toyC: a user serializer whose frames use the shared layout with a type name that ALSO resolves in the
// protobuf registry ("testpb.Reply") but carry a non-protobuf payload — the "pathological" collision the
// dispatcher's fast path must survive by falling through to the ordered loop.
type c25Coll struct{ S string }
type c25ToyC struct{}

func (c25ToyC) Serialize(m any) ([]byte, error) {
	t, ok := m.(*c25Coll)
	if !ok || t == nil {
		return nil, errors.New("toyC: unsupported")
	}
	name := "testpb.Reply"
	payload := append([]byte{0xff, 0xff, 0xff}, t.S...) // not a valid protobuf encoding
	out := make([]byte, 8, 8+len(name)+len(payload))
	total := 8 + len(name) + len(payload)
	out[0], out[1], out[2], out[3] = byte(total>>24), byte(total>>16), byte(total>>8), byte(total)
	out[7] = byte(len(name))
	out = append(out, name...)
	return append(out, payload...), nil
}
func (c25ToyC) Deserialize(b []byte) (any, error) {
	const name = "testpb.Reply"
	if len(b) >= 8+len(name)+3 && string(b[8:8+len(name)]) == name && b[8+len(name)] == 0xff {
		return &c25Coll{S: string(b[8+len(name)+3:])}, nil
	}
	return nil, errors.New("toyC: not mine")
}

// ---------------------------------------------------------------- entries

// c25Tagged gives every registry-based serializer entry its own identity (remote.JSONSerializer is a
// zero-size struct: all its instances share one address).
type c25Tagged struct {
	remote.Serializer
	id int
}

type c25EntryKind struct {
	Name  string
	iface reflect.Type
	mk    func() remote.Serializer
	Iface bool
}

func c25EntryKinds() []c25EntryKind {
	ptrTo := func(v any) reflect.Type { return reflect.TypeOf(v) }
	return []c25EntryKind{
		{"proto.Message=>proto", reflect.TypeFor[proto.Message](), func() remote.Serializer { return remote.NewProtoSerializer() }, true},
		{"*S1=>cbor", ptrTo(new(c25S1)), func() remote.Serializer { return &c25Tagged{remote.NewCBORSerializer(), 1} }, false},
		{"*S2=>json", ptrTo(new(c25S2)), func() remote.Serializer { return &c25Tagged{remote.NewJSONSerializer(), 2} }, false},
		{"any=>json", reflect.TypeFor[any](), func() remote.Serializer { return &c25Tagged{remote.NewJSONSerializer(), 3} }, true},
		{"any=>cbor", reflect.TypeFor[any](), func() remote.Serializer { return &c25Tagged{remote.NewCBORSerializer(), 4} }, true},
		{"*Ack=>delivery", ptrTo(new(commands.Ack)), func() remote.Serializer { return new(commands.DeliverySerializer) }, false},
		{"*Toy=>toyA", ptrTo(new(c25Toy)), func() remote.Serializer { return c25ToyA{} }, false},
		{"*Toy2=>toyB", ptrTo(new(c25Toy2)), func() remote.Serializer { return c25ToyB{} }, false},
		{"*testpb.Reply=>toyP", ptrTo(new(testpb.Reply)), func() remote.Serializer { return c25ToyP{} }, false},
		{"*Coll=>toyC", ptrTo(new(c25Coll)), func() remote.Serializer { return c25ToyC{} }, false},
		{"Marker=>json", reflect.TypeFor[c25Marker](), func() remote.Serializer { return &c25Tagged{remote.NewJSONSerializer(), 9} }, true},
	}
}

// ---------------------------------------------------------------- messages

type c25Msg struct {
	Desc string
	v    any
	home int  // entry kind registered for exactly this message's type (-1: none)
	edge bool // unusual value (ill-formed UTF-8, non-finite float): also run whenever a catch-all entry is registered
}

func c25Messages(r *verifRNG) []c25Msg {
	var out []c25Msg
	home := map[string]int{"*remoteclient.c25S1": 1, "*remoteclient.c25S2": 2, "*commands.Ack": 5, "*remoteclient.c25Toy": 6,
		"*remoteclient.c25Toy2": 7, "*testpb.Reply": 8, "*remoteclient.c25Coll": 9}
	add := func(d string, v any) {
		h, ok := home[fmt.Sprintf("%T", v)]
		if !ok {
			h = -1
		}
		if _, isCmd := v.(interface{ c25IsCommand() }); isCmd {
			h = 5
		}
		out = append(out, c25Msg{d, v, h, false})
	}
	edge := func(d string, v any) {
		add(d, v)
		out[len(out)-1].edge = true
	}
	str := func() string {
		return []string{"", "x", "héllo wörld", "a\x00b", "{\"k\":1}", "AB", "12345678901234567890123456789012345678901234567890"}[r.intn(7)]
	}
	add("*testpb.Reply", &testpb.Reply{Content: str()})
	add("*testpb.Reply/empty", &testpb.Reply{})
	add("*testpb.Account", &testpb.Account{AccountId: str(), AccountBalance: float64(r.intn(1000)) / 8})
	add("*testpb.TestSend", &testpb.TestSend{})
	add("*internalpb.RemoteTellRequest", &internalpb.RemoteTellRequest{})
	for i := 0; i < 3; i++ {
		s := &c25S1{ID: int64(r.next()), Name: str(), Score: float64(int64(r.next()%2000)-1000) / 16, Flag: r.intn(2) == 0, U: uint16(r.next())}
		if r.intn(2) == 0 {
			s.Tags = []string{str(), str()}
			s.Blob = []byte{byte(r.next()), 0, 255}
			s.M = map[string]int{"a": r.intn(100), str(): -r.intn(100)}
			s.In = c25Inner{A: int32(r.next()), B: str()}
			s.P = &c25Inner{A: -1, B: "p"}
		}
		add("*S1", s)
	}
	add("*S1/zero", &c25S1{})
	add("*S2", &c25S2{K: str(), V: int(int32(r.next())), L: []int64{1, -1, 1 << 62}})
	add("*S2/zero", &c25S2{})
	add("S2 value", c25S2{K: "v", V: 3})
	// built-in primitives (pre-registered in the global types registry)
	for _, v := range []int{0, 1, 5, 9, 10, 23, 24, -1, -17, -20, -26, -27, 255, 1 << 40, -(1 << 40)} {
		add(fmt.Sprintf("int %d", v), v)
	}
	add("int64", int64(r.next()))
	add("uint8", uint8(r.next()))
	add("uint64 max", ^uint64(0))
	add("string", str())
	add("string digits", "7")
	add("bool true", true)
	add("bool false", false)
	add("float64", 1.5)
	add("float64 int-valued", float64(3))
	add("float32", float32(0.25))
	// reliable-delivery commands
	if a, err := commands.NewAck("sess-1", "nonce", int64(r.intn(1000))); err == nil {
		add("*commands.Ack", a)
	}
	for _, via := range []bool{false, true} {
		if q, err := commands.NewRequest("sess-1", "nonce", int64(r.intn(9)), 9+int64(r.intn(9)), via); err == nil {
			add(fmt.Sprintf("*commands.Request via=%v", via), q)
		}
	}
	if q, err := commands.NewRegisterConsumer("nonce-" + str()); err == nil {
		add("*commands.RegisterConsumer", q)
	}
	if q, err := commands.NewRegistrationAck("sess-2", 1+int64(r.intn(1000)), "nonce"); err == nil {
		add("*commands.RegistrationAck", q)
	}
	if s, err := commands.NewSequencedMessage("sess-1", "m-1", 7, []byte{1, 2, 3}); err == nil {
		add("*commands.SequencedMessage", s)
	}
	for _, fl := range [][2]bool{{true, false}, {false, true}, {false, false}} {
		if s, err := commands.NewChunkedSequencedMessage("sess-1", "m-2", int64(r.intn(50)), []byte{9, 8, byte(r.next())}, fl[0], fl[1]); err == nil {
			add(fmt.Sprintf("*commands.SequencedMessage chunk first=%v last=%v", fl[0], fl[1]), s)
		}
	}
	add("*Toy", &c25Toy{S: str()})
	add("*Toy2", &c25Toy2{S: str()})
	add("*Coll", &c25Coll{S: str()})
	// strings that are not well-formed UTF-8 (a Go string is any byte sequence): lone continuation/0xff bytes,
	// truncated multi-byte sequence, UTF-16 surrogate half, overlong form — as a field, slice element, map key,
	// nested field, and bare
	bad := []string{"\xff\xfe", "ab\xc3", "\xed\xa0\x80", "\xc0\xaf", "ok\x80ok"}
	for i, bs := range bad {
		edge(fmt.Sprintf("string ill-formed utf8 #%d", i), bs)
	}
	edge("*S1 ill-formed utf8 field", &c25S1{ID: 1, Name: bad[r.intn(len(bad))]})
	edge("*S1 ill-formed utf8 slice", &c25S1{ID: 2, Tags: []string{"fine", bad[r.intn(len(bad))]}})
	edge("*S1 ill-formed utf8 map key", &c25S1{ID: 3, M: map[string]int{bad[r.intn(len(bad))]: 7}})
	edge("*S1 ill-formed utf8 nested", &c25S1{ID: 4, In: c25Inner{B: bad[r.intn(len(bad))]}, P: &c25Inner{B: bad[r.intn(len(bad))]}})
	edge("*S2 ill-formed utf8 field", &c25S2{K: bad[r.intn(len(bad))], V: 1})
	edge("*testpb.Reply ill-formed utf8", &testpb.Reply{Content: bad[r.intn(len(bad))]})
	edge("*Toy ill-formed utf8", &c25Toy{S: bad[r.intn(len(bad))]})
	// non-finite floats: a codec must carry them or refuse them, never turn them into another number
	nf := []float64{math.Inf(1), math.Inf(-1), math.NaN()}
	for i, f := range nf {
		edge(fmt.Sprintf("float64 non-finite #%d", i), f)
		edge(fmt.Sprintf("*S1 non-finite field #%d", i), &c25S1{ID: 5, Score: f})
	}
	edge("float32 +Inf", float32(math.Inf(1)))
	edge("*F non-finite slice", &c25F{F: 1.5, L: []float64{1, nf[r.intn(3)], 3}})
	edge("*F non-finite map", &c25F{M: map[string]float64{"a": nf[r.intn(3)], "b": 2}})
	edge("*F non-finite float32", &c25F{G: float32(nf[r.intn(2)])})
	edge("*F finite extremes", &c25F{F: math.MaxFloat64, L: []float64{math.SmallestNonzeroFloat64, -0.0, 1e-310}, G: math.MaxFloat32})
	// unsupported by everything
	add("*Unreg", &c25Unreg{X: 1})
	add("chan", make(chan int))
	add("func", func() {})
	return out
}

func c25Equal(a, b any) bool {
	pa, oka := a.(proto.Message)
	pb, okb := b.(proto.Message)
	if oka && okb {
		return reflect.TypeOf(a) == reflect.TypeOf(b) && proto.Equal(pa, pb)
	}
	if oka != okb {
		return false
	}
	defer func() { _ = recover() }()
	return c25DeepEq(reflect.ValueOf(a), reflect.ValueOf(b))
}

// c25DeepEq is reflect.DeepEqual except that floats are compared as values a codec must preserve:
// NaN equals NaN, and -0 differs from +0 only in sign (treated as equal).
func c25DeepEq(a, b reflect.Value) bool {
	if !a.IsValid() || !b.IsValid() {
		return a.IsValid() == b.IsValid()
	}
	if a.Type() != b.Type() {
		return false
	}
	switch a.Kind() {
	case reflect.Float32, reflect.Float64:
		x, y := a.Float(), b.Float()
		return x == y || (math.IsNaN(x) && math.IsNaN(y))
	case reflect.Pointer, reflect.Interface:
		if a.IsNil() || b.IsNil() {
			return a.IsNil() == b.IsNil()
		}
		return c25DeepEq(a.Elem(), b.Elem())
	case reflect.Struct:
		for i := 0; i < a.NumField(); i++ {
			if !c25DeepEq(a.Field(i), b.Field(i)) {
				return false
			}
		}
		return true
	case reflect.Slice:
		if a.IsNil() != b.IsNil() {
			return false
		}
		fallthrough
	case reflect.Array:
		if a.Len() != b.Len() {
			return false
		}
		for i := 0; i < a.Len(); i++ {
			if !c25DeepEq(a.Index(i), b.Index(i)) {
				return false
			}
		}
		return true
	case reflect.Map:
		if a.IsNil() != b.IsNil() || a.Len() != b.Len() {
			return false
		}
		it := a.MapRange()
		for it.Next() {
			bv := b.MapIndex(it.Key())
			if !bv.IsValid() || !c25DeepEq(it.Value(), bv) {
				return false
			}
		}
		return true
	case reflect.Bool:
		return a.Bool() == b.Bool()
	case reflect.Int, reflect.Int8, reflect.Int16, reflect.Int32, reflect.Int64:
		return a.Int() == b.Int()
	case reflect.Uint, reflect.Uint8, reflect.Uint16, reflect.Uint32, reflect.Uint64, reflect.Uintptr:
		return a.Uint() == b.Uint()
	case reflect.String:
		return a.String() == b.String()
	case reflect.Chan, reflect.Func, reflect.UnsafePointer:
		return a.Pointer() == b.Pointer()
	}
	return false
}

func c25Short(v any) string {
	s := fmt.Sprintf("%+v", v)
	if rv := reflect.ValueOf(v); rv.IsValid() && rv.Kind() == reflect.Pointer && !rv.IsNil() {
		s = fmt.Sprintf("&%+v", rv.Elem().Interface())
	}
	if len(s) > 90 {
		s = s[:90] + "..."
	}
	return s
}

// value of a struct came back as a pointer to an equal struct (documented behaviour of CBOR/JSON Deserialize)
func c25ValueBecamePointer(sent, got any) bool {
	ts := reflect.TypeOf(sent)
	vg := reflect.ValueOf(got)
	if ts == nil || ts.Kind() != reflect.Struct || !vg.IsValid() || vg.Kind() != reflect.Pointer || vg.IsNil() {
		return false
	}
	return vg.Elem().Type() == ts && reflect.DeepEqual(vg.Elem().Interface(), sent)
}

// ---------------------------------------------------------------- records

type c25Case struct {
	I        int
	Entries  []int  // entry kinds, in registration order
	Msg      string // description
	Matches  []bool // per entry: type of the message matches the entry
	IsProto  []bool
	IsIface  []bool
	Ser      []int   // per entry: frame id its Serialize produced, -1 = error
	NFrames  int     // number of distinct frames
	Deser    [][]int // per frame, per entry: message id its Deserialize produced, -1 = error (id 0 = the message itself)
	Fast     []bool  // per frame: frameTypeName ok and the name resolves in the proto registry
	RResolve int     // real resolveSerializer: entry index, -1 = nil
	RDSer    int     // real dispatch.Serialize: frame id, -1 = error, -2 = a frame no entry produced
	RDDeser  []int   // per frame: real dispatch.Deserialize: message id, -1 = error
	Oracle   []string
	Sigs     []string // one stable signature per Oracle line
	Notes    []string
	FrameHex []string `json:",omitempty"`
}

func TestVerifC25(t *testing.T) {
	r := newVerifRNG(verifSeed())
	thorough := os.Getenv("VERIF_TIER") == "thorough"
	kinds := c25EntryKinds()
	// what WithClientSerializers does for concrete non-proto types bound to registry-based serializers
	types.RegisterSerializerType(new(c25S1), remote.NewCBORSerializer())
	types.RegisterSerializerType(new(c25S2), remote.NewJSONSerializer())
	types.RegisterSerializerType(new(c25F), remote.NewCBORSerializer())

	// all ordered selections of 1..4 distinct entry kinds
	var configs [][]int
	var rec func(cur []int)
	rec = func(cur []int) {
		if len(cur) > 0 {
			configs = append(configs, append([]int(nil), cur...))
		}
		if len(cur) == 4 {
			return
		}
		for k := range kinds {
			used := false
			for _, c := range cur {
				if c == k {
					used = true
				}
			}
			if !used {
				rec(append(cur, k))
			}
		}
	}
	rec(nil)

	w := newVerifWriter(t, "c25_cases.jsonl")
	defer w.close()
	msgs := c25Messages(r)
	stride := 1
	if !thorough {
		stride = 9 // quick: every 7th configuration (all sizes and all kinds still occur), rotating with the seed
	}
	start := int(verifSeed() % uint64(stride))
	idx := 0
	nOracle := 0
	for ci := start; ci < len(configs); ci += stride {
		cfg := configs[ci]
		entries := make([]ifaceEntry, len(cfg))
		for j, k := range cfg {
			entries[j] = ifaceEntry{iface: kinds[k].iface, serializer: kinds[k].mk()}
		}
		disp := newSerializerDispatch(entries)
		cl := &client{serializers: entries, dispatcher: disp}
		for mi, m := range msgs {
			// quick tier: each configuration sees a rotating third of the messages
			if !thorough && (mi+ci)%3 != 0 {
				// ... plus every message whose own entry kind is part of this configuration, and the
				// delivery commands whenever the delivery serializer is (they reach it through dispatch.Serialize)
				own := false
				for _, k := range cfg {
					if m.edge && (k == 3 || k == 4 || k == 10) && (mi+ci)%2 == 0 {
						own = true
					}
					if k == m.home || (k == 5 && len(m.Desc) > 10 && m.Desc[:10] == "*commands.") {
						own = true
					}
				}
				if !own {
					continue
				}
			}
			c := c25Case{I: idx, Entries: cfg, Msg: m.Desc, RResolve: -1, RDSer: -1}
			idx++
			func() {
				defer func() {
					if p := recover(); p != nil {
						c.Oracle = append(c.Oracle, fmt.Sprintf("panic: %v", p))
						c.Sigs = append(c.Sigs, "panic")
					}
				}()
				mt := reflect.TypeOf(m.v)
				var frames [][]byte
				frameID := func(b []byte) int {
					for i, f := range frames {
						if bytes.Equal(f, b) {
							return i
						}
					}
					frames = append(frames, append([]byte(nil), b...))
					return len(frames) - 1
				}
				known := []any{m.v}
				msgID := func(v any) int {
					for i, k := range known {
						if c25Equal(k, v) {
							return i
						}
					}
					known = append(known, v)
					return len(known) - 1
				}
				for _, e := range entries {
					if e.iface.Kind() == reflect.Interface {
						c.Matches = append(c.Matches, mt.Implements(e.iface))
					} else {
						c.Matches = append(c.Matches, mt == e.iface)
					}
					_, isP := e.serializer.(*remote.ProtoSerializer)
					c.IsProto = append(c.IsProto, isP)
					c.IsIface = append(c.IsIface, e.iface.Kind() == reflect.Interface)
					b, err := e.serializer.Serialize(m.v)
					if err != nil {
						c.Ser = append(c.Ser, -1)
					} else {
						c.Ser = append(c.Ser, frameID(b))
					}
				}
				// real send path
				rs := cl.resolveSerializer(m.v)
				for j, e := range entries {
					if rs == nil {
						break
					}
					if _, tagged := e.serializer.(*c25Tagged); tagged {
						if rs == e.serializer {
							c.RResolve = j
							break
						}
					} else if reflect.TypeOf(rs) == reflect.TypeOf(e.serializer) {
						c.RResolve = j // proto, delivery and toy serializers: one entry kind each
						break
					}
				}
				var sent []byte
				var sendErr error
				if rs != nil {
					sent, sendErr = rs.Serialize(m.v)
					if sendErr == nil {
						frameID(sent)
					}
				}
				// real dispatch.Serialize
				db, derr := disp.Serialize(m.v)
				if derr == nil {
					found := -2
					for i, f := range frames {
						if bytes.Equal(f, db) {
							found = i
						}
					}
					// map-iteration order can make two encodings of the same message differ byte-wise
					if found == -2 {
						found = frameID(db)
						c.Notes = append(c.Notes, "dispatch.Serialize produced bytes no single entry produced (re-encoding with another map order)")
					}
					c.RDSer = found
				}
				c.NFrames = len(frames)
				for _, f := range frames {
					row := make([]int, len(entries))
					for j, e := range entries {
						v, err := e.serializer.Deserialize(f)
						if err != nil {
							row[j] = -1
						} else {
							row[j] = msgID(v)
						}
					}
					c.Deser = append(c.Deser, row)
					name, ok := frameTypeName(f)
					fast := false
					if ok {
						if _, err := inet.FindMessageType(name); err == nil {
							fast = true
						}
					}
					c.Fast = append(c.Fast, fast)
					v, err := disp.Deserialize(f)
					if err != nil {
						c.RDDeser = append(c.RDDeser, -1)
					} else {
						c.RDDeser = append(c.RDDeser, msgID(v))
					}
				}
				// ---- the property's oracle
				fail := func(sig, f string, a ...any) {
					c.Oracle = append(c.Oracle, fmt.Sprintf(f, a...))
					c.Sigs = append(c.Sigs, sig)
				}
				kindName := func(j int) string {
					if j < 0 {
						return "none"
					}
					return kinds[cfg[j]].Name
				}
				isRegistryBased := func(j int) string { // "cbor" / "json" / ""
					if j < 0 {
						return ""
					}
					if tg, ok := entries[j].serializer.(*c25Tagged); ok {
						if _, ok := tg.Serializer.(*remote.CBORSerializer); ok {
							return "cbor"
						}
						return "json"
					}
					return ""
				}
				// the entry that takes a frame on the receiving side: the first, in registration order, that accepts it
				taker := func(f []byte) int {
					for i, fr := range frames {
						if bytes.Equal(fr, f) {
							for j := range entries {
								if c.Deser[i][j] >= 0 {
									return j
								}
							}
						}
					}
					return -1
				}
				singleDigitPayload := func(f []byte) bool {
					if len(f) < 9 {
						return false
					}
					nl := int(f[4])<<24 | int(f[5])<<16 | int(f[6])<<8 | int(f[7])
					return 8+nl+1 == len(f) && f[len(f)-1] >= '0' && f[len(f)-1] <= '9'
				}
				toyMsg := m.Desc == "*Toy2" // toyA deliberately accepts toyB's frames: a witness for the model, not a goakt defect
				if rs != nil && sendErr == nil && !toyMsg {
					got, err := disp.Deserialize(sent)
					tk := taker(sent)
					sig := "roundtrip:" + kindName(c.RResolve)
					if a, b := isRegistryBased(c.RResolve), isRegistryBased(tk); a != "" && b != "" && a != b && tk < c.RResolve && singleDigitPayload(sent) {
						sig = "serializerDispatch.Deserialize:cbor-json-cross-acceptance-single-digit-payload"
					}
					switch {
					case err != nil:
						fail(sig, "roundtrip: %s sent with entry #%d (%s) is rejected by the receiving dispatcher: %v", m.Desc, c.RResolve, kindName(c.RResolve), err)
					case c25Equal(got, m.v):
					case c25ValueBecamePointer(m.v, got):
						c.Notes = append(c.Notes, "struct value came back as pointer (documented)")
					default:
						fail(sig, "roundtrip: %s sent with entry #%d (%s) came back as %T %s through entry #%d (%s)", m.Desc, c.RResolve, kindName(c.RResolve), got, c25Short(got), tk, kindName(tk))
					}
				}
				if derr == nil && !toyMsg {
					got, err := disp.Deserialize(db)
					if err != nil || !(c25Equal(got, m.v) || c25ValueBecamePointer(m.v, got)) {
						sig := "dispatch-roundtrip"
						tk := taker(db)
						first := -1
						for j, sj := range c.Ser {
							if sj >= 0 {
								first = j
								break
							}
						}
						if a, b := isRegistryBased(first), isRegistryBased(tk); a != "" && b != "" && a != b && tk < first && singleDigitPayload(db) {
							sig = "serializerDispatch.Deserialize:cbor-json-cross-acceptance-single-digit-payload"
						}
						fail(sig, "dispatch-roundtrip: Deserialize(Serialize(%s)) = %T %s, err=%v", m.Desc, got, c25Short(got), err)
					}
				}
				// chosen by type: an entry registered for exactly this dynamic type must win over interface entries
				for j, e := range entries {
					if e.iface.Kind() != reflect.Interface && e.iface == mt {
						if c.RResolve != j {
							sig := "chosen-by-type:other"
							if c.RResolve >= 0 && c.RResolve < j && entries[c.RResolve].iface.Kind() == reflect.Interface {
								sig = "resolveSerializer:earlier-interface-entry-shadows-exact-type" // the defect repaired in /repo (fix: resolveSerializer prefers the exact concrete type)
							}
							fail(sig, "chosen-by-type: %s has an entry for its exact type (#%d %s) but resolveSerializer chose #%d (%s)", m.Desc, j, kinds[cfg[j]].Name, c.RResolve, kindName(c.RResolve))
						}
						break
					}
				}
				// no entry matches => no serializer; some entry matches => never nil
				anyMatch := false
				for _, mm := range c.Matches {
					anyMatch = anyMatch || mm
				}
				if anyMatch != (rs != nil) {
					fail("chosen-by-type:nil", "chosen-by-type: %s: some entry matches = %v but resolveSerializer returned nil = %v", m.Desc, anyMatch, rs == nil)
				}
				// unsupported => error
				allFail := true
				for _, s := range c.Ser {
					if s >= 0 {
						allFail = false
					}
				}
				if allFail && derr == nil {
					fail("unsupported:bytes", "unsupported: dispatch.Serialize returned bytes although every registered serializer refuses %s", m.Desc)
				}
				if len(c.Oracle) > 0 && nOracle < 40 {
					nOracle++
					for _, f := range frames {
						c.FrameHex = append(c.FrameHex, fmt.Sprintf("%x", f))
					}
				}
			}()
			w.put(c)
		}
	}
}
