//go:build verif

package net

// C23 harness: runs the REAL frame/metadata codecs, the client format heuristic, readProtoFrame and
// ProtoServer.handleConn on generated messages, metadata and a malformed stream. It writes
//   c23_known.json    every message name registered in protoregistry.GlobalTypes
//   c23_cases.jsonl   one decode case per line (bytes, real results, protobuf probe table, oracle failures)
//   c23_streams.jsonl concatenated-frame streams read through chunked readers
//   c23_misc.json     allocation measurements and the replays of the stated limits
// checks/C23.py evaluates the Coq model on the same bytes and compares.

import (
	"bytes"
	"context"
	"encoding/binary"
	"encoding/hex"
	"errors"
	"fmt"
	"io"
	"math"
	stdnet "net"
	"os"
	"path/filepath"
	"runtime"
	"sort"
	"strings"
	"testing"
	"time"

	"encoding/json"

	"google.golang.org/protobuf/proto"
	"google.golang.org/protobuf/reflect/protoreflect"
	"google.golang.org/protobuf/reflect/protoregistry"

	_ "github.com/tochemey/goakt/v4/internal/internalpb"
	_ "github.com/tochemey/goakt/v4/test/data/testpb"
)

// ---------------------------------------------------------------- result records

type c23Probe struct {
	NLo, NHi, PLo, PHi int
	Ok                 bool
	ID                 uint64
}

type c23Res struct {
	Dec      int // 1 UnmarshalBinary, 2 UnmarshalBinaryWithMetadata, 3 client unmarshalProtoResponse, 4 server handleConn, 5 Metadata.UnmarshalBinary
	Class    int // 0 ok, 1 ErrInvalidMessageLength, 2 ErrUnknownMessageType, 3 ErrInvalidMetadata, 4 ErrUnmarshalBinaryFailed, 5 PANIC, 6 other error, 9 connection closed (server)
	Name     string
	ID       uint64
	HasMD    bool
	Hdrs     [][2]string
	Deadline int64
	Lo, Hi   int64
	Panic    string `json:",omitempty"`
}

type c23Case struct {
	I      int
	Kind   string
	Data   string
	Probes []c23Probe
	Res    []c23Res
	Oracle []string
}

type c23Stream struct {
	I       int
	Kind    string
	Data    string
	Max     uint32
	Pool    bool
	Chunks  []int
	Probes  []c23Probe
	Frames  []int
	Content bool // every returned frame equals the corresponding slice of the stream
	End     int  // 0 io.EOF, 1 io.ErrUnexpectedEOF, 2 ErrInvalidMessageLength, 3 ErrFrameTooLarge, 4 PANIC, 5 other
	CapOK   bool // len(frame)==total and cap(frame) <= max(256, 2*total) for every returned frame
	Served  []c23Res
	Lo, Hi  int64
	Oracle  []string
}

// ---------------------------------------------------------------- message identity

type c23IDs struct {
	m map[string]uint64
}

func (x *c23IDs) of(msg proto.Message) uint64 {
	b, err := proto.MarshalOptions{Deterministic: true}.Marshal(msg)
	if err != nil {
		b = []byte("marshal-error:" + err.Error())
	}
	k := string(proto.MessageName(msg)) + "\x00" + string(b)
	if id, ok := x.m[k]; ok {
		return id
	}
	id := uint64(len(x.m) + 1)
	x.m[k] = id
	return id
}

// ---------------------------------------------------------------- generators

func c23MessageTypes() []protoreflect.MessageType {
	var out []protoreflect.MessageType
	protoregistry.GlobalTypes.RangeMessages(func(mt protoreflect.MessageType) bool {
		n := string(mt.Descriptor().FullName())
		if strings.HasPrefix(n, "internalpb.") || strings.HasPrefix(n, "testpb.") {
			if !mt.Descriptor().IsMapEntry() {
				out = append(out, mt)
			}
		}
		return true
	})
	sort.Slice(out, func(i, j int) bool { return out[i].Descriptor().FullName() < out[j].Descriptor().FullName() })
	return out
}

func c23Int(r *verifRNG, bits uint) int64 {
	switch r.intn(8) {
	case 0:
		return 0
	case 1:
		return 1
	case 2:
		return -1
	case 3:
		return int64(1)<<(bits-1) - 1
	case 4:
		return -(int64(1) << (bits - 1))
	case 5:
		return int64(r.intn(300))
	default:
		v := int64(r.next())
		if bits < 64 {
			v >>= (64 - bits)
		}
		return v
	}
}

func c23String(r *verifRNG) string {
	n := []int{0, 1, 2, 5, 13, 40, 200}[r.intn(7)]
	alpha := "abcXYZ019-_/.:é世"
	rs := []rune(alpha)
	var sb strings.Builder
	for i := 0; i < n; i++ {
		sb.WriteRune(rs[r.intn(len(rs))])
	}
	return sb.String()
}

func c23Bytes(r *verifRNG, max int) []byte {
	n := []int{0, 1, 3, 8, 31, 100}[r.intn(6)]
	if n > max {
		n = max
	}
	b := make([]byte, n)
	for i := range b {
		b[i] = byte(r.next())
	}
	return b
}

func c23Scalar(r *verifRNG, fd protoreflect.FieldDescriptor, depth int) protoreflect.Value {
	switch fd.Kind() {
	case protoreflect.BoolKind:
		return protoreflect.ValueOfBool(r.intn(2) == 1)
	case protoreflect.EnumKind:
		vs := fd.Enum().Values()
		return protoreflect.ValueOfEnum(vs.Get(r.intn(vs.Len())).Number())
	case protoreflect.Int32Kind, protoreflect.Sint32Kind, protoreflect.Sfixed32Kind:
		return protoreflect.ValueOfInt32(int32(c23Int(r, 32)))
	case protoreflect.Int64Kind, protoreflect.Sint64Kind, protoreflect.Sfixed64Kind:
		return protoreflect.ValueOfInt64(c23Int(r, 64))
	case protoreflect.Uint32Kind, protoreflect.Fixed32Kind:
		return protoreflect.ValueOfUint32(uint32(c23Int(r, 32)))
	case protoreflect.Uint64Kind, protoreflect.Fixed64Kind:
		return protoreflect.ValueOfUint64(uint64(c23Int(r, 64)))
	case protoreflect.FloatKind:
		return protoreflect.ValueOfFloat32([]float32{0, 1.5, -2.25, math.MaxFloat32, float32(math.Inf(1))}[r.intn(5)])
	case protoreflect.DoubleKind:
		return protoreflect.ValueOfFloat64([]float64{0, 1.5, -2.25, math.MaxFloat64, math.Inf(-1), 1e-300}[r.intn(6)])
	case protoreflect.StringKind:
		return protoreflect.ValueOfString(c23String(r))
	case protoreflect.BytesKind:
		return protoreflect.ValueOfBytes(c23Bytes(r, 100))
	}
	panic("unreachable kind " + fd.Kind().String())
}

func c23Fill(r *verifRNG, m protoreflect.Message, depth int) {
	fds := m.Descriptor().Fields()
	for i := 0; i < fds.Len(); i++ {
		fd := fds.Get(i)
		if r.intn(4) == 0 {
			continue
		}
		if od := fd.ContainingOneof(); od != nil && !od.IsSynthetic() {
			// at most one member of a real oneof: choose by index
			if r.intn(od.Fields().Len()) != 0 && m.WhichOneof(od) != nil {
				continue
			}
		}
		switch {
		case fd.IsMap():
			if depth <= 0 && (fd.MapValue().Kind() == protoreflect.MessageKind || fd.MapValue().Kind() == protoreflect.GroupKind) {
				continue
			}
			mp := m.Mutable(fd).Map()
			n := r.intn(4)
			for j := 0; j < n; j++ {
				k := c23Scalar(r, fd.MapKey(), depth).MapKey()
				if fd.MapValue().Kind() == protoreflect.MessageKind {
					v := mp.NewValue()
					c23Fill(r, v.Message(), depth-1)
					mp.Set(k, v)
				} else {
					mp.Set(k, c23Scalar(r, fd.MapValue(), depth))
				}
			}
		case fd.IsList():
			if depth <= 0 && (fd.Kind() == protoreflect.MessageKind || fd.Kind() == protoreflect.GroupKind) {
				continue
			}
			l := m.Mutable(fd).List()
			n := r.intn(4)
			for j := 0; j < n; j++ {
				if fd.Kind() == protoreflect.MessageKind || fd.Kind() == protoreflect.GroupKind {
					v := l.NewElement()
					c23Fill(r, v.Message(), depth-1)
					l.Append(v)
				} else {
					l.Append(c23Scalar(r, fd, depth))
				}
			}
		case fd.Kind() == protoreflect.MessageKind || fd.Kind() == protoreflect.GroupKind:
			if depth <= 0 {
				continue
			}
			c23Fill(r, m.Mutable(fd).Message(), depth-1)
		default:
			m.Set(fd, c23Scalar(r, fd, depth))
		}
	}
}

type c23MD struct {
	hdrs     map[string]string
	deadline int64
}

func c23GenMD(r *verifRNG, big bool) *c23MD {
	md := &c23MD{hdrs: map[string]string{}}
	n := []int{0, 0, 1, 1, 2, 3, 7, 20}[r.intn(8)]
	lens := []int{0, 1, 2, 3, 9, 30, 255, 256, 300}
	for i := 0; i < n; i++ {
		kl := lens[r.intn(len(lens))]
		vl := lens[r.intn(len(lens))]
		if big && i == 0 {
			if r.intn(2) == 0 {
				kl = 65535
			} else {
				vl = 65535
			}
		}
		k := make([]byte, kl)
		for j := range k {
			k[j] = byte(r.next())
		}
		// a run of equal bytes keeps the generated Coq case small
		if kl > 64 {
			for j := 8; j < kl; j++ {
				k[j] = 'k'
			}
		}
		v := make([]byte, vl)
		for j := range v {
			v[j] = byte(r.next())
		}
		if vl > 64 {
			for j := 8; j < vl; j++ {
				v[j] = 'v'
			}
		}
		md.hdrs[string(k)] = string(v)
	}
	now := time.Now().UnixNano()
	switch r.intn(7) {
	case 0, 1:
		md.deadline = 0
	case 2:
		md.deadline = now + int64(r.intn(1_000_000_000))
	case 3:
		md.deadline = now - int64(r.intn(1_000_000_000)) - 1
	case 4:
		md.deadline = now + 3600_000_000_000
	case 5:
		md.deadline = 1 // 1970: long past
	default:
		md.deadline = now + int64(r.intn(2000)) - 1000
	}
	return md
}

func (x *c23MD) real() *Metadata {
	m := NewMetadata()
	for k, v := range x.hdrs {
		m.Set(k, v)
	}
	m.deadlineNano = x.deadline
	return m
}

// ---------------------------------------------------------------- running the real decoders

func c23Class(err error) int {
	switch {
	case err == nil:
		return 0
	case errors.Is(err, ErrInvalidMessageLength):
		return 1
	case errors.Is(err, ErrUnknownMessageType):
		return 2
	case errors.Is(err, ErrInvalidMetadata):
		return 3
	case errors.Is(err, ErrUnmarshalBinaryFailed):
		return 4
	}
	return 6
}

func c23SortedHdrs(md *Metadata) [][2]string {
	out := make([][2]string, 0, len(md.headers))
	for k, v := range md.headers {
		out = append(out, [2]string{hex.EncodeToString([]byte(k)), hex.EncodeToString([]byte(v))})
	}
	sort.Slice(out, func(i, j int) bool {
		a, _ := hex.DecodeString(out[i][0])
		b, _ := hex.DecodeString(out[j][0])
		return bytes.Compare(a, b) < 0
	})
	return out
}

func c23Fillres(res *c23Res, ids *c23IDs, msg proto.Message, md *Metadata, name string) {
	res.Name = hex.EncodeToString([]byte(name))
	res.ID = ids.of(msg)
	if md != nil {
		res.HasMD = true
		res.Hdrs = c23SortedHdrs(md)
		res.Deadline = md.deadlineNano
	}
}

type c23Env struct {
	ser     *ProtoSerializer
	client  *Client
	ps      *ProtoServer
	ids     *c23IDs
	served  *[]c23Res
	scratch *FramePool
}

func c23NewEnv(t *testing.T) *c23Env {
	e := &c23Env{ser: NewProtoSerializer(), ids: &c23IDs{m: map[string]uint64{}}, scratch: NewFramePool()}
	e.client = &Client{serializer: NewProtoSerializer(), framePool: NewFramePool(), maxFrameSize: defaultMaxFrameSize}
	served := []c23Res{}
	e.served = &served
	ps, err := NewProtoServer("127.0.0.1:0", WithFallbackProtoHandler(func(ctx context.Context, _ Connection, req proto.Message) (proto.Message, error) {
		var r c23Res
		r.Dec = 4
		md, _ := FromContext(ctx)
		c23Fillres(&r, e.ids, req, md, string(proto.MessageName(req)))
		*e.served = append(*e.served, r)
		return nil, nil
	}))
	if err != nil {
		t.Fatalf("NewProtoServer: %v", err)
	}
	e.ps = ps
	return e
}

type c23FakeConn struct {
	r      io.Reader
	w      bytes.Buffer
	chunks []int
	ci     int
}

func (c *c23FakeConn) Read(p []byte) (int, error) {
	if len(c.chunks) > 0 && len(p) > 0 {
		n := c.chunks[c.ci%len(c.chunks)]
		c.ci++
		if n < 1 {
			n = 1
		}
		if n < len(p) {
			p = p[:n]
		}
	}
	return c.r.Read(p)
}
func (c *c23FakeConn) Write(p []byte) (int, error)      { return c.w.Write(p) }
func (c *c23FakeConn) Close() error                     { return nil }
func (c *c23FakeConn) LocalAddr() stdnet.Addr           { return &stdnet.TCPAddr{} }
func (c *c23FakeConn) RemoteAddr() stdnet.Addr          { return &stdnet.TCPAddr{} }
func (c *c23FakeConn) SetDeadline(time.Time) error      { return nil }
func (c *c23FakeConn) SetReadDeadline(time.Time) error  { return nil }
func (c *c23FakeConn) SetWriteDeadline(time.Time) error { return nil }

// serve feeds stream to the real handleConn and returns what the handler saw.
func (e *c23Env) serve(stream []byte, max uint32, chunks []int) (out []c23Res, lo, hi int64, panicked string) {
	*e.served = (*e.served)[:0]
	e.ps.maxFrameSize = max
	conn := &TCPConn{Conn: &c23FakeConn{r: bytes.NewReader(stream), chunks: chunks}}
	lo = time.Now().UnixNano()
	func() {
		defer func() {
			if r := recover(); r != nil {
				panicked = fmt.Sprint(r)
			}
		}()
		e.ps.handleConn(conn)
	}()
	hi = time.Now().UnixNano()
	out = append(out, *e.served...)
	return
}

func (e *c23Env) decode(dec int, data []byte) (res c23Res) {
	res.Dec = dec
	// frames live in pooled, reused buffers in production: decode from one, give it back afterwards
	buf := e.scratch.Get(len(data))
	copy(buf, data)
	defer e.scratch.Put(buf)
	defer func() {
		if r := recover(); r != nil {
			res = c23Res{Dec: dec, Class: 5, Panic: fmt.Sprint(r)}
		}
	}()
	res.Lo = time.Now().UnixNano()
	switch dec {
	case 1:
		msg, name, err := e.ser.UnmarshalBinary(buf)
		res.Hi = time.Now().UnixNano()
		res.Class = c23Class(err)
		if err == nil {
			c23Fillres(&res, e.ids, msg, nil, string(name))
		}
	case 2:
		msg, md, name, err := e.ser.UnmarshalBinaryWithMetadata(buf)
		res.Hi = time.Now().UnixNano()
		res.Class = c23Class(err)
		if err == nil {
			c23Fillres(&res, e.ids, msg, md, string(name))
		}
	case 3:
		msg, md, err := e.client.unmarshalProtoResponse(buf)
		res.Hi = time.Now().UnixNano()
		res.Class = c23Class(err)
		if err == nil {
			c23Fillres(&res, e.ids, msg, md, string(proto.MessageName(msg)))
		}
	case 4:
		// the frame reaches the format detection of handleConn only if readProtoFrame's own checks pass
		served, lo, hi, p := e.serve(buf, 1<<20, nil)
		res.Lo, res.Hi = lo, hi
		if p != "" {
			return c23Res{Dec: dec, Class: 5, Panic: p}
		}
		if len(served) == 0 {
			res.Class = 9
		} else {
			res = served[0]
			res.Lo, res.Hi = lo, hi
		}
	case 5:
		md := &Metadata{}
		err := md.UnmarshalBinary(buf)
		res.Hi = time.Now().UnixNano()
		res.Class = c23Class(err)
		if err == nil {
			res.HasMD = true
			res.Hdrs = c23SortedHdrs(md)
			res.Deadline = md.deadlineNano
		}
	}
	if !bytes.Equal(buf, data) {
		res.Class = 6
		res.Panic = "decoder modified its input"
	}
	return res
}

// probes: the candidate (name, payload) slices of data under both layouts, with the verdict of the
// real registry + real protobuf on them. Only a cache for the model's pb_dec parameter: the model
// decides which slice it asks for, a miss is reported by the check.
func (e *c23Env) probes(data []byte, off int) (out []c23Probe) {
	add := func(nlo, nhi, plo, phi int) {
		p := c23Probe{NLo: off + nlo, NHi: off + nhi, PLo: off + plo, PHi: off + phi}
		mt, err := protoregistry.GlobalTypes.FindMessageByName(protoreflect.FullName(data[nlo:nhi]))
		if err == nil {
			msg := mt.New().Interface()
			if proto.Unmarshal(data[plo:phi], msg) == nil {
				p.Ok = true
				p.ID = e.ids.of(msg)
			}
		}
		out = append(out, p)
	}
	if len(data) < 8 {
		return
	}
	ml := int(binary.BigEndian.Uint32(data[0:4]))
	nl := int(binary.BigEndian.Uint32(data[4:8]))
	if ml > len(data) || ml < 8 {
		return
	}
	if 8+nl <= ml {
		add(8, 8+nl, 8+nl, ml)
	}
	if ml >= 12 {
		mdl := int(binary.BigEndian.Uint32(data[8:12]))
		if 12+nl+mdl <= ml {
			add(12, 12+nl, 12+nl+mdl, ml)
		}
	}
	return
}

func (e *c23Env) runCase(i int, kind string, data []byte, decs []int) c23Case {
	c := c23Case{I: i, Kind: kind, Data: hex.EncodeToString(data)}
	c.Probes = e.probes(data, 0)
	for _, d := range decs {
		c.Res = append(c.Res, e.decode(d, data))
	}
	for _, r := range c.Res {
		if r.Class == 5 {
			c.Oracle = append(c.Oracle, fmt.Sprintf("decoder %d panicked: %s", r.Dec, r.Panic))
		}
		if r.Class == 6 && r.Panic != "" {
			c.Oracle = append(c.Oracle, fmt.Sprintf("decoder %d: %s", r.Dec, r.Panic))
		}
	}
	return c
}

// ---------------------------------------------------------------- round-trip oracle

func c23HdrsEqual(md *c23MD, got [][2]string) bool {
	if len(got) != len(md.hdrs) {
		return false
	}
	for _, kv := range got {
		k, _ := hex.DecodeString(kv[0])
		v, _ := hex.DecodeString(kv[1])
		w, ok := md.hdrs[string(k)]
		if !ok || w != string(v) {
			return false
		}
	}
	return true
}

// ---------------------------------------------------------------- mutations

type c23Mut struct {
	kind string
	data []byte
}

func c23Put32(b []byte, off int, v uint32) []byte {
	o := append([]byte(nil), b...)
	if off+4 <= len(o) {
		binary.BigEndian.PutUint32(o[off:], v)
	}
	return o
}

func c23Mutations(r *verifRNG, f []byte, isMD bool) []c23Mut {
	var out []c23Mut
	n := len(f)
	// truncations: every short prefix, the last bytes, a few random cuts
	cuts := []int{0, 1, 3, 4, 5, 7, 8, 9, 11, 12, 13, n - 1, n - 2}
	for j := 0; j < 3; j++ {
		cuts = append(cuts, r.intn(n))
	}
	for _, k := range cuts {
		if k >= 0 && k < n {
			out = append(out, c23Mut{"trunc", append([]byte(nil), f[:k]...)})
		}
	}
	// trailing bytes
	out = append(out, c23Mut{"extend", append(append([]byte(nil), f...), c23Bytes(r, 8)...)})
	// length fields
	total := binary.BigEndian.Uint32(f[0:4])
	nl := binary.BigEndian.Uint32(f[4:8])
	for _, v := range []uint32{0, 7, 8, 11, 12, total - 1, total + 1, total + 4, nl, 1 << 31, math.MaxUint32} {
		out = append(out, c23Mut{"total", c23Put32(f, 0, v)})
	}
	for _, v := range []uint32{0, 1, nl - 1, nl + 1, nl + 4, total, total - 8, total - 12, total - 7, 255, 256, 1 << 31, math.MaxUint32, math.MaxUint32 - 11} {
		out = append(out, c23Mut{"namelen", c23Put32(f, 4, v)})
	}
	if isMD && n >= 12 {
		ml := binary.BigEndian.Uint32(f[8:12])
		for _, v := range []uint32{0, 1, 9, 10, ml - 1, ml + 1, total - 12 - nl, total - 11 - nl, total, 1 << 31, math.MaxUint32, math.MaxUint32 - 12 - nl} {
			out = append(out, c23Mut{"metalen", c23Put32(f, 8, v)})
		}
		// inside the metadata block: count and first key length
		ms := 12 + int(nl)
		if ms+4 <= n && ml >= 10 {
			for _, v := range []uint16{0, 1, 2, 255, 65535} {
				o := append([]byte(nil), f...)
				binary.BigEndian.PutUint16(o[ms:], v)
				out = append(out, c23Mut{"mdcount", o})
			}
			for _, v := range []uint16{0, 1, 255, uint16(ml), 65535} {
				o := append([]byte(nil), f...)
				binary.BigEndian.PutUint16(o[ms+2:], v)
				out = append(out, c23Mut{"mdkeylen", o})
			}
		}
	}
	// byte flips
	for j := 0; j < 6; j++ {
		o := append([]byte(nil), f...)
		for k := 0; k <= r.intn(3); k++ {
			o[r.intn(n)] ^= byte(1 << uint(r.intn(8)))
		}
		out = append(out, c23Mut{"flip", o})
	}
	// the other layout's header spliced in
	if !isMD {
		o := append(append([]byte(nil), f[:8]...), 0, 0, 0, 0)
		o = append(o, f[8:]...)
		out = append(out, c23Mut{"splice", c23Put32(o, 0, total+4)})
	}
	return out
}

func c23MDMutations(r *verifRNG, b []byte) []c23Mut {
	var out []c23Mut
	n := len(b)
	for _, k := range []int{0, 1, 2, 9, 10, 11, n - 1, n - 8, n - 9, r.intn(n + 1)} {
		if k >= 0 && k <= n {
			out = append(out, c23Mut{"md-trunc", append([]byte(nil), b[:k]...)})
		}
	}
	for _, v := range []uint16{0, 1, 2, 3, 255, 65535} {
		o := append([]byte(nil), b...)
		binary.BigEndian.PutUint16(o[0:], v)
		out = append(out, c23Mut{"md-count", o})
	}
	for j := 0; j < 6; j++ {
		o := append([]byte(nil), b...)
		o[r.intn(n)] ^= byte(1 << uint(r.intn(8)))
		out = append(out, c23Mut{"md-flip", o})
	}
	// duplicate keys (last one wins) and trailing garbage
	dup := []byte{0, 2, 0, 1, 'a', 0, 1, 'x', 0, 1, 'a', 0, 2, 'y', 'z', 0, 0, 0, 0, 0, 0, 0, 5}
	out = append(out, c23Mut{"md-dup", dup})
	out = append(out, c23Mut{"md-trail", append(append([]byte(nil), b...), 1, 2, 3)})
	return out
}

// ---------------------------------------------------------------- the test

func TestVerifC23(t *testing.T) {
	dir := verifOutDir(t)
	r := newVerifRNG(verifSeed())
	thorough := os.Getenv("VERIF_TIER") == "thorough"
	nRT, nMal, nStreams := 200, 600, 50
	if thorough {
		nRT, nMal, nStreams = 1200, 6000, 400
	}
	nRT = verifEnvInt("VERIF_C23_RT", nRT)
	nMal = verifEnvInt("VERIF_C23_MAL", nMal)
	e := c23NewEnv(t)
	types := c23MessageTypes()
	if len(types) < 20 {
		t.Fatalf("only %d message types found", len(types))
	}

	// registered names
	var known []string
	protoregistry.GlobalTypes.RangeMessages(func(mt protoreflect.MessageType) bool {
		known = append(known, hex.EncodeToString([]byte(mt.Descriptor().FullName())))
		return true
	})
	sort.Strings(known)
	kb, _ := json.Marshal(known)
	if err := os.WriteFile(filepath.Join(dir, "c23_known.json"), kb, 0o644); err != nil {
		t.Fatal(err)
	}

	w := newVerifWriter(t, "c23_cases.jsonl")
	defer w.close()
	idx := 0
	type validFrame struct {
		data []byte
		isMD bool
		msg  proto.Message
		md   *c23MD
	}
	var valid []validFrame
	var mdBlocks [][]byte
	pool := NewFramePool()
	typesSeen := map[string]bool{}

	for i := 0; i < nRT; i++ {
		mt := types[i%len(types)]
		msg := mt.New()
		c23Fill(r, msg, 3)
		m := msg.Interface()
		typesSeen[string(mt.Descriptor().FullName())] = true
		withMD := r.intn(5) < 3
		var md *c23MD
		var frame []byte
		var err error
		encLo := time.Now().UnixNano()
		if withMD {
			md = c23GenMD(r, i%40 == 7)
			if r.intn(2) == 0 {
				frame, err = e.ser.MarshalBinaryWithMetadata(m, md.real())
			} else {
				frame, err = e.ser.MarshalBinaryWithMetadataTo(pool, m, md.real())
			}
		} else {
			if r.intn(2) == 0 {
				frame, err = e.ser.MarshalBinary(m)
			} else {
				frame, err = e.ser.MarshalBinaryTo(pool, m)
			}
		}
		encHi := time.Now().UnixNano()
		if err != nil {
			t.Fatalf("marshal %s: %v", mt.Descriptor().FullName(), err)
		}
		frame = append([]byte(nil), frame...)
		kind := "rt-legacy"
		decs := []int{1, 2, 3, 4}
		if withMD {
			kind = "rt-md"
			// the metadata block of this frame, for the direct metadata decoder
			nl := int(binary.BigEndian.Uint32(frame[4:8]))
			ml := int(binary.BigEndian.Uint32(frame[8:12]))
			if 12+nl+ml <= len(frame) {
				mdBlocks = append(mdBlocks, append([]byte(nil), frame[12+nl:12+nl+ml]...))
			}
		}
		c := e.runCase(idx, kind, frame, decs)
		idx++
		// ---- the property's own oracle on the real code
		wantID := e.ids.of(m)
		wantName := hex.EncodeToString([]byte(proto.MessageName(m)))
		check := func(res c23Res, wantMD bool) {
			tag := fmt.Sprintf("%s decoder %d type %s", kind, res.Dec, proto.MessageName(m))
			if res.Class != 0 {
				c.Oracle = append(c.Oracle, fmt.Sprintf("%s: decode of an encoded frame failed with class %d", tag, res.Class))
				return
			}
			if res.ID != wantID || res.Name != wantName {
				c.Oracle = append(c.Oracle, tag+": decoded message or type name differs from the encoded one")
			}
			if wantMD != res.HasMD {
				c.Oracle = append(c.Oracle, fmt.Sprintf("%s: metadata presence %v, want %v", tag, res.HasMD, wantMD))
				return
			}
			if wantMD {
				if !c23HdrsEqual(md, res.Hdrs) {
					c.Oracle = append(c.Oracle, tag+": headers differ")
				}
				if md.deadline == 0 {
					if res.Deadline != 0 {
						c.Oracle = append(c.Oracle, tag+": deadline appeared from nowhere")
					}
				} else {
					d := res.Deadline - md.deadline
					if d < res.Lo-encHi-1 || d > res.Hi-encLo {
						c.Oracle = append(c.Oracle, fmt.Sprintf("%s: deadline moved by %dns, clocks allow [%d,%d]", tag, d, res.Lo-encHi-1, res.Hi-encLo))
					}
				}
			}
		}
		for _, res := range c.Res {
			switch {
			case !withMD && res.Dec == 2:
				// legacy frame through the metadata decoder: not part of the property (tie only)
			case withMD && res.Dec == 1:
			default:
				check(res, withMD)
			}
		}
		if uint32(len(frame)) != binary.BigEndian.Uint32(frame[0:4]) {
			c.Oracle = append(c.Oracle, kind+": total length field differs from the frame length")
		}
		w.put(c)
		valid = append(valid, validFrame{frame, withMD, m, md})
	}

	// corpus first (minimised interesting inputs, /verif/corpus/C23/frames.txt)
	if cp := os.Getenv("VERIF_CORPUS"); cp != "" {
		if raw, err := os.ReadFile(filepath.Join(cp, "C23", "frames.txt")); err == nil {
			for _, line := range strings.Split(string(raw), "\n") {
				line = strings.TrimSpace(line)
				if line == "" || line[0] == '#' {
					continue
				}
				parts := strings.SplitN(line, ":", 2)
				if len(parts) != 2 {
					continue
				}
				data, err := hex.DecodeString(strings.ReplaceAll(parts[1], " ", ""))
				if err != nil {
					t.Fatalf("corpus line %q: %v", line, err)
				}
				var decs []int
				for _, ch := range parts[0] {
					decs = append(decs, int(ch-'0'))
				}
				w.put(e.runCase(idx, "corpus", data, decs))
				idx++
			}
		}
	}

	// encoder refusals
	{
		_, err1 := e.ser.MarshalBinary(nil)
		_, err2 := e.ser.MarshalBinaryWithMetadata(nil, NewMetadata())
		c := c23Case{I: idx, Kind: "nil-message"}
		idx++
		if !errors.Is(err1, ErrUnknownMessageType) || !errors.Is(err2, ErrUnknownMessageType) {
			c.Oracle = append(c.Oracle, "nil message accepted by the encoder")
		}
		w.put(c)
	}

	// ---- malformed stream
	small := func(f validFrame) bool { return len(f.data) <= 600 }
	nm := 0
	for nm < nMal {
		f := valid[r.intn(len(valid))]
		if !small(f) {
			continue
		}
		muts := c23Mutations(r, f.data, f.isMD)
		// a sample of the mutations of this frame
		for j := 0; j < 12 && nm < nMal; j++ {
			m := muts[r.intn(len(muts))]
			c := e.runCase(idx, m.kind, m.data, []int{1, 2, 3, 4})
			idx++
			nm++
			if m.kind == "metalen" && len(m.data) >= 12 {
				if v := binary.BigEndian.Uint32(m.data[8:12]); v >= 1 && v <= 9 {
					for _, res := range c.Res {
						if (res.Dec == 2 && res.Class == 0) || (res.Dec == 4 && res.Class == 0 && res.HasMD) {
							c.Oracle = append(c.Oracle, fmt.Sprintf("decoder %d accepted a metadata section of %d bytes (a metadata block has at least 10)", res.Dec, v))
						}
					}
				}
			}
			if m.kind == "trunc" {
				for _, res := range c.Res {
					if res.Class == 0 || (res.Dec == 4 && res.Class != 9) {
						c.Oracle = append(c.Oracle, fmt.Sprintf("decoder %d accepted a strict prefix (%d of %d bytes) of a frame", res.Dec, len(m.data), len(f.data)))
					}
				}
			}
			w.put(c)
		}
	}
	// pure random byte strings
	for j := 0; j < nMal/10; j++ {
		n := r.intn(48)
		b := make([]byte, n)
		for k := range b {
			b[k] = byte(r.next())
		}
		if n >= 8 && r.intn(2) == 0 {
			binary.BigEndian.PutUint32(b[0:], uint32(n))
			binary.BigEndian.PutUint32(b[4:], uint32(r.intn(n)))
		}
		w.put(e.runCase(idx, "random", b, []int{1, 2, 3, 4}))
		idx++
	}
	// metadata blocks decoded directly
	for j, b := range mdBlocks {
		if len(b) > 400 && j%8 != 0 {
			continue
		}
		w.put(e.runCase(idx, "md-block", b, []int{5}))
		idx++
		if len(b) > 400 || (!thorough && j%2 == 1) {
			continue
		}
		for _, m := range c23MDMutations(r, b) {
			c := e.runCase(idx, m.kind, m.data, []int{5})
			idx++
			if m.kind == "md-trunc" && len(m.data) < len(b) && c.Res[0].Class == 0 {
				// a strict prefix of a metadata block can only be accepted when nothing but the deadline was cut... never: the deadline is last
				c.Oracle = append(c.Oracle, "metadata decoder accepted a strict prefix of a metadata block")
			}
			w.put(c)
		}
	}

	// ---- streams
	sw := newVerifWriter(t, "c23_streams.jsonl")
	defer sw.close()
	for i := 0; i < nStreams; i++ {
		s := c23Stream{I: i, Max: defaultMaxFrameSize}
		k := 1 + r.intn(6)
		var stream []byte
		var wantFrames [][]byte
		var parts []validFrame
		maxLen := 0
		for j := 0; j < k; j++ {
			f := valid[r.intn(len(valid))]
			if len(f.data) > 2000 {
				continue
			}
			parts = append(parts, f)
			if len(f.data) > maxLen {
				maxLen = len(f.data)
			}
		}
		allValid := true
		s.Kind = "valid"
		badAt := -1
		switch r.intn(6) {
		case 0: // a frame larger than the limit somewhere
			s.Kind = "oversize"
			if maxLen > 9 {
				s.Max = uint32(maxLen - 1)
				allValid = false
			}
		case 1:
			s.Kind = "exact-limit"
			if maxLen >= 8 {
				s.Max = uint32(maxLen)
			}
		case 2:
			s.Kind = "bad-piece"
			badAt = r.intn(len(parts) + 1)
			allValid = false
		case 3:
			s.Kind = "cut-tail"
			allValid = false
		}
		for j, f := range parts {
			if j == badAt {
				bad := [][]byte{{0, 0, 0, 7, 1, 2, 3}, {0, 0, 0, 0}, {0, 0, 0, 9, 0, 0, 0, 1, 'z'}, {0xff, 0xff, 0xff, 0xff, 0, 0, 0, 0}, {0, 0, 0, 12, 0, 0, 0, 200, 1, 2, 3, 4}}[r.intn(5)]
				s.Probes = append(s.Probes, e.probes(bad, len(stream))...)
				stream = append(stream, bad...)
			}
			s.Probes = append(s.Probes, e.probes(f.data, len(stream))...)
			stream = append(stream, f.data...)
			wantFrames = append(wantFrames, f.data)
		}
		if badAt == len(parts) {
			stream = append(stream, 0, 0, 0, 3)
		}
		if s.Kind == "cut-tail" && len(stream) > 0 {
			stream = stream[:len(stream)-1-r.intn(min(len(stream), 12))]
		}
		switch r.intn(4) {
		case 0:
			s.Chunks = []int{1}
		case 1:
			s.Chunks = []int{1 + r.intn(7), 1 + r.intn(3), 1 + r.intn(64)}
		case 2:
			s.Chunks = []int{4, 1, 3, 1 << 16}
		}
		s.Pool = r.intn(2) == 0
		s.Data = hex.EncodeToString(stream)

		// client side: readProtoFrame until it fails
		func() {
			defer func() {
				if p := recover(); p != nil {
					s.End = 4
					s.Oracle = append(s.Oracle, fmt.Sprintf("readProtoFrame panicked: %v", p))
				}
			}()
			var fp *FramePool
			if s.Pool {
				fp = pool
			}
			rd := &c23FakeConn{r: bytes.NewReader(stream), chunks: s.Chunks}
			off := 0
			s.Content, s.CapOK = true, true
			for {
				fr, err := readProtoFrame(rd, fp, s.Max)
				if err != nil {
					switch {
					case err == io.EOF:
						s.End = 0
					case err == io.ErrUnexpectedEOF:
						s.End = 1
					case errors.Is(err, ErrInvalidMessageLength):
						s.End = 2
					case errors.Is(err, ErrFrameTooLarge):
						s.End = 3
					default:
						s.End = 5
					}
					break
				}
				s.Frames = append(s.Frames, len(fr))
				if off+len(fr) > len(stream) || !bytes.Equal(fr, stream[off:off+len(fr)]) {
					s.Content = false
				}
				lim := 2 * len(fr)
				if lim < 256 {
					lim = 256
				}
				if uint32(len(fr)) > s.Max || cap(fr) > lim {
					s.CapOK = false
				}
				off += len(fr)
				if fp != nil {
					fp.Put(fr)
				}
			}
		}()
		if !s.Content {
			s.Oracle = append(s.Oracle, "readProtoFrame returned bytes that are not the next bytes of the stream")
		}
		if !s.CapOK {
			s.Oracle = append(s.Oracle, "readProtoFrame returned a frame longer than maxFrameSize or an over-sized buffer")
		}
		if allValid {
			if len(s.Frames) != len(wantFrames) || s.End != 0 {
				s.Oracle = append(s.Oracle, fmt.Sprintf("%d concatenated frames were read back as %d frames, end=%d", len(wantFrames), len(s.Frames), s.End))
			} else {
				for j := range wantFrames {
					if s.Frames[j] != len(wantFrames[j]) {
						s.Oracle = append(s.Oracle, "concatenated frames were split at the wrong place")
						break
					}
				}
			}
		}
		// server side
		served, lo, hi, p := e.serve(stream, s.Max, s.Chunks)
		s.Served, s.Lo, s.Hi = served, lo, hi
		if p != "" {
			s.Oracle = append(s.Oracle, "handleConn panicked: "+p)
		}
		if allValid {
			if len(served) != len(parts) {
				s.Oracle = append(s.Oracle, fmt.Sprintf("server delivered %d of %d frames", len(served), len(parts)))
			} else {
				for j, f := range parts {
					if served[j].ID != e.ids.of(f.msg) || served[j].HasMD != f.isMD || (f.isMD && !c23HdrsEqual(f.md, served[j].Hdrs)) {
						s.Oracle = append(s.Oracle, fmt.Sprintf("server delivered a different message/metadata at position %d", j))
						break
					}
				}
			}
		}
		sw.put(s)
	}

	// ---- allocation of readProtoFrame on hostile headers, and the stated limits
	misc := map[string]any{}
	{
		hostile := []byte{0x7f, 0xff, 0xff, 0xff, 0, 0, 0, 1, 'x'}
		var ms0, ms1 runtime.MemStats
		runtime.GC()
		runtime.ReadMemStats(&ms0)
		var lastErr error
		for j := 0; j < 8; j++ {
			_, lastErr = readProtoFrame(bytes.NewReader(hostile), nil, 1<<20)
		}
		runtime.ReadMemStats(&ms1)
		misc["HostileAllocBytes"] = ms1.TotalAlloc - ms0.TotalAlloc
		misc["HostileErrIsTooLarge"] = errors.Is(lastErr, ErrFrameTooLarge)
		// a frame claiming exactly the limit + 1
		lim := uint32(4096)
		h2 := make([]byte, 8)
		binary.BigEndian.PutUint32(h2, lim+1)
		_, err := readProtoFrame(bytes.NewReader(h2), nil, lim)
		misc["LimitPlusOneRejected"] = errors.Is(err, ErrFrameTooLarge)
		h3 := make([]byte, lim)
		binary.BigEndian.PutUint32(h3, lim)
		fr, err := readProtoFrame(bytes.NewReader(h3), nil, lim)
		misc["LimitAccepted"] = err == nil && len(fr) == int(lim)
		// metadata map hint on a hostile count
		runtime.GC()
		runtime.ReadMemStats(&ms0)
		md := &Metadata{}
		herr := md.UnmarshalBinary([]byte{0xff, 0xff, 0, 0, 0, 0, 0, 0, 0, 0, 0, 0})
		runtime.ReadMemStats(&ms1)
		misc["MetadataHostileCountAllocBytes"] = ms1.TotalAlloc - ms0.TotalAlloc
		misc["MetadataHostileCountRejected"] = errors.Is(herr, ErrInvalidMetadata)
	}
	{
		// limits replay 1: a 65536-byte key
		md := NewMetadata()
		md.Set(strings.Repeat("\x00", 65536), "\x01")
		b := md.MarshalBinary()
		back := &Metadata{}
		err := back.UnmarshalBinary(b)
		misc["BigKey"] = map[string]any{"Class": c23Class(err), "Hdrs": c23SortedHdrs(back), "Len": len(b)}
		// limits replay 2: 65536 headers
		md2 := NewMetadata()
		for j := 0; j < 65536; j++ {
			var k [4]byte
			binary.BigEndian.PutUint32(k[:], uint32(j))
			md2.Set(string(k[:]), "")
		}
		b2 := md2.MarshalBinary()
		back2 := &Metadata{}
		err2 := back2.UnmarshalBinary(b2)
		misc["ManyHdrs"] = map[string]any{"Class": c23Class(err2), "N": len(back2.headers), "Count": int(binary.BigEndian.Uint16(b2[0:2]))}
		// limits replay 3: server detection of a legacy frame whose name starts 00 00 00 01
		odd := []byte{0, 0, 0, 21, 0, 0, 0, 5, 0, 0, 0, 1, 65, 9, 9, 9, 9, 9, 9, 9, 9}
		r1 := e.decode(1, odd)
		r2 := e.decode(2, odd)
		misc["OddFrame"] = map[string]any{"Legacy": r1.Class, "WithMetadata": r2.Class}
	}
	{
		// FramePool: Get(n) after Puts of aligned and misaligned buffers must hand out exactly n bytes
		// backed by the bucket capacity the model predicts (pool_cap), never less than n.
		fp := NewFramePool()
		var pairs [][2]int
		poolFail := ""
		func() {
			defer func() {
				if p := recover(); p != nil {
					poolFail = fmt.Sprintf("FramePool panicked: %v", p)
				}
			}()
			sizes := []int{0, 1, 255, 256, 257, 511, 512, 513, 1000, 4095, 4096, 4097, 65535, 65536, 65537, 1 << 20, 1<<22 - 1, 1 << 22, 1<<22 + 1, 5 << 20}
			for round := 0; round < 3; round++ {
				for _, n := range sizes {
					b := fp.Get(n)
					if len(b) != n || cap(b) < n {
						poolFail = fmt.Sprintf("FramePool.Get(%d) returned len=%d cap=%d", n, len(b), cap(b))
					}
					for i := range b {
						b[i] = byte(i)
					}
					pairs = append(pairs, [2]int{n, cap(b)})
					fp.Put(b)
					// misaligned and foreign buffers must be dropped, not filed under a bucket they cannot serve
					fp.Put(make([]byte, n/2+3))
					fp.Put(make([]byte, 0, n+1))
					if n > 8 {
						fp.Put(b[: n/2 : n/2+1])
					}
				}
			}
		}()
		misc["PoolPairs"] = pairs
		misc["PoolFail"] = poolFail
	}
	misc["TypesCovered"] = len(typesSeen)
	misc["TypesAvailable"] = len(types)
	mb, _ := json.Marshal(misc)
	if err := os.WriteFile(filepath.Join(dir, "c23_misc.json"), mb, 0o644); err != nil {
		t.Fatal(err)
	}
}
