//go:build verif

package net

// C28 — concurrent remote asks each get their own reply.
//
// The REAL Client (pool + SendProto / SendBatchProto) talks over loopback TCP to the REAL ProtoServer whose
// handler echoes the request id.
//   TestVerifC28Scenarios  scripted: every request is parked inside the server handler until the script
//                          releases it (reply / drop), callers run in goroutines, deadlines expire while the
//                          request is parked (= handler slower than the deadline), batches are cancelled
//                          between reads, raw Get/Put/Discard and stale-connection eviction are mixed in.
//                          A ConnWrapper tags every dialled connection and logs writes/closes, the pool is
//                          snapshotted after every op. The check replays the log through the Coq model.
//   TestVerifC28Stress     2-16 real goroutines, pool bound 1-4, handler delays around the callers' deadlines.
// The oracle (reply id = request id, batch in request order, failed connection never pooled, exclusive
// checkout) is evaluated by the check on the output.

import (
	"context"
	"errors"
	"fmt"
	"net"
	"strconv"
	"strings"
	"sync"
	"sync/atomic"
	"testing"
	"time"

	"google.golang.org/protobuf/proto"

	"github.com/tochemey/goakt/v4/test/data/testpb"
)

type c28Event struct {
	K    string   `json:"k"`              // dial write close srv_read srv_reply srv_drop start done snap get put discard age
	C    int      `json:"c"`              // connection tag (dial order), -1 when unknown
	T    int      `json:"t"`              // caller
	Rid  string   `json:"rid,omitempty"`  // request id
	Reqs []string `json:"reqs,omitempty"` // start: request ids
	Res  []string `json:"res,omitempty"`  // done: response ids
	Err  string   `json:"err,omitempty"`
	Idle []int    `json:"idle,omitempty"` // snap: pool content, oldest first
	N    int      `json:"n,omitempty"`
}

type c28Park struct {
	rid     string
	release chan int // 0 reply, 1 drop (handler error: the server closes the connection)
}

type c28Harness struct {
	mu     sync.Mutex
	events []c28Event
	nconn  int
	byAddr map[string]int // client-side local address -> connection tag

	auto     atomic.Bool
	parked   map[string]*c28Park
	arrivals chan string

	ps   *ProtoServer
	addr string
	done chan error
}

func (h *c28Harness) log(e c28Event) {
	h.mu.Lock()
	h.events = append(h.events, e)
	h.mu.Unlock()
}

// ---- client side instrumentation: a ConnWrapper
type c28Conn struct {
	net.Conn
	h      *c28Harness
	id     int
	closed atomic.Bool
}

var c28Ser = NewProtoSerializer()

func c28Rid(frame []byte) string {
	msg, _, err := c28Ser.UnmarshalBinary(frame)
	if err != nil {
		if m2, _, _, err2 := c28Ser.UnmarshalBinaryWithMetadata(frame); err2 == nil {
			msg = m2
		} else {
			return "?"
		}
	}
	if r, ok := msg.(*testpb.Reply); ok {
		return strings.SplitN(r.GetContent(), "|", 2)[0]
	}
	return "?"
}

func (c *c28Conn) Write(p []byte) (int, error) {
	if !c.h.auto.Load() {
		c.h.log(c28Event{K: "write", C: c.id, Rid: c28Rid(p)}) // logged BEFORE the bytes can reach the server
	}
	return c.Conn.Write(p)
}

func (c *c28Conn) Close() error {
	if c.closed.CompareAndSwap(false, true) && !c.h.auto.Load() {
		c.h.log(c28Event{K: "close", C: c.id})
	}
	return c.Conn.Close()
}

func (h *c28Harness) Wrap(conn net.Conn) (net.Conn, error) {
	h.mu.Lock()
	id := h.nconn
	h.nconn++
	h.byAddr[conn.LocalAddr().String()] = id
	h.events = append(h.events, c28Event{K: "dial", C: id})
	h.mu.Unlock()
	return &c28Conn{Conn: conn, h: h, id: id}, nil
}

func (h *c28Harness) tag(conn net.Conn) int {
	h.mu.Lock()
	defer h.mu.Unlock()
	if id, ok := h.byAddr[conn.LocalAddr().String()]; ok {
		return id
	}
	return -1
}

// ---- server side: the real ProtoServer with a parking / delaying echo handler
func (h *c28Harness) handler(_ context.Context, _ Connection, msg proto.Message) (proto.Message, error) {
	r, ok := msg.(*testpb.Reply)
	if !ok {
		return nil, errors.New("unexpected message")
	}
	parts := strings.SplitN(r.GetContent(), "|", 2)
	rid := parts[0]
	if h.auto.Load() {
		if len(parts) == 2 {
			if us, err := strconv.Atoi(parts[1]); err == nil && us > 0 {
				time.Sleep(time.Duration(us) * time.Microsecond)
			}
		}
		return &testpb.Reply{Content: rid}, nil
	}
	p := &c28Park{rid: rid, release: make(chan int, 1)}
	h.mu.Lock()
	h.parked[rid] = p
	h.events = append(h.events, c28Event{K: "srv_read", C: -1, Rid: rid})
	h.mu.Unlock()
	h.arrivals <- rid
	if v := <-p.release; v != 0 {
		return nil, errors.New("verif: handler fails, server closes the connection")
	}
	return &testpb.Reply{Content: rid}, nil
}

func c28Start(t testing.TB) *c28Harness {
	h := &c28Harness{byAddr: map[string]int{}, parked: map[string]*c28Park{}, arrivals: make(chan string, 4096)}
	ps, err := NewProtoServer("127.0.0.1:0", WithProtoHandler(proto.MessageName(&testpb.Reply{}), h.handler))
	if err != nil {
		t.Fatalf("proto server: %v", err)
	}
	if err := ps.Listen(); err != nil {
		t.Fatalf("listen: %v", err)
	}
	h.ps = ps
	h.addr = ps.ListenAddr().String()
	h.done = make(chan error, 1)
	go func() { h.done <- ps.Serve() }()
	deadline := time.Now().Add(3 * time.Second)
	for time.Now().Before(deadline) {
		c, err := net.DialTimeout("tcp", h.addr, 200*time.Millisecond)
		if err == nil {
			c.Close()
			break
		}
		time.Sleep(5 * time.Millisecond)
	}
	return h
}

func (h *c28Harness) stop() {
	h.releaseAll()
	_ = h.ps.Shutdown(time.Second)
	select {
	case <-h.done:
	case <-time.After(2 * time.Second):
	}
}

func (h *c28Harness) release(rid string, v int) bool {
	h.mu.Lock()
	p := h.parked[rid]
	delete(h.parked, rid)
	if p != nil {
		k := "srv_reply"
		if v != 0 {
			k = "srv_drop"
		}
		h.events = append(h.events, c28Event{K: k, C: -1, Rid: rid}) // logged BEFORE the handler returns
	}
	h.mu.Unlock()
	if p == nil {
		return false
	}
	p.release <- v
	return true
}

func (h *c28Harness) releaseAll() {
	for round := 0; round < 200; round++ {
		h.mu.Lock()
		var rids []string
		for rid := range h.parked {
			rids = append(rids, rid)
		}
		h.mu.Unlock()
		for _, rid := range rids {
			h.release(rid, 0)
		}
		select {
		case <-h.arrivals:
		case <-time.After(30 * time.Millisecond):
			h.mu.Lock()
			n := len(h.parked)
			h.mu.Unlock()
			if n == 0 {
				return
			}
		}
	}
}

// ------------------------------------------------------------------ scenarios

type c28Op struct {
	Op       string   `json:"op"` // start reply expire drop cancel late get put discard age
	T        int      `json:"t"`
	Reqs     []string `json:"reqs,omitempty"`
	Batch    bool     `json:"batch,omitempty"`
	Deadline string   `json:"deadline,omitempty"` // "" | "long" | "short"
	Rid      string   `json:"rid,omitempty"`
}

type c28Scenario struct {
	Name    string  `json:"name"`
	MaxIdle int     `json:"max_idle"`
	Ops     []c28Op `json:"ops"`
}

type c28Out struct {
	Name      string     `json:"name"`
	MaxIdle   int        `json:"max_idle"`
	Events    []c28Event `json:"events"`
	Anomalies []string   `json:"anomalies"`
}

type c28Caller struct {
	reqs      []string
	next      int // index of the request currently parked at the server
	cancel    context.CancelFunc
	done      chan c28Event
	running   bool
	short     bool
	cancelled bool
	raw       net.Conn // raw Get held
}

func c28RunScenario(t testing.TB, h *c28Harness, sc c28Scenario) c28Out {
	h.mu.Lock()
	h.events = nil
	h.nconn = 0
	h.byAddr = map[string]int{}
	h.mu.Unlock()
	out := c28Out{Name: sc.Name, MaxIdle: sc.MaxIdle}
	anomaly := func(f string, a ...any) { out.Anomalies = append(out.Anomalies, fmt.Sprintf(f, a...)) }
	cl := NewClient(h.addr, WithMaxIdleConns(sc.MaxIdle), WithClientConnWrapper(h))
	callers := map[int]*c28Caller{}
	snap := func() {
		cl.mu.Lock()
		ids := make([]int, 0, len(cl.idle))
		conns := make([]net.Conn, 0, len(cl.idle))
		for _, ic := range cl.idle {
			conns = append(conns, ic.conn)
		}
		cl.mu.Unlock()
		for _, c := range conns {
			ids = append(ids, h.tag(c))
		}
		h.log(c28Event{K: "snap", C: -1, Idle: ids, N: len(ids)})
	}
	waitArrival := func(want string) {
		deadline := time.After(3 * time.Second)
		for {
			select {
			case rid := <-h.arrivals:
				if rid == want {
					return
				}
			case <-deadline:
				anomaly("request %s did not reach the server handler within 3s", want)
				return
			}
		}
	}
	waitDone := func(ti int, c *c28Caller) {
		select {
		case e := <-c.done:
			h.log(e)
			c.running = false
		case <-time.After(5 * time.Second):
			anomaly("caller %d did not return within 5s", ti)
		}
	}
	doReply := func(ti int, c *c28Caller, cancelled bool) {
		if !c.running || c.next >= len(c.reqs) {
			anomaly("reply for caller %d with nothing parked", ti)
			return
		}
		rid := c.reqs[c.next]
		h.release(rid, 0)
		c.next++
		if c.next < len(c.reqs) {
			// the server reads the next request of the batch whether or not the client is still there
			waitArrival(c.reqs[c.next])
			if cancelled {
				waitDone(ti, c)
			}
		} else {
			waitDone(ti, c)
		}
	}
	for _, op := range sc.Ops {
		c := callers[op.T]
		if c == nil {
			c = &c28Caller{}
			callers[op.T] = c
		}
		switch op.Op {
		case "start":
			ctx := context.Background()
			var cancel context.CancelFunc = func() {}
			switch op.Deadline {
			case "long":
				ctx, cancel = context.WithTimeout(ctx, 20*time.Second)
			case "short":
				ctx, cancel = context.WithTimeout(ctx, 40*time.Millisecond)
			default:
				ctx, cancel = context.WithCancel(ctx)
			}
			c.reqs, c.next, c.cancel, c.done, c.running = op.Reqs, 0, cancel, make(chan c28Event, 1), true
			c.short, c.cancelled = op.Deadline == "short", false
			h.log(c28Event{K: "start", C: -1, T: op.T, Reqs: op.Reqs})
			go func(ti int, reqs []string, batch bool, done chan c28Event) {
				e := c28Event{K: "done", C: -1, T: ti, Reqs: reqs}
				if batch {
					ms := make([]proto.Message, len(reqs))
					for i, r := range reqs {
						ms[i] = &testpb.Reply{Content: r}
					}
					resps, err := cl.SendBatchProto(ctx, ms)
					if err != nil {
						e.Err = err.Error()
					} else {
						for _, r := range resps {
							if rr, ok := r.(*testpb.Reply); ok {
								e.Res = append(e.Res, rr.GetContent())
							} else {
								e.Res = append(e.Res, fmt.Sprintf("<%T>", r))
							}
						}
					}
				} else {
					resp, err := cl.SendProto(ctx, &testpb.Reply{Content: reqs[0]})
					if err != nil {
						e.Err = err.Error()
					} else if rr, ok := resp.(*testpb.Reply); ok {
						e.Res = []string{rr.GetContent()}
					} else {
						e.Res = []string{fmt.Sprintf("<%T>", resp)}
					}
				}
				done <- e
			}(op.T, op.Reqs, op.Batch, c.done)
			waitArrival(op.Reqs[0])
			// a batch writes all its requests before reading: wait for that, so that the script's next
			// action (cancel, another caller) does not race with the remaining writes
			for deadline := time.Now().Add(3 * time.Second); time.Now().Before(deadline); {
				h.mu.Lock()
				n := 0
				for _, e := range h.events {
					if e.K == "write" {
						for _, r := range op.Reqs {
							if e.Rid == r {
								n++
							}
						}
					}
				}
				h.mu.Unlock()
				if n >= len(op.Reqs) {
					break
				}
				time.Sleep(200 * time.Microsecond)
			}
		case "reply":
			doReply(op.T, c, op.Rid == "cancelled")
		case "expire":
			waitDone(op.T, c)
		case "drop":
			if !c.running || c.next >= len(c.reqs) {
				anomaly("drop for caller %d with nothing parked", op.T)
				break
			}
			h.release(c.reqs[c.next], 1)
			c.next = len(c.reqs)
			waitDone(op.T, c)
		case "cancel":
			c.cancel()
			c.cancelled = true
		case "late":
			if h.release(op.Rid, 0) {
				time.Sleep(3 * time.Millisecond) // let the late response travel
			}
		case "get":
			conn, err := cl.Get(context.Background())
			if err != nil {
				h.log(c28Event{K: "get", C: -1, T: op.T, Err: err.Error()})
				break
			}
			c.raw = conn
			h.log(c28Event{K: "get", C: h.tag(conn), T: op.T})
		case "put":
			if c.raw != nil {
				h.log(c28Event{K: "put", C: h.tag(c.raw), T: op.T})
				cl.Put(c.raw)
				c.raw = nil
			}
		case "discard":
			if c.raw != nil {
				h.log(c28Event{K: "discard", C: h.tag(c.raw), T: op.T})
				cl.Discard(c.raw)
				c.raw = nil
			}
		case "age":
			// every pooled connection becomes older than the idle timeout
			cl.mu.Lock()
			for i := range cl.idle {
				cl.idle[i].since = 0
			}
			n := len(cl.idle)
			cl.mu.Unlock()
			h.log(c28Event{K: "age", C: -1, N: n})
		default:
			anomaly("unknown op %q", op.Op)
		}
		snap()
	}
	// settle: release everything, collect every caller, return raw connections
	for ti, c := range callers {
		if c.raw != nil {
			h.log(c28Event{K: "discard", C: h.tag(c.raw), T: ti})
			cl.Discard(c.raw)
			c.raw = nil
		}
	}
	// one caller at a time, one request at a time, so that the order of the log is the real order
	for ti := 0; ti < 64; ti++ {
		c := callers[ti]
		if c == nil {
			continue
		}
		for guard := 0; c.running && guard < 64; guard++ {
			if c.short || c.next >= len(c.reqs) {
				waitDone(ti, c)
				break
			}
			doReply(ti, c, c.cancelled)
		}
	}
	h.releaseAll()
	for ti, c := range callers {
		if c.running {
			anomaly("caller %d still running at the end", ti)
		}
		if c.cancel != nil {
			c.cancel()
		}
	}
	snap()
	h.log(c28Event{K: "end", C: -1})
	_ = cl.Close()
	h.releaseAll()
	h.mu.Lock()
	out.Events = append([]c28Event(nil), h.events...)
	h.mu.Unlock()
	return out
}

func TestVerifC28Scenarios(t *testing.T) {
	scs := verifReadJSONL[c28Scenario](t, "c28_scenarios.jsonl")
	w := newVerifWriter(t, "c28_traces.jsonl")
	defer w.close()
	h := c28Start(t)
	defer h.stop()
	for _, sc := range scs {
		w.put(c28RunScenario(t, h, sc))
	}
}

// ------------------------------------------------------------------ stress

type c28Call struct {
	T    int      `json:"t"`
	Reqs []string `json:"reqs"`
	Res  []string `json:"res,omitempty"`
	Err  string   `json:"err,omitempty"`
}

type c28Round struct {
	Round   int       `json:"round"`
	MaxIdle int       `json:"max_idle"`
	Callers int       `json:"callers"`
	Calls   []c28Call `json:"calls"`
	Dialled int       `json:"dialled"`
}

func TestVerifC28Stress(t *testing.T) {
	w := newVerifWriter(t, "c28_stress.jsonl")
	defer w.close()
	h := c28Start(t)
	defer h.stop()
	h.auto.Store(true)
	rounds := verifEnvInt("VERIF_C28_ROUNDS", 24)
	rng := newVerifRNG(verifSeed() ^ 0xC28)
	for r := 0; r < rounds; r++ {
		maxIdle := 1 + rng.intn(4)
		callers := 2 + rng.intn(15)
		per := 6 + rng.intn(10)
		h.mu.Lock()
		h.nconn = 0
		h.byAddr = map[string]int{}
		h.events = nil
		h.mu.Unlock()
		cl := NewClient(h.addr, WithMaxIdleConns(maxIdle), WithClientConnWrapper(h))
		out := c28Round{Round: r, MaxIdle: maxIdle, Callers: callers}
		var mu sync.Mutex
		var wg sync.WaitGroup
		seeds := make([]uint64, callers)
		for k := range seeds {
			seeds[k] = rng.next()
		}
		for k := 0; k < callers; k++ {
			wg.Add(1)
			go func(k int) {
				defer wg.Done()
				lr := newVerifRNG(seeds[k])
				for i := 0; i < per; i++ {
					n := 1
					batch := lr.intn(4) == 0
					if batch {
						n = 1 + lr.intn(4)
					}
					// deadline 3ms; handler delay mostly short, sometimes well beyond the deadline
					reqs := make([]string, n)
					ms := make([]proto.Message, n)
					for j := range reqs {
						delay := lr.intn(400)
						if lr.intn(5) == 0 {
							delay = 4000 + lr.intn(6000)
						}
						reqs[j] = fmt.Sprintf("s%d.c%d.%d.%d", r, k, i, j)
						ms[j] = &testpb.Reply{Content: fmt.Sprintf("%s|%d", reqs[j], delay)}
					}
					ctx, cancel := context.WithTimeout(context.Background(), 3*time.Millisecond)
					call := c28Call{T: k, Reqs: reqs}
					if batch {
						resps, err := cl.SendBatchProto(ctx, ms)
						if err != nil {
							call.Err = err.Error()
						} else {
							for _, x := range resps {
								if rr, ok := x.(*testpb.Reply); ok {
									call.Res = append(call.Res, rr.GetContent())
								} else {
									call.Res = append(call.Res, fmt.Sprintf("<%T>", x))
								}
							}
						}
					} else {
						resp, err := cl.SendProto(ctx, ms[0])
						if err != nil {
							call.Err = err.Error()
						} else if rr, ok := resp.(*testpb.Reply); ok {
							call.Res = []string{rr.GetContent()}
						} else {
							call.Res = []string{fmt.Sprintf("<%T>", resp)}
						}
					}
					cancel()
					mu.Lock()
					out.Calls = append(out.Calls, call)
					mu.Unlock()
				}
			}(k)
		}
		wg.Wait()
		h.mu.Lock()
		out.Dialled = h.nconn
		h.mu.Unlock()
		_ = cl.Close()
		w.put(out)
	}
	h.auto.Store(false)
}
