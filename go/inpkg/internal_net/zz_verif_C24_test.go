//go:build verif

package net

// C24 harness: the REAL gzip / zstd / brotli connection wrappers (and no wrapper) over an in-memory
// duplex connection whose Read re-segments the byte stream. After EVERY Write the peer must be able
// to read exactly the bytes of that Write without any further Write (promptness), and the bytes must
// be the ones written, in order (losslessness). Wrapper instances are reused for several consecutive
// connections (their encoder/decoder pools are recycled) and both directions are used.

import (
	"bytes"
	"encoding/hex"
	"errors"
	"fmt"
	"io"
	stdnet "net"
	"os"
	"strings"
	"sync"
	"testing"
	"time"
)

// ---------------------------------------------------------------- in-memory duplex connection

type c24Half struct {
	mu     sync.Mutex
	cond   *sync.Cond
	buf    []byte
	closed bool
	total  int
}

func newC24Half() *c24Half {
	h := &c24Half{}
	h.cond = sync.NewCond(&h.mu)
	return h
}

type c24Timeout struct{}

func (c24Timeout) Error() string   { return "c24: read deadline exceeded (nothing more on the wire)" }
func (c24Timeout) Timeout() bool   { return true }
func (c24Timeout) Temporary() bool { return true }

type c24Conn struct {
	rx, tx *c24Half
	mu     sync.Mutex
	rdl    time.Time
	seg    int // 0: whatever is there, 1: one byte at a time, n>1: pseudo-random up to n
	ctr    uint64
}

func (c *c24Conn) Read(p []byte) (int, error) {
	if len(p) == 0 {
		return 0, nil
	}
	c.mu.Lock()
	dl := c.rdl
	c.mu.Unlock()
	if dl.IsZero() {
		dl = time.Now().Add(10 * time.Second) // never hang the harness
	}
	h := c.rx
	h.mu.Lock()
	defer h.mu.Unlock()
	for len(h.buf) == 0 {
		if h.closed {
			return 0, io.EOF
		}
		wait := time.Until(dl)
		if wait <= 0 {
			return 0, c24Timeout{}
		}
		t := time.AfterFunc(wait, h.cond.Broadcast)
		h.cond.Wait()
		t.Stop()
	}
	n := len(p)
	if n > len(h.buf) {
		n = len(h.buf)
	}
	switch {
	case c.seg == 1:
		n = 1
	case c.seg > 1:
		c.ctr = c.ctr*6364136223846793005 + 1442695040888963407
		k := 1 + int((c.ctr>>33)%uint64(c.seg))
		if k < n {
			n = k
		}
	}
	copy(p, h.buf[:n])
	h.buf = h.buf[n:]
	return n, nil
}

func (c *c24Conn) Write(p []byte) (int, error) {
	h := c.tx
	h.mu.Lock()
	defer h.mu.Unlock()
	if h.closed {
		return 0, io.ErrClosedPipe
	}
	h.buf = append(h.buf, p...)
	h.total += len(p)
	h.cond.Broadcast()
	return len(p), nil
}

func (c *c24Conn) Close() error {
	for _, h := range []*c24Half{c.tx, c.rx} {
		h.mu.Lock()
		h.closed = true
		h.cond.Broadcast()
		h.mu.Unlock()
	}
	return nil
}
func (c *c24Conn) LocalAddr() stdnet.Addr  { return &stdnet.TCPAddr{} }
func (c *c24Conn) RemoteAddr() stdnet.Addr { return &stdnet.TCPAddr{} }
func (c *c24Conn) SetDeadline(t time.Time) error {
	return c.SetReadDeadline(t)
}
func (c *c24Conn) SetReadDeadline(t time.Time) error {
	c.mu.Lock()
	c.rdl = t
	c.mu.Unlock()
	return nil
}
func (c *c24Conn) SetWriteDeadline(time.Time) error { return nil }

func (c *c24Conn) wireTotal() int {
	c.tx.mu.Lock()
	defer c.tx.mu.Unlock()
	return c.tx.total
}

// ---------------------------------------------------------------- records

type c24Write struct {
	Dir  int // 0: A->B, 1: B->A
	Size int
	Wire int    // bytes the Write put on the wire
	Got  int    // bytes the peer could read afterwards, without any further Write
	Hex  string `json:",omitempty"` // payload, for the small cases the Coq model is run on
	Sum  uint64 // checksum of what was read
}

type c24Run struct {
	I      int
	Codec  string
	ConnNo int // n-th connection wrapped by the same wrapper instance
	Seg    int
	Small  bool
	Kind   string   // "mixed", "long-lived" (cumulative traffic on one connection), "after-aborts" (healthy connection after failed handshakes on the same wrapper)
	OneWay bool     // every Write goes A->B
	Aborts []string `json:",omitempty"` // what happened to the aborted connections that preceded this one
	Writes []c24Write
	Tail   int // bytes readable after both sides closed (must be 0)
	Fail   []string
}

func c24Sum(b []byte) uint64 {
	var s uint64 = 1469598103934665603
	for _, x := range b {
		s = (s ^ uint64(x)) * 1099511628211
	}
	return s
}

func c24Data(r *verifRNG, mode int, n int, off int) []byte {
	b := make([]byte, n)
	switch mode {
	case 0: // compressible pattern
		for i := range b {
			j := off + i
			b[i] = byte(j*7 + j/251)
		}
	case 1: // incompressible
		for i := 0; i < n; i += 8 {
			v := r.next()
			for k := 0; k < 8 && i+k < n; k++ {
				b[i+k] = byte(v >> (8 * uint(k)))
			}
		}
	default: // long runs
		for i := range b {
			b[i] = byte((off + i) / 4096)
		}
	}
	return b
}

type c24Wrap func(c stdnet.Conn) (stdnet.Conn, error)

func c24RunConn(r *verifRNG, run *c24Run, wrap c24Wrap, sizes []int, mode int) {
	a2b, b2a := newC24Half(), newC24Half()
	rawA := &c24Conn{rx: b2a, tx: a2b, seg: run.Seg, ctr: r.next()}
	rawB := &c24Conn{rx: a2b, tx: b2a, seg: run.Seg, ctr: r.next()}
	fail := func(f string, a ...any) { run.Fail = append(run.Fail, fmt.Sprintf(f, a...)) }
	defer func() {
		if p := recover(); p != nil {
			fail("panic: %v", p)
		}
	}()
	A, err := wrap(rawA)
	if err != nil {
		fail("Wrap(A): %v", err)
		return
	}
	B, err := wrap(rawB)
	if err != nil {
		fail("Wrap(B): %v", err)
		return
	}
	ends := [2]stdnet.Conn{A, B}
	raws := [2]*c24Conn{rawA, rawB}
	offs := [2]int{}
	for i, sz := range sizes {
		dir := 0
		if !run.OneWay && r.intn(3) == 0 {
			dir = 1
		}
		w, rd := ends[dir], ends[1-dir]
		data := c24Data(r, mode, sz, offs[dir])
		offs[dir] += sz
		before := raws[dir].wireTotal()
		n, err := w.Write(data)
		rec := c24Write{Dir: dir, Size: sz, Wire: raws[dir].wireTotal() - before}
		if run.Small {
			rec.Hex = hex.EncodeToString(data)
		}
		if err != nil || n != sz {
			fail("write #%d (%d bytes, dir %d): n=%d err=%v", i, sz, dir, n, err)
		}
		// the peer reads what this Write carried — no other Write happens meanwhile
		got := make([]byte, 0, sz)
		_ = rd.SetReadDeadline(time.Now().Add(3 * time.Second))
		tmp := make([]byte, 1+r.intn(70000))
		for len(got) < sz {
			want := sz - len(got)
			if want > len(tmp) {
				want = len(tmp)
			}
			k, err := rd.Read(tmp[:want])
			got = append(got, tmp[:k]...)
			if err != nil {
				var te interface{ Timeout() bool }
				if errors.As(err, &te) && te.Timeout() {
					fail("write #%d (%d bytes, dir %d): only %d bytes readable after Write returned (flush missing?)", i, sz, dir, len(got))
				} else {
					fail("write #%d (%d bytes, dir %d): read error after %d bytes: %v", i, sz, dir, len(got), err)
				}
				break
			}
		}
		rec.Got = len(got)
		rec.Sum = c24Sum(got)
		if len(got) == sz && !bytes.Equal(got, data) {
			fail("write #%d (%d bytes, dir %d): bytes read differ from bytes written", i, sz, dir)
		}
		run.Writes = append(run.Writes, rec)
		if len(run.Fail) > 0 {
			break
		}
	}
	// close A; B must see a clean end without extra data, then close B
	if err := A.Close(); err != nil {
		fail("Close(A): %v", err)
	}
	_ = B.SetReadDeadline(time.Now().Add(500 * time.Millisecond))
	if len(run.Fail) == 0 {
		tail, _ := io.ReadAll(B)
		run.Tail = len(tail)
		if len(tail) != 0 {
			fail("%d stray bytes readable after the peer closed", len(tail))
		}
	}
	_ = B.Close()
}

// c24Abort wraps one end of a fresh connection with wrap and lets the "handshake" fail in one of the ways a
// real peer produces: it hangs up without sending, it stays silent until the read deadline, it speaks another
// protocol, or it dies inside the stream header. The wrapped end is then closed (returning whatever the
// wrapper pools). Returns a short description of what the wrapped end observed.
func c24Abort(r *verifRNG, wrap c24Wrap, kind string) (desc string) {
	a2b, b2a := newC24Half(), newC24Half()
	rawA := &c24Conn{rx: b2a, tx: a2b}
	rawB := &c24Conn{rx: a2b, tx: b2a}
	defer func() {
		if p := recover(); p != nil {
			desc = fmt.Sprintf("%s: PANIC %v", kind, p)
		}
	}()
	A, err := wrap(rawA)
	if err != nil {
		return fmt.Sprintf("%s: Wrap error %v", kind, err)
	}
	buf := make([]byte, 64)
	switch kind {
	case "peer-hangs-up":
		_ = rawB.Close()
		_ = A.SetReadDeadline(time.Now().Add(300 * time.Millisecond))
	case "silent-until-deadline":
		_ = A.SetReadDeadline(time.Now().Add(20 * time.Millisecond))
	case "other-protocol":
		_, _ = rawB.Write([]byte("HTTP/1.1 400 Bad Request\r\nConnection: close\r\n\r\n"))
		_ = rawB.Close()
		_ = A.SetReadDeadline(time.Now().Add(300 * time.Millisecond))
	case "dies-in-header":
		_, _ = rawB.Write([]byte{0x1f, 0x8b, 0x08}[:1+r.intn(3)])
		_ = rawB.Close()
		_ = A.SetReadDeadline(time.Now().Add(300 * time.Millisecond))
	}
	n, rerr := A.Read(buf)
	cerr := A.Close()
	_ = rawB.Close()
	return fmt.Sprintf("%s: read n=%d err=%v close=%v", kind, n, rerr != nil, cerr != nil)
}

func TestVerifC24(t *testing.T) {
	r := newVerifRNG(verifSeed())
	thorough := os.Getenv("VERIF_TIER") == "thorough"
	w := newVerifWriter(t, "c24_runs.jsonl")
	defer w.close()

	gz, err := NewGzipConnWrapper()
	if err != nil {
		t.Fatal(err)
	}
	gz1, err := NewGzipConnWrapper(WithGzipLevel(1))
	if err != nil {
		t.Fatal(err)
	}
	zs, err := NewZstdConnWrapper()
	if err != nil {
		t.Fatal(err)
	}
	br := NewBrotliConnWrapper()
	br1 := NewBrotliConnWrapper(WithBrotliLevel(1))
	codecs := []struct {
		name string
		wrap c24Wrap
	}{
		{"none", func(c stdnet.Conn) (stdnet.Conn, error) { return c, nil }},
		{"gzip", gz.Wrap},
		{"gzip-1", gz1.Wrap},
		{"zstd", zs.Wrap},
		{"brotli", br.Wrap},
		{"brotli-1", br1.Wrap},
	}
	boundary := []int{0, 1, 2, 3}
	for k := 2; k <= 16; k++ {
		boundary = append(boundary, 1<<k-1, 1<<k, 1<<k+1)
	}
	idx := 0
	for _, c := range codecs {
		nconn := 5
		if thorough {
			nconn = 14
		}
		for cn := 0; cn < nconn; cn++ {
			run := c24Run{I: idx, Codec: c.name, ConnNo: cn, Seg: []int{0, 1, 7, 1500, 0}[cn%5]}
			idx++
			var sizes []int
			mode := cn % 3
			switch cn % 5 {
			case 0: // small, also evaluated by the Coq model
				run.Small = true
				n := 4 + r.intn(10)
				for i := 0; i < n; i++ {
					sizes = append(sizes, []int{0, 1, 2, 3, 5, 17, 64, 255, 256, 257, 700}[r.intn(11)])
				}
			case 1: // boundary sizes 2^k±1 in random order, one byte at a time on the wire for the small ones
				for i := 0; i < 24; i++ {
					s := boundary[r.intn(len(boundary))]
					if s > 5000 {
						s = boundary[r.intn(24)]
					}
					sizes = append(sizes, s)
				}
			case 2:
				for i := 0; i < 16; i++ {
					sizes = append(sizes, boundary[r.intn(len(boundary))])
				}
			case 3: // large writes up to 1 MiB
				sizes = []int{1<<20 - 1, 0, 1, 1 << 20, 3, 1<<19 + 1, 1 << 17}
				if !thorough {
					sizes = []int{1<<20 - 1, 0, 1, 1<<18 + 1, 1 << 16}
				}
			default: // many tiny writes
				n := 200
				for i := 0; i < n; i++ {
					sizes = append(sizes, r.intn(4))
				}
			}
			run.Kind = "mixed"
			c24RunConn(r, &run, c.wrap, sizes, mode)
			w.put(run)
		}
	}

	// ---- long-lived connections: cumulative traffic in one direction far beyond every size/memory option of the
	// wrapper (a pooled remoting connection lives for hours). zstd gets, besides the default, a wrapper configured
	// with a small decoder memory budget so that "cumulative > budget" is reached quickly.
	zsSmall, err := NewZstdConnWrapper(WithZstdDecoderMaxMemory(2<<20), WithZstdWindow(256<<10))
	if err != nil {
		t.Fatal(err)
	}
	long := []struct {
		name   string
		wrap   c24Wrap
		mib    int // cumulative MiB, quick
		mibT   int // thorough
		chunkK int // KiB per Write
	}{
		{"none", codecs[0].wrap, 8, 80, 1024},
		{"zstd", zs.Wrap, 72, 160, 1024},
		{"zstd-mem2MiB", zsSmall.Wrap, 12, 80, 512},
		{"gzip", gz.Wrap, 12, 80, 1024},
		{"brotli-1", br1.Wrap, 12, 80, 1024},
		{"brotli", br.Wrap, 6, 80, 512},
	}
	for _, c := range long {
		mib := c.mib
		if thorough {
			mib = c.mibT
		}
		run := c24Run{I: idx, Codec: c.name, Kind: "long-lived", OneWay: true, Seg: 0}
		idx++
		var sizes []int
		for tot := 0; tot < mib*1024; tot += c.chunkK {
			sizes = append(sizes, c.chunkK*1024)
		}
		sizes = append(sizes, 1, 0, 4097) // and it still works for small writes afterwards
		c24RunConn(r, &run, c.wrap, sizes, 2)
		w.put(run)
	}

	// ---- failed handshakes interleaved with healthy connections on ONE wrapper instance: whatever an aborted
	// connection leaves in the wrapper's pools must not poison the connections that come after it.
	abortKinds := []string{"peer-hangs-up", "silent-until-deadline", "other-protocol", "dies-in-header"}
	for _, c := range codecs[1:] {
		rounds := 3
		if thorough {
			rounds = 8
		}
		for round := 0; round < rounds; round++ {
			run := c24Run{I: idx, Codec: c.name, Kind: "after-aborts", ConnNo: round, Seg: []int{0, 7, 1}[round%3]}
			idx++
			// every kind of failure occurs for every codec within three rounds; sometimes twice in a row
			na := 2 + r.intn(2)
			for j := 0; j < na; j++ {
				run.Aborts = append(run.Aborts, c24Abort(r, c.wrap, abortKinds[(round+j)%len(abortKinds)]))
			}
			var sizes []int
			for i := 0; i < 6; i++ {
				sizes = append(sizes, []int{1, 17, 300, 7200, 0, 65537}[r.intn(6)])
			}
			c24RunConn(r, &run, c.wrap, sizes, round%3)
			for _, a := range run.Aborts {
				if strings.Contains(a, "PANIC") {
					run.Fail = append(run.Fail, "aborted connection: "+a)
				}
			}
			w.put(run)
		}
	}
}
