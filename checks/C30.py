"""C30 — a grain is active on at most one node at a time.

Model:  coq/theories/C30/Model.v (grain_engine.go ensureGrainProcess/ensureGrainOwnership/tryClaimGrain/
        finalizeGrainActivation + grainPID.deactivate, every line between two registry/shared operations one
        step) over the shared registry model C30/Registry.v.
Proof:  Properties/C30.v: C30_refuted (claim-less activation after a lost claim, 3 nodes, one injected
        activation failure), C30_registry_refuted / C30_refuted_no_failure (late RemoveGrain of a deactivation
        that overlaps a re-activation on the same node), C30_partial (inductive invariant for every execution that
        contains neither schedule shape; any number of nodes, any interleaving, failures anywhere).
Tie:    the REAL engine of three in-process actor systems sharing a fake registry whose operations are
        scheduling points is driven through corpus scripts (the Coq witnesses) and seeded random schedules;
        after every step the registry owner, each node's grains-map entry, activation flag, live instances,
        the next operation of every thread and the result of every finished flight are compared with the
        Coq model evaluated (vm_compute) on the same labels.
Oracle: instrumented grains (live between OnActivate success and OnDeactivate entry): at most one live
        instance per identity at any instant; at quiescence the registry names the holder. Also real-goroutine
        stress.
"""
import glob
import json
import os
import re

from vlib import canon_hash


def read_jsonl(path):
    """tolerates a truncated last line (harness killed by its timeout)"""
    out = []
    if not os.path.exists(path):
        return out
    for line in open(path, errors="replace"):
        line = line.strip()
        if line:
            try:
                out.append(json.loads(line))
            except ValueError:
                break
    return out


def read_jsonl_safe(path):
    return read_jsonl(path)

SIG_CLAIMLESS = "tryClaimGrain:claim-lost-then-record-gone:activates-without-claim"
SIG_LATE_REMOVE = "grainPID.deactivate:late-RemoveGrain-after-same-node-reactivation"

WHAT_CLAIMLESS = ("two nodes hold a live instance of one grain: a node that lost PutGrainIfAbsent re-reads the owner "
                  "record after the winner rolled its claim back (failed OnActivate or deactivation), gets ErrGrainNotFound, "
                  "tryClaimGrain returns (false,nil,nil) and ensureGrainOwnership lets it activate WITHOUT a claim; another "
                  "node claims the free record and activates too; the claim-less node's plain PutGrain then overwrites the "
                  "rightful owner's record")
WHAT_LATE_REMOVE = ("grainPID.deactivate is not serialized with the activation flight: after grains.Delete and before "
                    "RemoveGrain a send on the same node re-activates the grain (the record still names this node, so no claim "
                    "is needed); the late RemoveGrain then deletes the record of the NEW activation: a live instance is not "
                    "named by the registry at quiescence and any other node can claim and activate a second instance")


def hl(s):
    b = lambda x: "true" if x else "false"
    a = s["a"]
    if a == "start":
        return "HStart %d" % s["n"]
    if a == "lead":
        return "HLead %d %s" % (s["n"], b(s["ok"]))
    if a == "dstart":
        return ("HDStartThr %d %d" % (s["n"], s["i"])) if s.get("src") == "thr" else "HDStartMap %d" % s["n"]
    if a == "deact":
        return "HDeact %d %d %s" % (s["n"], s["i"], b(s["ok"]))
    raise ValueError(a)


def gen_scripts(ctx):
    scripts = []
    for p in sorted(glob.glob(os.path.join(os.path.dirname(__file__), "..", "corpus", "C30", "*.json"))):
        sc = json.load(open(p))
        sc.pop("comment", None)
        scripts.append(sc)
    # fault + race family: a victim flight with failures at chosen operations, a complete competitor flight of another node
    # inserted before each of its operations, then full flights elsewhere
    for fails in ([], [2], [3], [3, 4], [3, 5], [0], [1]):
        for ins in range(0, 8):
            if not ctx.thorough and (len(fails) == 1 and fails[0] in (0, 1)) and ins > 2:
                continue
            scripts.append({"id": "pair_f%s_i%d" % ("".join(map(str, fails)) or "none", ins), "nodes": 3, "mode": "pair", "flavor": "guarded",
                            "fails": fails, "insert_at": ins})
    n = 600 if ctx.thorough else 40
    for i in range(n):
        flavor = ["guarded", "claimless", "overlap", "guarded"][i % 4]
        scripts.append({"id": "r%d" % i, "nodes": 3, "mode": "random", "seed": ctx.rng.randrange(1, 2 ** 62),
                        "max_steps": ctx.rng.choice([20, 35, 50]), "flavor": flavor,
                        "fail_pct": ctx.rng.choice([0, 10, 25, 40])})
    return scripts


def quiescent_unnamed(obs, nodes):
    """from one flat observation: (quiescent, node holding a live instance that the registry does not name or None)"""
    owner = obs[0] - 1
    i = 1
    quiet = True
    bad = None
    for n in range(nodes):
        g, gl, l, f, r, nd = obs[i:i + 6]
        i += 6
        if f != 0:
            quiet = False
        for k in range(nd):
            if obs[i] not in (10, 11):
                quiet = False
            i += 2
        if l > 0 and owner != n:
            bad = n
    return quiet, bad


def run(ctx):
    _orig_violation = ctx.violation
    _count = {}

    def _cap(sig, what, replay=None):
        _count[sig] = _count.get(sig, 0) + 1
        if _count[sig] <= 3:
            _orig_violation(sig, what, replay)
    ctx.violation = _cap
    ctx.trusted += [
        "registry linearizability and atomicity of the NX put (olric/memberlist): modelled by C30/Registry.v, not verified; "
        "the fake registry executes cluster.PutGrainIfAbsent's exists+put fallback as one atomic step, as the builtin engine's NX put does",
        "the harness: fake cluster.Cluster (go/inpkg/actor/zz_verif_C30reg_test.go), controlled scheduler, instrumented grain",
        "x/sync singleflight (one leader per key, followers share its result): modelled as at most one flight per node from lookup to the end of every rollback; "
        "checked on the real code by TestVerifC30Flight (a second same-node caller at every scheduling point of a flight, failures injected)",
        "records never expire: Registry.r_persist / C30_registry_claim_persists; checked on the real cluster code (no expiry option on grain writes; a claim still blocks after the clock advanced)",
    ]
    ctx.assumptions += [
        "one grain identity; nodes never crash (relocation is C32/C33); activation barrier disabled; grain kind registered on every node",
        "C30_partial guard: no claim-less continuation after a lost claim, and a deactivation never overlaps the same node's activation flight or another deactivation",
    ]
    scripts = gen_scripts(ctx)
    flavor_of = {sc["id"]: sc.get("flavor", "guarded") for sc in scripts}
    with open(os.path.join(ctx.work, "c30_scripts.jsonl"), "w") as f:
        for sc in scripts:
            f.write(json.dumps(sc) + "\n")
    for fn in ("c30_traces.jsonl", "c30_stress.jsonl", "c30_flight.jsonl"):
        p = os.path.join(ctx.work, fn)
        if os.path.exists(p):
            os.remove(p)
    rounds = 600 if ctx.thorough else 120
    rc, out = ctx.go_test("actor", "^TestVerifC30", ["zz_verif_C30_test.go", "zz_verif_C30reg_test.go"],
                          env={"VERIF_C30_ROUNDS": str(rounds)}, race=False)
    ctx.log("go harness done rc=%d" % rc)
    traces = read_jsonl(os.path.join(ctx.work, "c30_traces.jsonl"))
    for t in traces:
        for k in ("steps", "obs", "events", "ops", "max_on"):
            if t.get(k) is None:
                t[k] = []
        t.setdefault("max_live", 0)
        t.setdefault("max_run", 0)
        t.setdefault("nodes", 3)
    stress = read_jsonl(os.path.join(ctx.work, "c30_stress.jsonl"))
    if rc != 0 or len(traces) != len(scripts) or not stress:
        ctx.tie_broken("go-harness actor grain engine (TestVerifC30*)", out)
    if ctx.thorough and rc == 0:
        rc_r, out_r = ctx.go_test("actor", "^TestVerifC30Stress", ["zz_verif_C30_test.go", "zz_verif_C30reg_test.go"],
                                  env={"VERIF_C30_ROUNDS": "200"}, race=True, timeout=1200)
        if rc_r != 0:
            # The -race pass is supporting evidence only (DESIGN 3.3): a data-race report by the Go race detector is
            # recorded, it is not a violation of this property and must not fail the check on its own.
            if "race detected during execution of test" in out_r or "WARNING: DATA RACE" in out_r:
                ctx.notes.append("go-harness stress under -race: the Go race detector reported a data race (supporting evidence only); tail: " + out_r[-600:])
                ctx.coverage["race_detector_reports"] = ctx.coverage.get("race_detector_reports", 0) + out_r.count("WARNING: DATA RACE")
            else:
                ctx.tie_broken("go-harness stress under -race", out_r)
        else:
            stress += read_jsonl(os.path.join(ctx.work, "c30_stress.jsonl"))

    # ---- model evaluated on the same labels (Coq, vm_compute)
    model = {}
    fx = "false"
    if traces:
        items = []
        for t in traces:
            items.append("[%s]" % "; ".join("(%s, [%s])" % (hl(s), "; ".join(map(str, o))) for s, o in zip(t["steps"], t["obs"])))
        ok_m, out_m = ctx.coq_build(["theories/C30/Model.vo"])
        # which protocol does the tree implement? (fx = the repair proposed in fixes/C30-claim-retry.diff: after a lost claim
        # whose record has vanished, claim again). Decided by the claim-less witness: it conforms to exactly one variant.
        wit = [it for t, it in zip(traces, items) if t["id"] == "witness_claimless"]
        if ok_m and wit:
            probe = ("From Coq Require Import List Arith Bool. Import ListNotations.\n"
                     "From GV Require Import C30.Registry C30.Model.\n"
                     "Definition w : list (hlabel * list nat) := %s.\n"
                     "Eval vm_compute in (fst (fst (fst (fst (conform false 3 state0 w 0 0 0 0 None)))), fst (fst (fst (fst (conform true 3 state0 w 0 0 0 0 None))))).\n") % wit[0]
            rcp, op = ctx.coq_eval("probe_C30", probe)
            mp = re.search(r"= \((None|Some \d+), (None|Some \d+)\)", " ".join(op.split()))
            if rcp == 0 and mp and mp.group(1) != "None" and mp.group(2) == "None":
                fx = "true"
                ctx.notes.append("the tree implements the repaired claim protocol (claim again after a vanished owner record): model evaluated with fx=true")
        body = ("From Coq Require Import List Arith Bool. Import ListNotations.\n"
                "From GV Require Import C30.Registry C30.Model.\n"
                "Definition traces : list (list (hlabel * list nat)) := [\n%s].\n"
                "Definition res := map (fun tr => conform %s 3 state0 tr 0 0 0 0 None) traces.\n"
                "Eval vm_compute in res.\n") % (";\n".join(items), fx)
        rc2, o2 = ctx.coq_eval("cases_C30", body) if ok_m else (1, out_m)
        ctx.log("model evaluated rc=%d" % rc2)
        flat = " ".join(o2.split())
        rows = re.findall(r"\(\s*(None|Some (\d+)), (\d+), (\d+), (\d+), (None|Some (\d+))\)", flat)
        if rc2 != 0 or len(rows) != len(traces):
            ctx.tie_broken("model evaluation (cases_C30.v did not evaluate)", o2)
        else:
            for t, r in zip(traces, rows):
                model[t["id"]] = {"mismatch": None if r[0] == "None" else int(r[1]), "claimless": 0 if fx == "true" else int(r[2]), "overlap": int(r[3]),
                                  "max_live": int(r[4]), "unnamed_q": None if r[5] == "None" else int(r[6])}

    # ---- conformance + oracle, trace by trace
    n_mis = 0
    hist = {}
    known_seen = set()
    distinct = set()
    lens = []
    two_live = 0
    for t in traces:
        tid = t["id"]
        lens.append(len(t["steps"]))
        for s in t["steps"]:
            k = s["a"] + ("" if s["a"] in ("start", "dstart") else (":ok" if s["ok"] else ":fail"))
            hist[k] = hist.get(k, 0) + 1
        if t.get("err") and not (fx == "true" and tid == "witness_claimless"):
            n_err = _count.get("script-err", 0) + 1
            _count["script-err"] = n_err
            if n_err <= 2:
                ctx.tie_broken("harness script %s could not be applied" % tid, t["err"])
        m = model.get(tid)
        acts = sum(1 for o in t["obs"] for _ in [0] if False)
        if len(t["steps"]) >= 6 and any(s["a"] == "lead" for s in t["steps"]):
            distinct.add(canon_hash([(s["a"], s["n"], s["ok"], s.get("src"), s["i"]) for s in t["steps"]]))
        # the property's own oracle on the real run
        bad_live = t["max_live"] > 1
        bad_q = None
        for i, o in enumerate(t["obs"]):
            q, bad = quiescent_unnamed(o, t["nodes"])
            if q and bad is not None:
                bad_q = (i, bad, o[0] - 1)
                break
        if bad_live:
            two_live += 1
        if bad_live or bad_q:
            replay = {"script": {"id": tid, "nodes": t["nodes"], "mode": "script", "steps": t["steps"]},
                      "max_live": t["max_live"], "live_on_nodes": t["max_on"], "registry_ops": t["ops"],
                      "quiescent_unnamed_holder": bad_q, "model": m,
                      "how": "put the script into .build/C30/c30_scripts.jsonl and run TestVerifC30Scripts (see checks/C30.py)"}
            what = ("%d live instances of one grain identity on nodes %s" % (t["max_live"], t["max_on"])) if bad_live else \
                   ("at quiescence (step %d) node %d holds a live instance but the registry names %s" % (bad_q[0], bad_q[1], bad_q[2] if bad_q[2] >= 0 else "nobody"))
            fl = flavor_of.get(tid, "guarded")
            if m is None or (m["claimless"] == 0 and m["overlap"] == 0):
                ctx.violation("at_most_one_active:schedule-within-C30_partial-guard", what + " in a schedule without claim-less step and without deactivation overlap", replay)
            elif m["claimless"] > 0 and m["overlap"] == 0:
                if SIG_CLAIMLESS not in known_seen:
                    ctx.violation(SIG_CLAIMLESS, WHAT_CLAIMLESS + " [" + what + "]", replay)
                known_seen.add(SIG_CLAIMLESS)
            elif m["overlap"] > 0 and m["claimless"] == 0:
                if SIG_LATE_REMOVE not in known_seen:
                    ctx.violation(SIG_LATE_REMOVE, WHAT_LATE_REMOVE + " [" + what + "]", replay)
                known_seen.add(SIG_LATE_REMOVE)
            else:
                ctx.violation("at_most_one_active:mixed-schedule(%s)" % fl, what, replay)
        if m is not None and m["mismatch"] is not None:
            n_mis += 1
            if n_mis <= 3:
                i = m["mismatch"]
                ctx.tie_broken("grain engine vs C30/Model.v at step %d of %s" % (i, tid),
                               {"step": t["steps"][i] if i < len(t["steps"]) else None, "implementation_observed": t["obs"][i] if i < len(t["obs"]) else None,
                                "prefix": t["steps"][:i + 1], "registry_ops": t["ops"],
                                "encoding": "[owner+1, per node: G GL L F R nd (code flag)*] see zz_verif_C30_test.go c30Run.observe"})
        if m is not None and m["mismatch"] is None and m["max_live"] != t["max_live"]:
            ctx.tie_broken("live-instance high-water mark differs (%s): model %d implementation %d" % (tid, m["max_live"], t["max_live"]), t["steps"])

    flights = read_jsonl(os.path.join(ctx.work, "c30_flight.jsonl"))
    if rc == 0 and len(flights) < 10:
        ctx.tie_broken("go-harness single-flight contract (TestVerifC30Flight)", out)
    for fl in flights:
        if fl.get("max_live", 0) > 1 or fl.get("unnamed"):
            what = ("%d live instances on nodes %s" % (fl["max_live"], fl.get("max_on"))) if fl.get("max_live", 0) > 1 else fl["unnamed"]
            ctx.violation("at_most_one_active:second-activation-while-flight-in-progress",
                          "%s: while the activation flight of node 0 (failing operations %s) stood at its operation #%d (%s) a second caller on the same node %s; "
                          "then another node addressed the identity" % (what, fl["fails"], fl["probe_at"], fl.get("probe_hook"),
                                                                       "ran an activation of its own" if fl.get("independent") else "waited"),
                          {"scenario": {k: fl.get(k) for k in ("fails", "probe_at", "probe_hook", "independent", "notes")}, "registry_ops": fl.get("ops"),
                           "how": "TestVerifC30Flight in go/inpkg/actor/zz_verif_C30_test.go"})
    # the witnesses must still be witnesses on the real code while they are listed as known findings
    for st in stress:
        if st.get("where"):
            ctx.violation("at_most_one_active:stress(%s)" % st["regime"], "real goroutines, no failure and no deactivation: " + st["where"],
                          {"regime": st["regime"], "where": st["where"], "registry_ops": st["ops"], "rerun": "VERIF_SEED=%d bin/check C30 %s" % (ctx.seed, ctx.tier)})
        if st.get("bad_owner"):
            ctx.violation("registry_names_holder:stress(%s)" % st["regime"], "real goroutines at quiescence: " + st["bad_owner"],
                          {"regime": st["regime"], "where": st["bad_owner"], "registry_ops": st["ops"]})

    # ---- cluster side: the real grain-record operations of internal/cluster vs Registry.v
    reg_cases = []
    for i in range(60 if ctx.thorough else 20):
        ops = []
        for _ in range(ctx.rng.choice([8, 16, 30])):
            ops.append({"op": ctx.rng.choice(["put", "pia", "pia", "remove", "tick"]), "k": ctx.rng.randrange(0, 3), "v": ctx.rng.randrange(1, 4)})
        reg_cases.append({"id": "c%d" % i, "ops": ops})
    reg_cases.append({"id": "nx", "ops": [{"op": "pia", "k": 0, "v": 1}, {"op": "pia", "k": 0, "v": 2}, {"op": "put", "k": 0, "v": 3},
                                          {"op": "remove", "k": 0, "v": 0}, {"op": "pia", "k": 0, "v": 2}]})
    # a claim must persist until it is released, however long the claimer takes to activate and publish
    reg_cases.append({"id": "claim_persists", "ops": [{"op": "pia", "k": 1, "v": 1}, {"op": "tick", "k": 0, "v": 0}, {"op": "pia", "k": 1, "v": 2},
                                                      {"op": "put", "k": 1, "v": 1}, {"op": "tick", "k": 0, "v": 0}, {"op": "pia", "k": 1, "v": 3}]})
    with open(os.path.join(ctx.work, "c30_reg_cases.jsonl"), "w") as f:
        for c in reg_cases:
            f.write(json.dumps(c) + "\n")
    p_out = os.path.join(ctx.work, "c30_reg_out.jsonl")
    if os.path.exists(p_out):
        os.remove(p_out)
    rc3, out3 = ctx.go_test("internal/cluster", "^TestVerifC30", ["zz_verif_C30_test.go"])
    reg_out = read_jsonl(p_out)
    reg_mis = None
    if rc3 != 0 or len(reg_out) != len(reg_cases):
        ctx.tie_broken("go-harness internal/cluster grain record operations", out3)
    else:
        def opl(o):
            if o["op"] == "tick":
                return "RExists 99"  # time passing is not a registry operation: in the model records persist until removed (Registry.r_persist)
            return {"put": "RPut %d %d", "pia": "RPutIfAbsent %d %d"}.get(o["op"], "RRemove %d") % ((o["k"], o["v"]) if o["op"] != "remove" else (o["k"],))
        items = []
        for c, o in zip(reg_cases, reg_out):
            steps = []
            for op, r, st in zip(c["ops"], o["res"], o["store"]):
                steps.append("(%s, %d, [%s])" % (opl(op), r, "; ".join("(%d, %d)" % (k, v) for k, v in st)))
            items.append("[%s]" % "; ".join(steps))
        body = ("From Coq Require Import List Arith Bool. Import ListNotations.\n"
                "From GV Require Import C30.Registry.\n"
                "Definition keys := [0; 1; 2].\n"
                "Definition snap (r : reg nat) : list (nat * nat) := flat_map (fun k => match r_get k r with Some v => [(k, v)] | None => [] end) keys.\n"
                "Definition code (x : @rres nat) (o : @rop nat) : nat := match o, x with RPutIfAbsent _ _, ResBool false => 1 | _, _ => 0 end.\n"
                "Fixpoint peq (a b : list (nat * nat)) : bool := match a, b with [] , [] => true | (x, y) :: a', (u, v) :: b' => Nat.eqb x u && Nat.eqb y v && peq a' b' | _, _ => false end.\n"
                "Fixpoint chk (r : reg nat) (l : list (@rop nat * nat * list (nat * nat))) (i : nat) : option nat :=\n"
                "  match l with [] => None | (o, res, st) :: t => let '(r', x) := r_apply r o in\n"
                "    if Nat.eqb (code x o) res && peq (snap r') st then chk r' t (S i) else Some i end.\n"
                "Definition cases : list (list (@rop nat * nat * list (nat * nat))) := [\n%s].\n"
                "Eval vm_compute in map (fun c => chk r_empty c 0) cases.\n") % ";\n".join(items)
        rc4, o4 = ctx.coq_eval("cases_C30_reg", body)
        flat4 = " ".join(o4.split())
        mres = re.search(r"= \[(.*?)\] : list", flat4)
        if rc4 != 0 or not mres:
            ctx.tie_broken("Registry.v evaluation (cases_C30_reg.v)", o4)
        else:
            verdicts = [x.strip() for x in mres.group(1).split(";")]
            bad = [(c["id"], v) for c, v in zip(reg_cases, verdicts) if v != "None"]
            reg_mis = len(bad)
            if bad:
                cid, v = bad[0]
                c = [c for c in reg_cases if c["id"] == cid][0]
                o = [o for o in reg_out if o["id"] == cid][0]
                ctx.tie_broken("internal/cluster grain record operations vs C30/Registry.v (%s at op %s)" % (cid, v),
                               {"ops": c["ops"], "results": o["res"], "store_after_each_op": o["store"], "nx_option_seen": o["nx"]})
        # the claim must be an NX put: property-level oracle on the real code, independent of the model
        for c, o in zip(reg_cases, reg_out):
            owner = {}
            for i, (op, r, nx) in enumerate(zip(c["ops"], o["res"], o["nx"])):
                if op["op"] in ("pia", "put") and (o.get("ttl") or [False] * len(o["res"]))[i]:
                    ctx.violation("grain-record:written-with-expiry", "cluster.%s wrote the record of grain %d with an expiry: an ownership claim/record must persist until released" % ("PutGrainIfAbsent" if op["op"] == "pia" else "PutGrain", op["k"]),
                                  {"ops": c["ops"][:i + 1], "results": o["res"][:i + 1], "expiry_option_seen": o["ttl"][:i + 1]})
                    break
                if op["op"] == "pia":
                    if op["k"] in owner and r == 0:
                        ctx.violation("PutGrainIfAbsent:overwrites-existing-claim", "cluster.PutGrainIfAbsent succeeded for grain %d although node %d already holds the record" % (op["k"], owner[op["k"]]),
                                      {"ops": c["ops"], "results": o["res"], "nx_option_seen": o["nx"]})
                        break
                    if op["k"] not in owner and r == 0:
                        owner[op["k"]] = op["v"]
                elif op["op"] == "put" and r == 0:
                    owner[op["k"]] = op["v"]
                elif op["op"] == "remove" and r == 0:
                    owner.pop(op["k"], None)

    # ---- the theorems
    if not ctx.coq_property():
        if not any(f.kind == "violation" and f.signature not in (SIG_CLAIMLESS, SIG_LATE_REMOVE) for f in ctx.findings):
            ctx.proof_broken("Properties/C30.v (%s)" % getattr(ctx, "failed_at", "?"), getattr(ctx, "coq_log", ""))
        else:
            ctx.notes.append("Coq obligation broken at %s; concrete failing schedule reported" % getattr(ctx, "failed_at", "?"))

    ctx.coverage.update({
        "evaluations": len(traces) + sum(s.get("rounds", 0) for s in stress),
        "distinct_nontrivial": len(distinct),
        "rule": "corpus scripts (Coq witnesses at harness granularity + a rollback case), the fault+race family (victim flight with failures at chosen operations x a complete competitor flight inserted before each operation), then seeded random schedules over 3 nodes in three flavours "
                "(guarded = inside the guard of C30_partial; claimless = no deactivation threads, claim-less continuation allowed; overlap = deactivation may "
                "overlap the flight, claim-less continuation avoided), failure injection 0-40% per step; non-trivial = at least 6 steps including a leader "
                "operation; distinct by the label sequence",
        "samples": [{"id": t["id"], "steps": t["steps"][:12], "obs_last": t["obs"][-1] if t["obs"] else None} for t in traces[:2] + traces[len(traces) // 2:len(traces) // 2 + 1]],
        "traces_validated_against_impl": len([1 for t in traces if model.get(t["id"]) and model[t["id"]]["mismatch"] is None]),
        "steps_compared": sum(lens), "trace_len_max": max(lens) if lens else 0, "label_histogram": hist,
        "traces_with_two_live_instances": two_live, "model_vs_impl_mismatches": n_mis,
        "stress": [{k: v for k, v in s.items() if k != "ops"} for s in stress],
        "known_schedule_shapes_replayed": sorted(known_seen),
        "single_flight_probe_scenarios": len(flights), "single_flight_second_caller_independent": sum(1 for f in flights if f.get("independent")),
        "cluster_record_op_cases": len(reg_cases), "cluster_record_op_mismatches": reg_mis,
        "theorems": ["C30_refuted", "C30_registry_refuted", "C30_refuted_no_failure", "C30_partial", "C30_partial_repaired", "C30_repaired_guard_is_overlap_only", "C30_partial_at_most_one", "C30_partial_registry_names_holder", "C30_partial_nonvacuous", "C30_registry_nx_exclusive"],
    })


META = {
    "ready": True,
    "category": "proof",
    "technique": "Rocq inductive invariant over an interleaving model of the activation protocol + controlled-scheduler conformance against the real engine",
    "text": "grain_engine.go's ownership/claim/activate/publish protocol and grainPID.deactivate modelled step by step over a linearizable registry; literal property refuted by two machine-checked witness schedules that are replayed on the real engine every run (known findings); inductive invariant proves at-most-one-active and registry-names-holder for all other executions, any number of nodes.",
    "design_ref": "DESIGN.md 7/C30",
    "level_note": "Trusted: Coq kernel, registry linearizability/NX atomicity (olric), singleflight, the fake cluster and controlled scheduler of the harness.",
}
