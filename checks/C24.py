"""C24 — connection compression is transparent (partial by nature: the codecs are external).

Proof:  Properties/C24.v — for EVERY streaming codec meeting the contract (segmentation-independent
        decoder; after a Flush everything written is decodable), every write segmentation and every
        transport segmentation: after each compressedConn.Write (= Write;Flush) returns, the peer
        can read exactly the concatenation of all writes so far. A buffering counter-codec shows the
        Flush is necessary.
Tie:    the REAL gzip / zstd / brotli wrappers (two levels) and no wrapper, over an in-memory duplex
        connection that re-segments the stream (1 byte, irregular, MTU-like), both directions,
        long-lived connections (cumulative traffic beyond every size/memory option, zstd also with a
        small configured budget), healthy connections interleaved with failed handshakes (peer hangs
        up / silent until the deadline / other protocol / dies in the header) on one wrapper instance,
        wrapper instances reused for consecutive connections (pool recycling), write sizes
        0, 1, 2^k±1 … 1 MiB. After EVERY Write the peer must read exactly that Write's bytes with no
        further Write (promptness) and they must be equal (losslessness) — this is the codec
        contract being tested on the real libraries. The Coq connection model is evaluated
        (buffering codec, re-segmenting transport) on the small runs' actual payloads and its
        per-write (readable length, checksum) sequence compared with what the real peers read.
"""
import json
import os
import re

from vlib import read_jsonl, canon_hash
from bytes_util import pack

HEADER = """From Coq Require Import NArith List Bool Uint63.
From GV Require Import Lib.Bytes Lib.BytesPack C24.Model C24.Eval.
Import ListNotations.
Open Scope uint63_scope.
"""


def run(ctx):
    ctx.trusted += [
        "compress/gzip (stdlib), klauspost/compress/zstd, andybalholm/brotli: DEFLATE/zstd/brotli are NOT modelled; they enter as the abstract codec contract codec_ok, which this run tests on the real libraries",
        "the in-memory duplex connection of the harness stands for TCP (reliable, ordered, arbitrary segmentation)",
    ]
    ctx.assumptions += [
        "codec contract (codec_ok): the decoder's output depends only on the concatenation of the bytes fed, and after Flush the bytes emitted so far decode to everything written so far",
        "Wrap hands out encoders/decoders in their Reset state (also when recycled from the pool) — exercised by reusing each wrapper for several consecutive connections",
    ]
    p = os.path.join(ctx.work, "c24_runs.jsonl")
    if os.path.exists(p):
        os.remove(p)
    rc, out = ctx.go_test("internal/net", "^TestVerifC24$", ["zz_verif_C24_test.go"], timeout=900)
    runs = read_jsonl(p)
    if rc != 0 or not runs:
        ctx.tie_broken("go-harness internal/net TestVerifC24", out)

    # ---------------------------------------------------------------- oracle on the real wrappers
    nv = 0
    for r in runs:
        for msg in r.get("Fail") or []:
            if nv >= 5:
                break
            nv += 1
            if "readable after Write returned" in msg:
                sig = "not-prompt:" + r["Codec"].split("-")[0]
            elif "differ" in msg or "stray" in msg:
                sig = "not-lossless:" + r["Codec"].split("-")[0]
            elif "panic" in msg:
                sig = "panic:" + r["Codec"].split("-")[0]
            else:
                sig = "io-error:" + r["Codec"].split("-")[0]
            kind = r.get("Kind", "mixed")
            if kind == "long-lived":
                sig += ":long-lived-connection"
                msg += " [cumulative bytes written on this connection before the failing Write: %d]" % sum(w["Size"] for w in r["Writes"][:-1])
            elif kind == "after-aborts":
                sig += ":after-failed-handshakes"
                msg += " [healthy connection following failed handshakes on the same wrapper instance: %s]" % "; ".join(r.get("Aborts") or [])
            ctx.violation(sig, "compressed connection (%s, %s, connection #%d of this wrapper, transport segmentation %s): %s" %
                          (r["Codec"], kind, r["ConnNo"], {0: "none", 1: "1 byte"}.get(r["Seg"], "<=%d bytes" % r["Seg"]), msg),
                          {"codec": r["Codec"], "scenario": kind, "aborted_connections_before": r.get("Aborts"), "connection_no": r["ConnNo"], "segmentation": r["Seg"],
                           "writes(dir,size,wire_bytes,readable_after)": [(w["Dir"], w["Size"], w["Wire"], w["Got"]) for w in r["Writes"]][:400],
                           "how": "Wrap both ends of an in-memory duplex conn with the named wrapper; perform the writes in order; after each, read Size bytes from the peer with a 3 s deadline"})

    # ---------------------------------------------------------------- model vs implementation (small runs)
    mism = None
    small = [r for r in runs if r.get("Small") and not r.get("Fail")]
    ok_eval, out_eval = ctx.coq_build(["theories/C24/Eval.vo"])
    if not ok_eval:
        ctx.tie_broken("C24/Model.v or C24/Eval.v does not compile", out_eval)
    elif small:
        lines = [HEADER]
        names = []
        for r in small:
            for d in (0, 1):
                ws = [w for w in r["Writes"] if w["Dir"] == d]
                if not ws:
                    continue
                nm = "r%d_%d" % (r["I"], d)
                names.append(nm)
                seg = {0: 4096, 1: 1}.get(r["Seg"], r["Seg"])
                lines.append("Definition %s := pairs_eq (run_conn buf_codec %d%%nat [%s]) [%s]." % (
                    nm, seg, ";".join("unpack " + pack(bytes.fromhex(w.get("Hex") or "")) for w in ws),
                    ";".join("(%d%%N,%d%%N)" % (w["Got"], w["Sum"]) for w in ws)))
                # the same writes through the identity codec ("none") and a 1-byte transport
                lines.append("Definition %s_id := pairs_eq (run_conn id_codec 1%%nat [%s]) [%s]." % (
                    nm, ";".join("unpack " + pack(bytes.fromhex(w.get("Hex") or "")) for w in ws),
                    ";".join("(%d%%N,%d%%N)" % (w["Got"], w["Sum"]) for w in ws)))
                names.append(nm + "_id")
        lines.append("Definition res := [%s]." % ";".join(names))
        lines.append("Eval vm_compute in (length res, length (filter negb res)).")
        rc2, o2 = ctx.coq_eval("cases_C24", "\n".join(lines) + "\n")
        m = re.search(r"= \((\d+)%nat, (\d+)%nat\)", " ".join(o2.split()))
        if rc2 != 0 or not m:
            ctx.tie_broken("model evaluation (cases_C24.v did not evaluate)", o2[-3000:])
        else:
            mism = int(m.group(2))
            if int(m.group(1)) != len(names):
                ctx.tie_broken("model evaluation: case count differs", o2[-500:])
            if mism:
                ctx.tie_broken("model-vs-implementation compressedConn (per-write readable length/checksum) differ in %d of %d direction runs" % (mism, len(names)), o2[-1500:])

    if not ctx.coq_property():
        if not any(f.kind == "violation" for f in ctx.findings):
            ctx.proof_broken("Properties/C24.v (%s)" % getattr(ctx, "failed_at", "?"), getattr(ctx, "coq_log", ""))
        else:
            ctx.notes.append("Coq obligation broken at %s; concrete failing input reported" % getattr(ctx, "failed_at", "?"))

    sizes, per_codec = {}, {}
    distinct = set()
    nwrites = 0
    for r in runs:
        pc = per_codec.setdefault(r["Codec"], {"connections": 0, "writes": 0, "bytes": 0, "wire_bytes": 0})
        pc["connections"] += 1
        for w in r["Writes"]:
            nwrites += 1
            pc["writes"] += 1
            pc["bytes"] += w["Size"]
            pc["wire_bytes"] += w["Wire"]
            b = "0" if w["Size"] == 0 else "1" if w["Size"] == 1 else "2^%d.." % (w["Size"].bit_length() - 1)
            sizes[b] = sizes.get(b, 0) + 1
        if sum(w["Size"] for w in r["Writes"]) > 0:
            distinct.add(canon_hash([r["Codec"], r.get("Kind"), r["Seg"], [(w["Dir"], w["Size"]) for w in r["Writes"]]]))
    ctx.coverage.update({
        "evaluations": nwrites,
        "distinct_nontrivial": len(distinct),
        "rule": "a connection run = (codec, transport segmentation, sequence of (direction, write size)); non-trivial = carries at least one byte; every Write is checked for promptness and equality",
        "write_size_histogram": sizes, "per_codec": per_codec,
        "scenarios": {k: sum(1 for r in runs if r.get("Kind", "mixed") == k) for k in ("mixed", "long-lived", "after-aborts")},
        "long_lived_MiB": {r["Codec"]: sum(w["Size"] for w in r["Writes"]) >> 20 for r in runs if r.get("Kind") == "long-lived"},
        "model_mismatches": mism, "model_runs": len(small),
        "samples": [{"codec": r["Codec"], "seg": r["Seg"], "writes": [(w["Dir"], w["Size"], w["Wire"]) for w in r["Writes"][:8]]} for r in runs[5:8]],
        "theorems": ["C24_lossless_and_prompt_partial", "C24_prompt_after_each_write_partial", "C24_incremental_partial",
                     "C24_wire_only_grows", "C24_reads_in_order", "C24_contract_satisfiable", "C24_flush_is_needed", "C24_no_cumulative_limit_partial", "C24_failed_handshakes_do_not_poison_the_pool", "C24_pooled_lazy_reader_refuted"],
    })


META = {
    "ready": True,
    "category": "proof",
    "technique": "Rocq proof relative to an explicit streaming-codec contract + contract test and differential run on the real gzip/zstd/brotli wrappers",
    "text": "For every codec meeting the sync-flush contract, every write segmentation and every transport segmentation, after each compressedConn.Write returns the peer can read exactly the concatenation of all writes so far (lossless, ordered, prompt); the Flush is shown necessary by a buffering counter-codec. The real wrappers are driven with write sizes 0,1,2^k±1..1 MiB over a re-segmenting in-memory connection, both directions, with pool reuse; each Write is checked for promptness and equality, and the Coq connection model is evaluated on the small runs.",
    "design_ref": "DESIGN.md 7/C24",
    "level_note": "Partial by nature: DEFLATE/zstd/brotli are external and unmodelled; they are the contract codec_ok (trusted, tested each run). Trusted: Coq kernel, the harness's in-memory connection as a stand-in for TCP.",
}
