"""C43 — the producer never outruns the consumer's demand.

Same model, harness and tie as C42 (see checks/C42.py); schedules biased towards slow consumers, small windows and
reordering so that the demand boundary and the receive buffer are under pressure.
Oracle on the real traffic: every SequencedMessage carries a seq <= the highest request-up-to the consumer controller
has sent (and <= the highest one the producer controller has received), demandUpTo never exceeds it, and the
consumer-side buffer never exceeds the window. Chunked and durable flows (oracle only) additionally see the
consumer controller reported dead and replaced (Terminated notice to the producer controller, fresh registration),
the path through which handleTerminated could park demandUpTo at a currentSeq stored across the grant.
"""
from rd_util import run_rd_check, oracle_c43

THEOREMS = ["C43_never_beyond_requested", "C43_emitted_within_demand", "C43_buffer_within_window",
            "C43_chunked_registration_refuted", "C43_chunked_registration_partial", "C43_chunked_terminated_refuted"]


def run(ctx):
    run_rd_check(ctx, "C43", "TestVerifC43", ["zz_verif_C43_test.go", "zz_verif_C42_test.go"],
                 [("slowcons", 5), ("lossy", 3), ("smooth", 1), ("badendpoint", 1), ("hostile", 2)],
                 oracle_c43, THEOREMS, quick_n=40, thorough_n=400)


META = {
    "ready": True,
    "category": "proof",
    "technique": "Rocq inductive invariant (shared model with C42) + actor-step conformance of the real controllers on generated fault schedules",
    "text": "Three theorems (whole-payload flows, both registration rules) for ALL fault schedules of any length: demandUpTo and even currentSeq never exceed the consumer controller's highest request, which stays within one window of its confirmations, and every SequencedMessage ever sent is within it; at emission time the seq is within the demand; the receive buffer is strictly ascending within (expectedSeq, requestUpToSeq] and so holds at most window-1 entries (the buffer-full drop is unreachable). The real controllers run generated schedules (slow consumer, window 1..16, reordering) and must agree with the Coq model step by step; the oracle measures emitted seqs against requests and the buffer against the window.",
    "design_ref": "DESIGN.md 7/C43",
    "level_note": "Same scope as C42: theorems over the volatile whole-payload core; chunked and durable flows are run on the real code under the oracle only.",
}
