"""C16 — every reentrant request completes exactly once, on the requester's turn.

Proof: Properties/C16.v over the hand-written model C16/Model.v (requestStates, inFlightCount, blockingCount,
       mailbox, reentrancy stash, the split completeRequest, cancelInFlightRequests, reset) for ALL op sequences.
Tie:   (A) generated op sequences are run on a REAL spawned actor whose turn the harness owns (every op is one
       call of the real request / dispatchOne / completeRequest / deregisterRequestState / Cancel / Then /
       cancelInFlightRequests / reset function); the observable state after EVERY step (requestStates keys,
       both counters, mailbox and stash contents, handled messages, per-request completed/outcome/callback/
       continuation-count/cancelRequested/stopTimeout) is compared with `trace` of the Coq model (cases.v +
       vm_compute); (T) real goroutines: dispatcher turns, timers, Cancel from other goroutines, Shutdown.
Oracle: the property's clauses themselves, on every implementation run (see stepOracle / c16StressRound).
"""
import json
import os
import re

from vlib import zlit, canon_hash

O_ARRIVE, O_REPLY, O_FIRE, O_CANCEL, O_STOP, O_CIF, O_RESET, O_RESTART, O_DISPATCH, O_FINISH, O_CTL, O_REQUEST, O_THEN, O_RETUNE = range(14)
OPNAMES = ["Arrive", "Reply", "TimerFire", "Cancel", "Stop", "CancelInFlight", "Reset", "Restart", "Dispatch", "Finish", "Ctl", "Request", "Then", "Retune"]

def read_jsonl(path):
    """one JSON value per line; a torn last line (harness process died) is dropped, the caller notices the missing record"""
    out = []
    if not os.path.exists(path):
        return out
    for line in open(path, errors="replace"):
        line = line.strip()
        if not line:
            continue
        try:
            out.append(json.loads(line))
        except ValueError:
            break
    return out


KNOWN_ORDER = "stash-order:held-messages-reordered-across-rounds"
KNOWN_TAINT = "counters:cancelInFlightRequests-inside-completeRequest"

THEOREMS = ["C16_complete_once", "C16_response_completes", "C16_counters_exact_refuted", "C16_inflight_limit_refuted", "C16_counters_exact_partial",
            "C16_counters_exact_repaired", "C16_stash_mode_isolation_repaired", "C16_counters_zero_after_reset", "C16_stash_mode_isolation_refuted", "C16_stash_mode_isolation_partial",
            "C16_stash_order_refuted", "C16_stash_order_partial"]

# ------------------------------------------------------------------------------------------ corpus
W_TAINT = [[O_REQUEST, 1, 0], [O_REPLY, 0, 1], [O_DISPATCH, 0, 0], [O_CIF, 0, 0], [O_FINISH, 0, 0]]
W_ORDER = [[O_ARRIVE, 0, 0], [O_DISPATCH, 0, 0], [O_REQUEST, 1, 0], [O_ARRIVE, 0, 0], [O_REPLY, 0, 1], [O_ARRIVE, 0, 0], [O_ARRIVE, 0, 0],
           [O_DISPATCH, 0, 0], [O_DISPATCH, 0, 0], [O_FINISH, 0, 0], [O_DISPATCH, 0, 0], [O_REQUEST, 1, 0], [O_DISPATCH, 0, 0], [O_DISPATCH, 0, 0],
           [O_REPLY, 1, 1], [O_DISPATCH, 0, 0], [O_FINISH, 0, 0], [O_DISPATCH, 0, 0], [O_REQUEST, 1, 0], [O_DISPATCH, 0, 0], [O_REPLY, 2, 1],
           [O_DISPATCH, 0, 0], [O_FINISH, 0, 0], [O_DISPATCH, 0, 0]]
D, F = [O_DISPATCH, 0, 0], [O_FINISH, 0, 0]
CORPUS = [
    ("taint-witness (C16_counters_exact/inflight_limit/stash_mode_isolation _refuted)", 1,
     W_TAINT + [[O_REQUEST, 1, 0], [O_ARRIVE, 0, 0], D, [O_REQUEST, 0, 0], [O_STOP, 0, 0], [O_CIF, 0, 0], [O_RESET, 0, 0], [O_RESTART, 0, 0], [O_REQUEST, 1, 1]]),
    ("order-witness (C16_stash_order_refuted)", 0, W_ORDER),
    ("duplicate reply, reply after timeout, reply to unknown id", 0,
     [[O_REQUEST, 0, 1], [O_THEN, 0, 0], [O_REPLY, 0, 1], [O_REPLY, 0, 2], [O_FIRE, 0, 0], [O_REPLY, 7, 1], D, F, D, F, D, F, D, F, [O_THEN, 0, 0]]),
    ("timeout wins, reply dropped; then-after-completion runs at once", 0,
     [[O_REQUEST, 1, 1], [O_FIRE, 0, 0], [O_REPLY, 0, 1], [O_ARRIVE, 0, 0], D, F, [O_THEN, 0, 0], D, F, D, D, [O_CTL, 0, 0]]),
    ("cancel twice, cancel after completion, cancel racing reply", 2,
     [[O_REQUEST, 0, 0], [O_REQUEST, 1, 0], [O_THEN, 1, 0], [O_CANCEL, 0, 0], [O_CANCEL, 0, 0], [O_REPLY, 1, 1], [O_CANCEL, 1, 0], D, F, D, F, D, F, [O_CANCEL, 1, 0], [O_THEN, 0, 0]]),
    ("two blocking requests: release only when the last one completes", 0,
     [[O_REQUEST, 1, 0], [O_REQUEST, 1, 0], [O_REQUEST, 0, 0], [O_ARRIVE, 0, 0], [O_ARRIVE, 1, 0], D, [O_REPLY, 0, 1], D, D, F, [O_CTL, 0, 0], D, [O_REPLY, 2, 1], D, F, D,
      [O_REPLY, 1, 2], D, F, D, D, D]),
    ("in-flight limit boundary", 2,
     [[O_REQUEST, 0, 0], [O_REQUEST, 1, 0], [O_REQUEST, 0, 0], [O_REQUEST, 1, 0], [O_REPLY, 1, 1], D, F, [O_REQUEST, 0, 1], [O_REQUEST, 0, 0], [O_CANCEL, 0, 0], D, F, [O_REQUEST, 1, 0], [O_REQUEST, 1, 0]]),
    ("stop with continuations registered and not registered; reset; restart; late then", 0,
     [[O_REQUEST, 1, 1], [O_REQUEST, 0, 0], [O_REQUEST, 0, 1], [O_THEN, 0, 0], [O_ARRIVE, 0, 0], D, [O_STOP, 0, 0], [O_REQUEST, 0, 0], [O_ARRIVE, 0, 0], [O_REPLY, 1, 1],
      [O_CIF, 0, 0], [O_FIRE, 0, 0], [O_CANCEL, 1, 0], D, F, [O_THEN, 1, 0], [O_THEN, 0, 0], [O_RESET, 0, 0], [O_RESTART, 0, 0], [O_REQUEST, 1, 0], [O_ARRIVE, 0, 0], D, D]),
    ("shutdown cancellation loses against an on-turn completion (emulated preemption), then reset", 0,
     [[O_REQUEST, 0, 1], [O_THEN, 0, 0], [O_REQUEST, 1, 0], [O_REPLY, 0, 1], D, [O_STOP, 0, 0], [O_CIF, 0, 0], [O_RESET, 0, 0], F, [O_RESTART, 0, 0], [O_REQUEST, 0, 0]]),
    ("blocking request, two held messages, reply whose continuation panics: bookkeeping released, held messages handled in order", 1,
     [[O_REQUEST, 1, 0], [O_THEN, 0, 1], [O_ARRIVE, 0, 0], [O_ARRIVE, 1, 0], D, D, [O_REPLY, 0, 1], D, F, [O_REQUEST, 1, 1], [O_THEN, 1, 1], D, [O_FIRE, 1, 0], D, F, D, D,
      [O_REQUEST, 0, 0], [O_REPLY, 2, 2], D, F, [O_THEN, 2, 1], [O_THEN, 2, 1]]),
    ("default mode switched Off (DisableReentrancy) while a blocking request is outstanding: ordinary messages stay held", 0,
     [[O_REQUEST, 1, 0], [O_THEN, 0, 0], [O_RETUNE, 0, 0], [O_ARRIVE, 0, 0], [O_ARRIVE, 1, 0], D, D, [O_CTL, 0, 0], [O_REQUEST, 1, 0], [O_RETUNE, 2, 0], [O_REPLY, 0, 1], D, F,
      [O_RETUNE, 0, 0], [O_ARRIVE, 0, 0], D, [O_REPLY, 1, 1], D, F, D, D, D, [O_RETUNE, 1, 0], [O_REQUEST, 0, 0]]),
    ("restartSubtree: cancelInFlightRequests while running, stranded held messages", 0,
     [[O_REQUEST, 1, 0], [O_THEN, 0, 0], [O_ARRIVE, 0, 0], [O_ARRIVE, 0, 0], D, D, [O_CIF, 0, 0], [O_ARRIVE, 0, 0], D, [O_REQUEST, 1, 0], [O_REPLY, 1, 1], D, F, D, D]),
]


# ------------------------------------------------------------------------------------------ generator
class Guide:
    """A rough mirror used only to pick interesting next ops (the tie evaluates the Coq model, not this)."""

    def __init__(self, mx):
        self.mx, self.nreq, self.mbox, self.mid, self.phase, self.live, self.thens = mx, 0, 0, False, 0, set(), set()


def gen_case(rng, profile):
    mx = rng.choice([0, 0, 1, 2, 3]) if profile != "limit" else rng.choice([1, 2, 3])
    g = Guide(mx)
    n = rng.randint(18, 44)
    ops = []

    def anyreq(bias_live=True):
        if bias_live and g.live and rng.random() < 0.8:
            return rng.choice(sorted(g.live))
        return rng.randint(0, g.nreq + 1) if rng.random() < 0.9 else rng.randint(0, 9)

    while len(ops) < n:
        x = rng.random()
        w = {
            "steady": [(0.16, "arrive"), (0.17, "request"), (0.12, "then"), (0.13, "reply"), (0.26, "dispatch"), (0.03, "cancel"), (0.03, "fire"), (0.05, "ctl"), (0.05, "split"), (0.02, "life")],
            "races": [(0.08, "arrive"), (0.16, "request"), (0.10, "then"), (0.12, "reply"), (0.14, "dispatch"), (0.10, "cancel"), (0.10, "fire"), (0.04, "ctl"), (0.14, "split"), (0.04, "life")],
            "shutdown": [(0.10, "arrive"), (0.16, "request"), (0.10, "then"), (0.10, "reply"), (0.16, "dispatch"), (0.04, "cancel"), (0.04, "fire"), (0.04, "ctl"), (0.10, "split"), (0.18, "life")],
            "limit": [(0.06, "arrive"), (0.34, "request"), (0.08, "then"), (0.16, "reply"), (0.22, "dispatch"), (0.04, "cancel"), (0.03, "fire"), (0.03, "ctl"), (0.04, "split"), (0.02, "life")],
        }[profile]
        acc, kind = 0.0, w[-1][1]
        for p, k in w:
            acc += p
            if x < acc:
                kind = k
                break
        if kind == "arrive":
            ops.append([O_ARRIVE, 1 if rng.random() < 0.25 else 0, 0]); g.mbox += 1   # 1: wrapped in an AsyncRequest envelope
        elif kind == "request":
            stash = 1 if rng.random() < 0.5 else 0
            ops.append([O_REQUEST, stash, 1 if rng.random() < 0.35 else 0])
            if not g.mid and g.phase == 0:
                g.live.add(g.nreq); g.nreq += 1
                if rng.random() < 0.6:
                    ops.append([O_THEN, g.nreq - 1, 1 if rng.random() < 0.2 else 0])   # 1: the continuation panics
        elif kind == "then":
            ops.append([O_THEN, anyreq(False), 1 if rng.random() < 0.2 else 0])
        elif kind == "reply":
            ops.append([O_REPLY, anyreq(), rng.choice([1, 1, 1, 2, 3, 4])]); g.mbox += 1
        elif kind == "cancel":
            ops.append([O_CANCEL, anyreq(), 0]); g.mbox += 1
        elif kind == "fire":
            ops.append([O_FIRE, anyreq(), 0]); g.mbox += 1
        elif kind == "ctl":
            ops.append([O_CTL, 0, 0] if rng.random() < 0.5 else [O_RETUNE, rng.choice([0, 0, 1, 2]), 0])
        elif kind == "dispatch":
            k = rng.randint(1, 3)
            for _ in range(k):
                ops.append([O_DISPATCH, 0, 0]); ops.append([O_FINISH, 0, 0]); g.mbox = max(0, g.mbox - 1)
        elif kind == "split":
            # emulated preemption inside completeRequest: off-turn ops between Dispatch and Finish
            ops.append([O_DISPATCH, 0, 0]); g.mbox = max(0, g.mbox - 1)
            for _ in range(rng.randint(1, 3)):
                y = rng.random()
                if y < 0.3:
                    ops.append([O_CIF, 0, 0])
                elif y < 0.45:
                    ops.append([O_ARRIVE, 0, 0])
                elif y < 0.6:
                    ops.append([O_CANCEL, anyreq(), 0])
                elif y < 0.7:
                    ops.append([O_FIRE, anyreq(), 0])
                elif y < 0.8:
                    ops.append([O_STOP, 0, 0]); ops.append([O_CIF, 0, 0])
                    if rng.random() < 0.5:
                        ops.append([O_RESET, 0, 0])
                elif y < 0.9:
                    ops.append([O_REPLY, anyreq(), 1])
                else:
                    ops.append([O_THEN, anyreq(False), 0])   # no-op while the turn is busy
            ops.append([O_FINISH, 0, 0])
        else:  # life cycle
            y = rng.random()
            if y < 0.45:
                ops += [[O_STOP, 0, 0], [O_CIF, 0, 0], [O_RESET, 0, 0]]
                if rng.random() < 0.7:
                    ops.append([O_RESTART, 0, 0])
            elif y < 0.7:
                ops.append([O_CIF, 0, 0])          # restartSubtree's first call, actor still running
            else:
                ops.append([rng.choice([O_STOP, O_CIF, O_RESET, O_RESTART]), 0, 0])
    # drain: let everything complete so that quiescence clauses are exercised
    if rng.random() < 0.7:
        for r in range(min(g.nreq, 12)):
            if rng.random() < 0.8:
                ops.append([O_REPLY, r, 1])
        for _ in range(min(30, g.mbox + g.nreq + 6)):
            ops.append([O_DISPATCH, 0, 0]); ops.append([O_FINISH, 0, 0])
    return {"Max": mx, "Ops": ops[:110]}


def op_coq(o):
    c, a, b = o
    K = {1: "KReply", 2: "KError", 3: "KTimeout", 4: "KCancel"}
    if c == O_ARRIVE: return "OArrive"
    if c == O_REPLY: return "OReply %d %s" % (a, K.get(b, "KCancel"))
    if c == O_FIRE: return "OTimerFire %d" % a
    if c == O_CANCEL: return "OCancel %d" % a
    if c == O_STOP: return "OStop"
    if c == O_CIF: return "OCancelInFlight"
    if c == O_RESET: return "OReset"
    if c == O_RESTART: return "ORestart"
    if c == O_DISPATCH: return "ODispatch"
    if c == O_FINISH: return "OFinish"
    if c == O_CTL: return "OCtl"
    if c == O_REQUEST: return "ORequest %s %s" % ("true" if a == 1 else "false", "true" if b == 1 else "false")
    if c == O_THEN: return "OThen %d" % a
    if c == O_RETUNE: return "ORetune"
    raise ValueError(o)


def obs_coq(o):
    if o.get("skip"):
        return "None"
    nl = lambda xs: "[" + "; ".join("%d" % x for x in (xs or [])) + "]%nat"
    zl = lambda xs: "[" + "; ".join(zlit(x) for x in (xs or [])) + "]"
    return "Some (mkObs %s %s %s %s %s %s %d%%nat %s)" % (nl(o["t"]), zlit(o["i"]), zlit(o["b"]), zl(o["m"]), zl(o["s"]), nl(o["h"]), o["c"], zl(o["o"]))


def pretty_ops(ops):
    return [OPNAMES[o[0]] + ("(%d,%d)" % (o[1], o[2]) if o[0] in (O_REPLY, O_REQUEST) else "(%d)" % o[1] if o[0] in (O_FIRE, O_CANCEL, O_THEN) else "") for o in ops]


def run(ctx):
    ctx.trusted += [
        "hand-written model C16/Model.v, validated each run against the real functions step by step on generated op sequences",
        "the harness owns the requester's turn by holding schedState at Processing (no dispatcher worker touches the actor); the split of completeRequest (Get+complete / deregister+continuation) is emulated with the object's own functions",
        "Go runtime scheduler, sync.Mutex, go.uber.org/atomic, xsync.Map, timers pool (stress runs use the real ones)",
    ]
    ctx.assumptions += [
        "RequestCall.Then is called on the requester's turn (documented contract); Cancel from any goroutine",
        "maxInFlight is not retuned while requests are in flight (EnableReentrancy at runtime not modelled)",
        "explicit ctx.Stash/Unstash by the program is not mixed with the reentrancy stash (C13)",
    ]
    rng = ctx.rng
    cases = [{"Max": mx, "Ops": ops} for (_, mx, ops) in CORPUS]
    corpus_dir = os.path.join(os.path.dirname(os.path.dirname(os.path.abspath(__file__))), "corpus", "C16")
    if os.path.isdir(corpus_dir):
        for fn in sorted(os.listdir(corpus_dir)):
            if fn.endswith(".json"):
                c = json.load(open(os.path.join(corpus_dir, fn)))
                cases.append({"Max": c["Max"], "Ops": c["Ops"]})
    n_corpus = len(cases)
    n_gen = 600 if ctx.thorough else 170
    profiles = ["steady", "races", "shutdown", "limit"]
    for i in range(n_gen):
        cases.append(gen_case(rng, profiles[i % 4]))
    with open(os.path.join(ctx.work, "c16_ops.jsonl"), "w") as f:
        for c in cases:
            f.write(json.dumps(c) + "\n")
    for fn in ("c16_ops_out.jsonl", "c16_stress_out.jsonl", "c16_race_out.jsonl", "c16_witness_order.jsonl", "c16_grain_out.jsonl", "c16_grain_panic_out.jsonl", "c16_restart_out.jsonl"):
        p = os.path.join(ctx.work, fn)
        if os.path.exists(p):
            os.remove(p)

    ctx.log("generated %d cases; running the Go harness" % len(cases))
    rc, out = ctx.go_test("actor", "^TestVerifC16", ["zz_verif_C16_test.go", "zz_verif_C16b_test.go"], timeout=2400 if ctx.thorough else 1500, race=False)
    outs = read_jsonl(os.path.join(ctx.work, "c16_ops_out.jsonl"))
    stress = read_jsonl(os.path.join(ctx.work, "c16_stress_out.jsonl"))
    race = read_jsonl(os.path.join(ctx.work, "c16_race_out.jsonl"))
    wit = read_jsonl(os.path.join(ctx.work, "c16_witness_order.jsonl"))
    grain = read_jsonl(os.path.join(ctx.work, "c16_grain_out.jsonl"))
    gpanic = read_jsonl(os.path.join(ctx.work, "c16_grain_panic_out.jsonl"))
    restart = read_jsonl(os.path.join(ctx.work, "c16_restart_out.jsonl"))
    ctx.log("harness done rc=%d" % rc)
    harness_ok = rc == 0 and len(outs) == len(cases) and stress and race and wit and grain and gpanic and len(restart) == 2
    if not harness_ok:
        ctx.tie_broken("go-harness actor TestVerifC16*", out[-4000:])
    if len(outs) != len(cases):
        outs = []

    # ---------------------------------------------------------------- model vs implementation (Coq evaluates the model)
    verdicts = None
    zeroing = False
    policy = None
    if outs:
        items = []
        for c, o in zip(cases, outs):
            # a reply naming a request that did not exist when it was sent carried an unrelated correlation id
            for k in (o.get("Unresolved") or []):
                if c["Ops"][k][0] == O_REPLY and c["Ops"][k][1] < 1000:
                    c["Ops"][k] = [O_REPLY, 1000 + c["Ops"][k][1], c["Ops"][k][2]]
            items.append("(%s, [%s], [%s])" % (zlit(c["Max"]), "; ".join(op_coq(x) for x in c["Ops"]), "; ".join(obs_coq(x) for x in o["Obs"])))
        ctx.log("evaluating the Coq model on the recorded cases")
        ok_m, out_m = ctx.coq_build(["theories/C16/Model.vo"])
        both = [[], []]
        eval_ok = ok_m
        o2 = out_m
        CH = 200
        for lo in range(0, len(items), CH):
            if not eval_ok:
                break
            body = """From Coq Require Import ZArith List Bool. Import ListNotations.
From GV Require Import C16.Model.
Open Scope Z_scope.
Definition cases : list (Z * list op * list (option obs)) := [
%s].
Definition has_cif (ops : list op) := existsb (fun o => match o with OCancelInFlight => true | _ => false end) ops.
Definition verdicts (z : bool) := map (fun c => match c with (mx, ops, ex) =>
  if z || has_cif ops then check_case z mx ops ex else (-2, -2, -2) end) cases.
Eval vm_compute in (verdicts true).
Eval vm_compute in (verdicts false).
""" % ";\n".join(items[lo:lo + CH])
            rc2, o2 = ctx.coq_eval("cases_C16_%d" % (lo // CH), body)
            flat = " ".join(o2.split())
            parts = flat.split("= [")[1:] if rc2 == 0 else []
            got = [[(int(a), int(b), int(c)) for a, b, c in re.findall(r"\(\s*(-?\d+), (-?\d+), (-?\d+)\)", p_)] for p_ in parts]
            if rc2 != 0 or len(got) != 2 or any(len(v) != len(items[lo:lo + CH]) for v in got):
                eval_ok = False
                break
            both[0] += got[0]
            both[1] += got[1]
        if not eval_ok:
            ctx.tie_broken("model evaluation (cases.v did not evaluate)", o2[-3000:])
        else:
            both[1] = [a if b[0] == -2 else b for a, b in zip(both[0], both[1])]   # the policies differ only on cancelInFlightRequests
            # which cancelInFlightRequests does this tree implement: zeroing (as found) or not (repaired)?
            miss = [sum(1 for v in vs if v[0] >= 0) for vs in both]
            zeroing = miss[0] < miss[1]
            verdicts = both[0] if zeroing else both[1]
            policy = "zeroing (cancelInFlightRequests stores 0 into the counters)" if zeroing else "no zeroing (repaired)"
            ctx.notes.append("cancelInFlightRequests policy matched by the implementation: %s; mismatching cases under [zeroing, no-zeroing] = %s" % (policy, miss))

    # ---------------------------------------------------------------- classify the oracle's complaints
    reported = set()
    n_unknown = 0
    kinds = {}
    known_seen = {KNOWN_ORDER: 0, KNOWN_TAINT: 0}
    mismatches = []
    for ci, o in enumerate(outs):
        v = verdicts[ci] if verdicts else None
        mism = v[0] if v else -1
        if mism >= 0:
            mismatches.append(ci)
        for c in (o.get("Complaints") or []):
            kinds[c["Kind"]] = kinds.get(c["Kind"], 0) + 1
            explained = v is not None and mism < 0
            if c["Tainted"] and explained and 0 <= v[1] <= c["Step"]:
                sig = KNOWN_TAINT
            elif c["Kind"] == "order" and explained and v[2] == 1:
                sig = KNOWN_ORDER
            elif c["Kind"] == "order":
                sig = "stash-order:other"
            else:
                sig = "oracle:" + c["Kind"]
            if sig in known_seen:
                known_seen[sig] += 1
            if sig in reported:
                continue
            if sig not in known_seen:
                n_unknown += 1
                if n_unknown > 4:
                    continue
            reported.add(sig)
            ctx.violation(sig, "C16 on the real request machinery: %s (case %d, step %d)" % (c["Msg"], ci, c["Step"]),
                          {"driver": "TestVerifC16Ops (real actor, harness owns the turn)", "max_in_flight": cases[ci]["Max"],
                           "ops": pretty_ops(cases[ci]["Ops"]), "ops_raw": cases[ci]["Ops"], "step": c["Step"], "complaint": c,
                           "observed_at_step": o["Obs"][c["Step"]] if c["Step"] < len(o["Obs"]) else None})

    if mismatches:
        ci = mismatches[0]
        step = verdicts[ci][0]
        detail = {"case": ci, "max_in_flight": cases[ci]["Max"], "ops": pretty_ops(cases[ci]["Ops"]), "ops_raw": cases[ci]["Ops"], "first_differing_step": step,
                  "implementation_observed": outs[ci]["Obs"][step] if step < len(outs[ci]["Obs"]) else None, "mismatching_cases": len(mismatches)}
        body2 = """From Coq Require Import ZArith List Bool. Import ListNotations.
From GV Require Import C16.Model.
Open Scope Z_scope.
Eval vm_compute in (nth %d (trace %s (init %s) [%s]) (observe (init 0))).
""" % (step, "true" if zeroing else "false", zlit(cases[ci]["Max"]), "; ".join(op_coq(x) for x in cases[ci]["Ops"]))
        _, o3 = ctx.coq_eval("cases_C16_diff", body2)
        detail["model_expects"] = " ".join(o3.split())[-900:]
        if not any(f.kind == "violation" and f.signature not in known_seen for f in ctx.findings):
            ctx.tie_broken("model-vs-implementation (step observation differs)", detail)
        else:
            ctx.notes.append("model and implementation also differ: %s" % json.dumps(detail)[:1500])

    # ---------------------------------------------------------------- witness replay on real actors, stress, admission race
    for wv in wit:
        h = wv.get("Handled")
        if h == [1, 3, 4, 2]:
            known_seen[KNOWN_ORDER] += 1
            if KNOWN_ORDER not in reported:
                reported.add(KNOWN_ORDER)
                ctx.violation(KNOWN_ORDER, "real actors: mailbox [w1,w2,reply1,w3,w4], every w issues a StashNonReentrant Request: Receive saw %s" % h,
                              {"driver": "TestVerifC16WitnessStashOrder", "handled": h})
        elif h != [1, 2, 3, 4]:
            ctx.violation("stash-order:other", "real actors: witness schedule handled in the order %s" % h, {"driver": "TestVerifC16WitnessStashOrder", "handled": h})
    for si, s in enumerate(stress):
        for m in (s.get("Violations") or [])[:3]:
            ctx.violation("stress:" + re.sub(r"[^a-z]+", "-", m.split(":", 1)[-1].lower())[:48].strip("-"),
                          "C16 under real goroutines: " + m, {"driver": "TestVerifC16Stress", "round": si, "seed": ctx.seed, "stats": {k: v for k, v in s.items() if k != "Violations"}})
            break
    for gi, s in enumerate(grain):
        for m in (s.get("Violations") or [])[:2]:
            ctx.violation("grain:" + re.sub(r"[^a-z]+", "-", m.split(":", 1)[-1].lower())[:48].strip("-"),
                          "C16 grain variant under real goroutines: " + m, {"driver": "TestVerifC16Grain", "seed": ctx.seed, "stats": {k: v for k, v in s.items() if k != "Violations"}})
    for s in gpanic:
        for m in (s.get("Violations") or [])[:2]:
            ctx.violation("grain-panic:" + re.sub(r"[^a-z]+", "-", m.lower())[:48].strip("-"),
                          "C16 grain, blocking request whose continuation panics on the turn (two messages held behind it): " + m,
                          {"driver": "TestVerifC16GrainPanic", "observed": {k: v for k, v in s.items() if k != "Violations"}})
    for s in restart:
        for m in (s.get("Violations") or [])[:2]:
            ctx.violation("restart-on-panic:" + re.sub(r"[^a-z]+", "-", m.lower())[:48].strip("-"),
                          "C16 real actors, Receive issues a request (Then registered) and panics, supervisor restarts the actor (mode %s): %s" % (s.get("Mode"), m),
                          {"driver": "TestVerifC16RestartOnPanic", "observed": {k: v for k, v in s.items() if k != "Violations"}})
    for r in race:
        for m in (r.get("Violations") or [])[:1]:
            ctx.violation("register-race:limit", "concurrent registerRequestState: " + m, {"driver": "TestVerifC16RegisterRace", "detail": r})

    # ---------------------------------------------------------------- the theorems
    ctx.log("model evaluated; building Properties/C16.vo")
    if not ctx.coq_property():
        if not any(f.kind == "violation" and f.signature not in known_seen for f in ctx.findings):
            ctx.proof_broken("Properties/C16.v (%s)" % getattr(ctx, "failed_at", "?"), getattr(ctx, "coq_log", ""))
        else:
            ctx.notes.append("Coq obligation broken at %s; concrete failing input reported" % getattr(ctx, "failed_at", "?"))

    # ---------------------------------------------------------------- coverage
    ctx.log("theorems checked")
    hist = {}
    steps = 0
    nontrivial = set()
    for c, o in zip(cases, outs):
        for x in c["Ops"]:
            hist[OPNAMES[x[0]]] = hist.get(OPNAMES[x[0]], 0) + 1
        steps += len(c["Ops"])
        last = [x for x in o["Obs"] if not x.get("skip")]
        if last and len(last[-1]["o"]) >= 2 and any(len(x["s"]) > 0 for x in last) and any(v & 1 for v in last[-1]["o"]):
            nontrivial.add(canon_hash(c))
    st_tot = {}
    for s in stress:
        for k, v in s.items():
            if isinstance(v, int):
                st_tot[k] = st_tot.get(k, 0) + v
    ctx.coverage.update({
        "evaluations": steps + st_tot.get("Requests", 0) + sum(g_.get("Requests", 0) for g_ in grain) + sum(r.get("Rounds", 0) for r in race),
        "distinct_nontrivial": len(nontrivial),
        "rule": "op sequences (corpus witnesses + 4 seeded profiles: steady, races with emulated preemption inside completeRequest, shutdown/restart, limit); "
                "non-trivial = at least 2 requests issued, at least one message held in the stash and at least one request completed; distinct by (limit, ops)",
        "cases": len(cases), "corpus_cases": n_corpus, "steps_compared_with_model": sum(1 for o in outs for x in o["Obs"] if not x.get("skip")),
        "op_histogram": hist, "model_mismatching_cases": len(mismatches) if verdicts else None,
        "model_tainted_cases": sum(1 for v in (verdicts or []) if v[1] >= 0), "model_overtaken_cases": sum(1 for v in (verdicts or []) if v[2] == 1),
        "oracle_complaint_kinds": kinds, "known_finding_hits": known_seen, "cancel_in_flight_policy": policy,
        "stress_totals": st_tot, "grain_totals": [{k: v for k, v in g_.items() if k != "Violations"} for g_ in grain],
        "restart_on_panic_scenario": [{k: v for k, v in g_.items() if k != "Violations"} for g_ in restart],
        "grain_panic_scenario": [{k: v for k, v in g_.items() if k != "Violations"} for g_ in gpanic],
        "panicking_continuations_in_op_sequences": sum(o.get("Panics", 0) for o in outs), "register_race": [{k: v for k, v in r.items() if k != "Violations"} for r in race],
        "samples": [{"ops": pretty_ops(cases[i]["Ops"])[:14], "max": cases[i]["Max"]} for i in (0, 1, n_corpus, min(len(cases) - 1, n_corpus + 1))],
        "theorems": THEOREMS,
    })


META = {
    "ready": True,
    "category": "proof",
    "technique": "Rocq inductive invariants over a hand-written step model + per-step differential against the real functions + real-goroutine stress with an independent oracle",
    "text": "Twelve theorems over arbitrary op sequences (replies, duplicates, timer goroutines, Cancel, arrivals, stop/cancelInFlight/reset/restart, and the turn's dispatch/finish/Request/Then): "
            "completion monotone, continuation at most once and only from a turn step, exactly once when the turn is idle unless discarded by a shutdown cancellation; counters exact, "
            "limit respected, stash-mode isolation and FIFO of ordinary messages under explicit boolean guards, with vm_compute witnesses refuting the unguarded clauses "
            "(both replayed on the real code). The real request/dispatchOne/completeRequest/deregister/Cancel/Then/cancelInFlightRequests/reset functions are driven on generated op "
            "sequences and compared with the Coq model after every step; real actors are stressed with replies racing timeouts, Cancel and Shutdown.",
    "design_ref": "DESIGN.md 7/C16",
    "level_note": "Trusted: Coq kernel; the hand-written model (validated per step each run); harness. Not modelled: runtime retune of the limit, explicit Stash API mixed in, grain variant (pause instead of stash), "
                  "the IsRunning-check/registration window of Request against a concurrent Shutdown.",
}
