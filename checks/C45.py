"""C45 — linear stream pipelines compute exactly their list semantics.

Proof:  Properties/C45.v over C45/Model.v (denotational [sem] + operational model of the stage actors
        composed into chains of any length, every interleaving).
Tie:    (1) black-box: generated pipelines (depth 0..6) through the public stream API on a real
            ActorSystem; the collected sink output / terminal error / terminal-signal count is judged by
            the Coq [sem] (vm_compute, C45/Tie.v [accept]) on the same pipeline description;
        (2) actor-step conformance: the real flowActor / fusedFlowActor / batchFlowActor / sinkActor /
            pullSourceActor are driven message by message between probe actors and every step's
            outgoing messages and ledger (upstreamCredit, downstreamDemand, buffer length, completing)
            are compared with the Coq handlers [krecv]/[sink_recv]/[src_recv].
Oracle: an independent Python list semantics (lib/stream_util.py) on every black-box run, and element
        conservation / emission-within-demand on every step run.
"""
import json
import os
import re

from vlib import read_jsonl, canon_hash
import stream_util as su

BATCH_SIG = "batchFlowActor:window-held-without-demand"
BATCH_BIG_SIG = "batchFlowActor:size-exceeds-demand-window"


# ----------------------------------------------------------------------------------- generators
def gen_input(rng, size):
    xs = []
    style = rng.random()
    while len(xs) < size:
        if style < 0.3:
            v = rng.randint(-20, 20)
            xs += [v] * rng.choice([1, 1, 2, 3])          # runs of duplicates (Deduplicate)
        elif style < 0.6:
            xs.append(len(xs) + 1)                         # 1,2,3,... (positions are recognisable)
        else:
            xs.append(rng.randint(-1000, 1000))
    return xs[:size]


def gen_op(rng, ty, unordered, prev, fuse, allow_err):
    """one operator applicable to element type ty ('Z' ints / 'L' batches)"""
    if ty == "L":
        k = rng.choice(["flatten", "flatten", "suml", "buffer"])
        if prev and prev["k"] == "batch" and k == "buffer":
            k = "suml"
    else:
        ks = ["map", "map", "trymap", "filter", "flatmap", "buffer", "parmap", "parmap"] + (["trymap"] * 3 if allow_err else [])
        if not unordered:
            ks += ["scan", "dedup", "batch", "batch"]
        k = rng.choice(ks)
    if k == "map":
        return {"k": "map", "a": rng.choice([-2, -1, 1, 1, 2, 3]), "b": rng.randint(-5, 5)}
    if k == "trymap":
        o = {"k": "trymap", "a": rng.choice([1, 1, 2, -1]), "b": rng.randint(-3, 3),
             "m": rng.choice([2, 3, 5, 7, 11, 97, 1009]), "code": rng.randint(100, 999)}
        o["r"] = rng.randrange(o["m"])
        if not allow_err or unordered:
            # (behind an unordered ParallelMap the set of elements that precede a failure is not determined)
            o["m"], o["r"] = 1000003, 1000002
        if rng.random() < 0.25 and not (fuse and prev and prev["k"] in su.FUSABLE):
            o["resume"] = True
        return o
    if k == "filter":
        m = rng.choice([2, 3, 4, 7])
        return {"k": "filter", "m": m, "r": rng.randrange(m)}
    if k == "flatmap":
        return {"k": "flatmap", "kk": rng.choice([1, 2, 3, 4])}
    if k == "scan":
        return {"k": "scan", "z": rng.randint(-3, 3)}
    if k == "batch":
        return {"k": "batch", "n": rng.choice([1, 2, 3, 4, 5, 7, 16, 64])}
    if k == "buffer":
        return {"k": "buffer", "n": rng.choice([1, 1, 2, 3, 4, 8, 16, 300])}
    if k == "parmap":
        return {"k": "parmap", "ordered": rng.random() < 0.6, "w": rng.choice([1, 2, 3, 4, 8]),
                "a": rng.choice([1, 2, -1]), "b": rng.randint(-2, 2)}
    return {"k": k}


def out_type(o, ty):
    return {"batch": "L", "flatten": "Z", "suml": "Z"}.get(o["k"], ty)


def gen_pipeline(rng, depth, size):
    """a well-typed pipeline and input that stay inside the domain where [sem] is the literal spec:
       after an unordered ParallelMap only order-insensitive operators; no Resume inside a fused run;
       at most 200 batches out of a Batch stage (more needs the repaired batch actor, tested apart)."""
    for _ in range(200):
        fuse = rng.random() < 0.6
        allow_err = rng.random() < 0.45
        xs = gen_input(rng, size)
        ops, ty, unordered = [], "Z", False
        for _i in range(depth):
            o = gen_op(rng, ty, unordered, ops[-1] if ops else None, fuse, allow_err)
            ops.append(o)
            ty = out_type(o, ty)
            if o["k"] == "parmap" and not o["ordered"]:
                unordered = True
        # Resume inside a fused run is ignored by fusedFlowActor: keep such stages unfused
        for i, o in enumerate(ops):
            if o.get("resume") and fuse:
                nb = [ops[j] for j in (i - 1, i + 1) if 0 <= j < len(ops)]
                if any(n["k"] in su.FUSABLE for n in nb):
                    o.pop("resume")
        ok = True
        cur = list(xs)
        for i, o in enumerate(ops):
            cur, _e = su.py_sem_op(o, cur)
            if len(cur) > 3000:
                ok = False
            if o["k"] == "batch" and (len(cur) > 200 or (i + 1 < len(ops) and ops[i + 1]["k"] == "buffer")):
                ok = False
            for v in cur:
                if max(map(abs, v), default=0) > su.I64 if isinstance(v, list) else abs(v) > su.I64:
                    ok = False
                    break
            if not ok:
                break
        if ok:
            return {"input": xs, "ops": ops, "fuse": fuse}
    return {"input": xs[:5], "ops": [], "fuse": True}


CORPUS = [
    {"input": [], "ops": [], "fuse": True},
    {"input": [7], "ops": [{"k": "map", "a": 2, "b": 1}], "fuse": True},
    {"input": list(range(1, 226)), "ops": [{"k": "buffer", "n": 1}, {"k": "scan", "z": 0}], "fuse": False},
    {"input": list(range(1, 450)), "ops": [{"k": "flatmap", "kk": 3}, {"k": "buffer", "n": 2}, {"k": "dedup"}], "fuse": True},
    {"input": list(range(1, 300)), "ops": [{"k": "map", "a": 1, "b": 0}, {"k": "filter", "m": 2, "r": 0},
                                           {"k": "trymap", "a": 1, "b": 0, "m": 1009, "r": 250, "code": 777}], "fuse": True},
    {"input": list(range(1, 300)), "ops": [{"k": "trymap", "a": 1, "b": 0, "m": 1009, "r": 250, "code": 701},
                                           {"k": "scan", "z": 0},
                                           {"k": "trymap", "a": 1, "b": 0, "m": 1000003, "r": 31375, "code": 702}], "fuse": False},
    {"input": list(range(1, 130)), "ops": [{"k": "batch", "n": 64}, {"k": "flatten"}, {"k": "batch", "n": 5}, {"k": "suml"}], "fuse": True},
    {"input": list(range(1, 600)), "ops": [{"k": "parmap", "ordered": True, "w": 4, "a": 2, "b": 0}, {"k": "scan", "z": 0}], "fuse": True},
    {"input": list(range(1, 400)), "ops": [{"k": "parmap", "ordered": False, "w": 8, "a": 1, "b": 1}, {"k": "filter", "m": 3, "r": 1}], "fuse": True},
    {"input": list(range(1, 41)), "ops": [{"k": "map", "a": 1, "b": 0}, {"k": "filter", "m": 3, "r": 0},
                                          {"k": "parmap", "ordered": True, "w": 3, "a": 2, "b": 1}], "fuse": True},
    {"input": [5, 5, 5, 6, 6, 5], "ops": [{"k": "dedup"}, {"k": "trymap", "a": 1, "b": 0, "m": 7, "r": 6, "code": 321, "resume": True}], "fuse": False},
]

# pipelines that need a batch actor that neither merges nor drops windows when demand runs out
BATCH_STRESS = [
    {"input": list(range(1, 700)), "ops": [{"k": "batch", "n": 1}], "fuse": True},
    {"input": list(range(1, 40)), "ops": [{"k": "batch", "n": 2}, {"k": "buffer", "n": 1}, {"k": "flatten"}], "fuse": True},
    {"input": list(range(1, 1300)), "ops": [{"k": "batch", "n": 3}, {"k": "suml"}], "fuse": False},
]

# a batch size above the stage's demand window (224): the window can only fill up if the stage asks for enough
BATCH_BIG = [
    {"input": list(range(1, 701)), "ops": [{"k": "batch", "n": 300}, {"k": "suml"}], "fuse": True},
]

SIZES = [0, 1, 2, 3, 4, 5, 8, 15, 16, 17, 63, 64, 65, 159, 160, 161, 223, 224, 225, 226, 300, 448, 449, 700]


def gen_fused_into_par(rng, size):
    """a run of >= 2 fusable stages containing a Filter that really drops elements, fused (default fusion),
       directly in front of an (Ordered)ParallelMap; random stages around it"""
    xs = gen_input(rng, size)
    pre = []
    for _ in range(rng.choice([0, 0, 1])):
        pre.append(gen_op(rng, "Z", False, None, True, False))
        if out_type(pre[-1], "Z") != "Z" or pre[-1]["k"] in ("parmap",):
            pre.pop()
    run = [{"k": "map", "a": rng.choice([1, 2, 3]), "b": rng.randint(-3, 3)}] if rng.random() < 0.7 else []
    m = rng.choice([2, 3, 4])
    run.append({"k": "filter", "m": m, "r": rng.randrange(m)})
    if len(run) < 2 or rng.random() < 0.4:
        run.append({"k": "map", "a": rng.choice([1, -1, 2]), "b": rng.randint(-3, 3)})
    par = {"k": "parmap", "ordered": rng.random() < 0.8, "w": rng.choice([1, 2, 3, 4, 8]), "a": rng.choice([1, 2, -1]), "b": rng.randint(-2, 2)}
    post = []
    if par["ordered"] and rng.random() < 0.5:
        post.append(rng.choice([{"k": "scan", "z": 0}, {"k": "dedup"}, {"k": "map", "a": 1, "b": 1}]))
    return {"input": xs, "ops": pre + run + [par] + post, "fuse": True}


def gen_cases(ctx):
    rng = ctx.rng
    n = 600 if ctx.thorough else 130
    cases = [dict(c) for c in CORPUS]
    while len(cases) < n:
        if len(cases) % 9 == 4:
            cases.append(gen_fused_into_par(rng, rng.choice([3, 5, 8, 16, 17, 64, 65, 225, 300])))
            continue
        depth = rng.choice([0, 1, 1, 2, 2, 3, 3, 4, 5, 6, 6])
        r = rng.random()
        size = rng.choice(SIZES[:12]) if r < 0.55 else (rng.choice(SIZES) if r < 0.95 else rng.randint(0, 900))
        cases.append(gen_pipeline(rng, depth, size))
    stress = [dict(c, stress=True) for c in BATCH_STRESS] + [dict(c, big=True) for c in BATCH_BIG]
    out = cases + stress
    for i, c in enumerate(out):
        c["id"] = i
        # most runs use unbounded stage mailboxes (see the Go harness), every 7th the default bounded ones
        c["unbounded"] = (i % 7 != 3) or len(c["input"]) > 300
    return out


# ---- step scripts
def gen_script(rng, in_ty, n_steps, malformed):
    script = []
    ended = False
    for _ in range(n_steps):
        r = rng.random()
        if ended and not malformed and r < 0.8:
            script.append({"t": "req", "n": rng.choice([1, 1, 2, 3, 224])})
            continue
        if r < 0.38:
            script.append({"t": "req", "n": rng.choice([1, 1, 1, 2, 2, 3, 5, 8, 224])})
        elif r < 0.88:
            if in_ty == "L":
                v = [rng.randint(-9, 9) for _ in range(rng.choice([0, 1, 2, 3]))]
            else:
                v = rng.choice([rng.randint(-30, 30), rng.randint(0, 6)])
            script.append({"t": "elem", "v": v})
        elif r < 0.95:
            script.append({"t": "complete"})
            ended = True
        elif r < 0.98:
            script.append({"t": "error", "e": rng.randint(500, 599)})
            ended = True
        else:
            script.append({"t": "cancel"})
            ended = True
    if not ended:
        script.append({"t": "complete"})
        script += [{"t": "req", "n": rng.choice([1, 2, 224])} for _ in range(rng.randint(0, 3))]
    return script


STEP_CORPUS = [
    # the batch witness: a window that could not be flushed for lack of demand
    {"kind": "batch", "ops": [{"k": "batch", "n": 1}], "init": 224, "refill": 64, "witness": True,
     "script": [{"t": "req", "n": 1}, {"t": "elem", "v": 1}, {"t": "elem", "v": 2}, {"t": "complete"}, {"t": "req", "n": 1}]},
    {"kind": "batch", "ops": [{"k": "batch", "n": 2}], "init": 8, "refill": 2, "witness": True,
     "script": [{"t": "req", "n": 1}] + [{"t": "elem", "v": i} for i in range(1, 6)] + [{"t": "req", "n": 5}, {"t": "complete"}]},
    {"kind": "flow", "ops": [{"k": "flatmap", "kk": 3}], "init": 4, "refill": 1,
     "script": [{"t": "req", "n": 2}, {"t": "elem", "v": 5}, {"t": "elem", "v": 4}, {"t": "complete"}, {"t": "req", "n": 1}, {"t": "req", "n": 5}]},
    {"kind": "flow", "ops": [{"k": "map", "a": 1, "b": 0}], "init": 4, "refill": 1,
     "script": [{"t": "req", "n": 2}, {"t": "complete"}, {"t": "req", "n": 1}]},
    {"kind": "sink", "ops": [], "init": 4, "refill": 1,
     "script": [{"t": "elem", "v": 1}, {"t": "elem", "v": 2}, {"t": "elem", "v": 3}, {"t": "elem", "v": 4}, {"t": "error", "e": 5}, {"t": "complete"}]},
    # ordered parallel stage, workers finishing in the order 3,1,2: the heap must hold 3 back
    {"kind": "par", "ops": [], "init": 224, "refill": 64, "ordered": True, "w": 3, "a": 2, "b": 1,
     "script": [{"t": "elem", "v": 10}, {"t": "elem", "v": 20}, {"t": "elem", "v": 30}, {"t": "worker", "seq": 3, "v": 30},
                {"t": "worker", "seq": 1, "v": 10}, {"t": "complete"}, {"t": "worker", "seq": 2, "v": 20}]},
    {"kind": "source", "ops": [], "input": [1, 2, 3, 4, 5], "init": 4, "refill": 1,
     "script": [{"t": "req", "n": 2}, {"t": "req", "n": 2}, {"t": "req", "n": 2}, {"t": "req", "n": 2}]},
]


def gen_par_case(rng):
    """parallel stage: the harness gates every worker, so the order in which tasks finish is scripted"""
    w = rng.choice([1, 2, 3, 4])
    c = {"kind": "par", "ops": [], "init": 224, "refill": 64, "ordered": rng.random() < 0.6, "w": w,
         "a": rng.choice([1, 2, -1]), "b": rng.randint(-2, 2)}
    script, inflight, inseq, updone, alive, nextv = [], [], 0, False, True, 1
    for _ in range(rng.randint(4, 30)):
        r = rng.random()
        ready = [s for (s, v) in inflight if s == min(s2 for (s2, _v) in inflight if (s2 - 1) % w == (s - 1) % w)]
        if ready and (r < 0.45 or updone):
            sq = rng.choice(ready)
            v = dict(inflight)[sq]
            inflight = [(s2, v2) for (s2, v2) in inflight if s2 != sq]
            script.append({"t": "worker", "seq": sq, "v": v})
            if alive and updone and not inflight:
                alive = False
        elif r < 0.8 and not updone:
            script.append({"t": "elem", "v": nextv})       # (ill-typed elements cannot reach a typed stage)
            if alive:
                inseq += 1
                inflight.append((inseq, nextv))
            nextv += rng.choice([1, 2, 3])
        elif r < 0.86:
            script.append({"t": "req", "n": rng.choice([1, 5, 224])})
        elif r < 0.94:
            script.append({"t": "complete"})
            if alive and not updone:
                updone = True
                if not inflight:
                    alive = False
        elif r < 0.97:
            script.append({"t": "error", "e": rng.randint(500, 599)})
            alive = False
        else:
            script.append({"t": "cancel"})
            alive = False
        if not alive:
            inflight = []
    c["script"] = script
    return c


def gen_step_cases(ctx):
    rng = ctx.rng
    n = 900 if ctx.thorough else 240
    cases = [dict(c) for c in STEP_CORPUS]
    while len(cases) < n:
        kind = rng.choice(["flow"] * 5 + ["fused"] * 2 + ["batch"] * 3 + ["sink", "source"] + ["par"] * 3)
        if kind == "par":
            cases.append(gen_par_case(rng))
            continue
        init = rng.choice([1, 2, 3, 4, 4, 8, 224])
        refill = 64 if init == 224 else rng.randint(0, init)
        c = {"kind": kind, "ops": [], "init": init, "refill": refill}
        in_ty = "Z"
        if kind == "flow":
            k = rng.choice(["map", "trymap", "trymap", "filter", "flatmap", "flatmap", "flatten", "scan", "dedup", "buffer", "suml"])
            o = gen_op(rng, "Z", False, None, False, True)
            while o["k"] != k:
                o = gen_op(rng, "L" if k in ("flatten", "suml") else "Z", False, None, False, True)
            if k in ("flatten", "suml"):
                in_ty = "L"
            if k == "trymap":
                o["m"], o["r"] = rng.choice([(2, 0), (3, 1), (5, 2), (7, 0)])
            c["ops"] = [o]
        elif kind == "fused":
            ops = []
            for _ in range(rng.choice([2, 2, 3, 4])):
                o = gen_op(rng, "Z", False, None, False, True)
                while o["k"] not in su.FUSABLE:
                    o = gen_op(rng, "Z", False, None, False, True)
                o.pop("resume", None)
                if o["k"] == "trymap":
                    o["m"], o["r"] = rng.choice([(5, 2), (7, 0), (11, 3)])
                ops.append(o)
            c["ops"] = ops
        elif kind == "batch":
            c["ops"] = [{"k": "batch", "n": rng.randint(1, min(4, init))}]   # size <= demand window, see BATCH_BIG
        elif kind == "source":
            c["input"] = gen_input(rng, rng.choice([0, 1, 2, 5, 9]))
        malformed = rng.random() < 0.15
        c["script"] = gen_script(rng, in_ty, rng.randint(3, 28), malformed)
        if kind == "source":
            c["script"] = [m for m in c["script"] if m["t"] in ("req", "cancel")] or [{"t": "req", "n": 1}]
        if kind == "sink":
            c["script"] = [m for m in c["script"] if m["t"] in ("elem", "complete", "error")] or [{"t": "complete"}]
        cases.append(c)
    # long scripts: a backlog in the stage's output queue drained in small demand chunks while elements keep coming
    for _ in range(8 if ctx.thorough else 4):
        o = rng.choice([{"k": "map", "a": 2, "b": 1}, {"k": "flatmap", "kk": 3}, {"k": "buffer", "n": 4}, {"k": "scan", "z": 0}])
        script, v = [], 1
        for _b in range(rng.randint(4, 9)):
            for _e in range(rng.choice([20, 56, 64, 100, 200, 260])):
                script.append({"t": "elem", "v": v})
                v += rng.choice([1, 2, 3])
            script.append({"t": "req", "n": rng.choice([16, 17, 20, 24, 31, 40])})
        script += [{"t": "complete"}, {"t": "req", "n": 5000}]
        cases.append({"kind": "flow", "ops": [o], "init": 224, "refill": 64, "script": script, "long": True})
    for i, c in enumerate(cases):
        c["id"] = i
    return cases


# ----------------------------------------------------------------------------------- coq side
def coq_inmsg(m):
    t = m["t"]
    if t == "req":
        return "FromDown (URequest %s)" % su.zl(m["n"])
    if t == "cancel":
        return "FromDown UCancel"
    if t == "elem":
        return "FromUp (DElem (%s))" % su.coq_val(m["v"])
    if t == "complete":
        return "FromUp DComplete"
    if t == "error":
        return "FromUp (DError %s)" % su.zl(m["e"])
    if t == "worker":
        return "WorkerDone %s" % su.zl(m["seq"])
    raise ValueError(t)


def coq_kind(c, orig=False):
    cfg = "{| c_init := %s; c_refill := %s |}" % (su.zl(c["init"]), su.zl(c["refill"]))
    if c["kind"] == "flow":
        return "KFlow (%s) %s" % (su.coq_op(c["ops"][0]), cfg)
    if c["kind"] == "fused":
        return "KFused %s %s" % (su.coq_ops(c["ops"]), cfg)
    if c["kind"] == "batch":
        return "%s %d%%nat %s" % ("KBatch0" if orig else "KBatch", c["ops"][0]["n"], cfg)
    if c["kind"] == "par":
        return "KPar %s %d%%nat %s %s" % ("true" if c["ordered"] else "false", c["w"], su.zl(c["a"]), su.zl(c["b"]))
    raise ValueError(c["kind"])


def norm_out(out):
    """token-aware: drop a streamComplete (11) that directly follows a streamComplete (see C45/Tie.v enc_actions)"""
    res, i, prev = [], 0, False
    while i < len(out):
        t = out[i]
        if t == 10:
            ln = 3 if out[i + 1] == 1 else 3 + out[i + 2]
            res += out[i:i + ln]
            i += ln
            prev = False
        elif t in (12, 20):
            res += out[i:i + 2]
            i += 2
            prev = False
        elif t == 11:
            if not prev:
                res.append(11)
            prev = True
            i += 1
        else:
            res.append(t)
            i += 1
            prev = False
    return res


NOSTATE = [-424242]


def has_nostate(r):
    return any(s.get("state") and s["state"][0] == NOSTATE[0] for s in r.get("steps") or [])


def enc_obs(r):
    """the harness's observation of one step case in the encoding of C45/Tie.v [run_steps]; when the harness could
       not read the actor's private ledger fields only the messages are compared"""
    ns = has_nostate(r)
    out = [list(r.get("wire") or [])]
    for s in r.get("steps") or []:
        if s.get("state") is None and not s.get("alive"):
            out.append([0])
        else:
            st = [] if ns else list(s["state"] or [])
            if ns and s.get("state") and s["state"][0] == -999:
                st = [-999]
            out.append([1 if s["alive"] else 0] + st + [-7] + norm_out(list(s.get("out") or [])))
    return out


def coq_zll(xss):
    return "[" + "; ".join(su.coq_zlist(xs) for xs in xss) + "]"


def step_model_term(c, orig=False, ns=False):
    script = "[" + "; ".join(coq_inmsg(m) for m in c["script"]) + "]"
    sfx = "_ns" if ns else ""
    if c["kind"] == "sink":
        if ns:
            # the sink harness appends (items, completions) to the credit: drop all of it
            return "steps_sink_ns {| c_init := %s; c_refill := %s |} %s" % (su.zl(c["init"]), su.zl(c["refill"]), script)
        return "steps_sink {| c_init := %s; c_refill := %s |} %s" % (su.zl(c["init"]), su.zl(c["refill"]), script)
    if c["kind"] == "source":
        return "steps_src %s %s" % (su.coq_vals(c["input"]), script)
    return "steps_k%s (%s) %s" % (sfx, coq_kind(c, orig), script)


# ----------------------------------------------------------------------------------- oracle on step runs
def step_oracle(c, r):
    """independent of the model: conservation and emission within demand on a step run of one stage.
       returns a reason or None"""
    if c["kind"] == "par":
        consumed, emitted, completed, alive = [], [], False, True
        for m, s in zip(c["script"], r.get("steps") or []):
            if not alive or s.get("state") is None:
                break
            if m["t"] == "elem":
                if isinstance(m["v"], list):
                    return None
                consumed.append(m["v"])
            elif m["t"] in ("error", "cancel"):
                return None
            out = list(s.get("out") or [])
            i = 0
            while i < len(out):
                if out[i] == 10 and out[i + 1] == 1:
                    emitted.append(out[i + 2])
                    i += 3
                elif out[i] == 11:
                    completed = True
                    i += 1
                elif out[i] == 20:
                    i += 2
                else:
                    i += 1
            alive = s["alive"]
        want = [c["a"] * x + c["b"] for x in consumed]
        if c["ordered"] and emitted != want[:len(emitted)]:
            return "ordered parallel stage emitted %s, input order gives %s" % (emitted, want[:len(emitted)])
        if not c["ordered"] and not su.submultiset(emitted, want):
            return "parallel stage emitted elements that are not images of consumed inputs"
        if completed and len(emitted) != len(want):
            return "parallel stage completed after emitting %d of %d results" % (len(emitted), len(want))
        return None
    if c["kind"] not in ("batch", "flow"):
        return None
    o = c["ops"][0]
    demand = 0
    consumed, emitted = [], []
    completed = False
    up_done = False
    alive = True
    for m, s in zip(c["script"], r.get("steps") or []):
        if not alive:
            break
        if m["t"] == "req":
            demand += m["n"]
        elif m["t"] == "elem":
            if up_done:
                return None          # malformed script: no claim
            consumed.append(m["v"])
        elif m["t"] == "complete":
            up_done = True
        else:
            return None              # error / cancel: only prefix claims, covered by the model comparison
        out = list(s.get("out") or [])
        i = 0
        while i < len(out):
            if out[i] == 10:
                if out[i + 1] == 1:
                    emitted.append(out[i + 2])
                    i += 3
                else:
                    ln = out[i + 2]
                    emitted.append(out[i + 3:i + 3 + ln])
                    i += 3 + ln
                demand -= 1
                if demand < 0:
                    return "emitted beyond downstream demand"
            elif out[i] == 11:
                completed = True
                i += 1
            elif out[i] == 12:
                return None
            elif out[i] == 20:
                i += 2
            else:
                i += 1
        alive = s["alive"]
    want, err = su.py_sem_op(o, consumed)
    if err is not None:
        return None
    if c["kind"] == "batch":
        if any(len(b) > o["n"] for b in emitted):
            return "batch larger than maxSize emitted: %s" % [b for b in emitted if len(b) > o["n"]][:1]
        flat = [x for b in emitted for x in b]
        if flat != consumed[:len(flat)]:
            return "batches do not carry the consumed elements in order"
        if completed and flat != consumed:
            return "completed downstream after delivering %d of %d consumed elements (window dropped)" % (len(flat), len(consumed))
    else:
        if o.get("resume") is None and emitted != want[:len(emitted)]:
            return "emitted elements are not a prefix of the list semantics"
        if completed and emitted != want:
            return "completed downstream after delivering %d of %d outputs" % (len(emitted), len(want))
    return None


# ----------------------------------------------------------------------------------- run
def run(ctx):
    ctx.trusted += ["Go harness go/inpkg/stream/zz_verif_C45_test.go (pipeline builder, probe actors, encodings)",
                    "actor runtime (mailbox FIFO per sender, Tell/Shutdown semantics) — modelled as FIFO links",
                    "container/heap in the parallel stage is modelled as a sorted list"]
    ctx.assumptions += ["element functions are pure and total (the harness uses integer arithmetic without overflow)",
                        "Batch maxWait timer does not fire (harness uses 1h); Batch size >= 1",
                        "no external Stop/Abort of the stream handle",
                        "Resume is not used inside a fused run (fusedFlowActor ignores the error strategy)"]
    cases = gen_cases(ctx)
    scases = gen_step_cases(ctx)
    with open(os.path.join(ctx.work, "c45_in.jsonl"), "w") as f:
        for c in cases:
            f.write(json.dumps({k: c[k] for k in ("id", "input", "ops", "fuse", "unbounded")}) + "\n")
    with open(os.path.join(ctx.work, "c45_steps_in.jsonl"), "w") as f:
        for c in scases:
            f.write(json.dumps({k: c[k] for k in ("id", "kind", "ops", "input", "init", "refill", "script", "ordered", "w", "a", "b") if k in c}) + "\n")
    for fn in ("c45_out.jsonl", "c45_steps_out.jsonl"):
        p = os.path.join(ctx.work, fn)
        if os.path.exists(p):
            os.remove(p)
    rc, out = ctx.go_test("stream", "^TestVerifC45", ["zz_verif_C45_test.go"], env={"VERIF_PAR": "1"}, timeout=2400 if ctx.thorough else 1500)
    res = {r["id"]: r for r in read_jsonl(os.path.join(ctx.work, "c45_out.jsonl"))}
    sres = {r["id"]: r for r in read_jsonl(os.path.join(ctx.work, "c45_steps_out.jsonl"))}
    if rc != 0 or len(res) != len(cases) or len(sres) != len(scases):
        ctx.tie_broken("go-harness stream (build or run failed)", out)
    # a run that did not terminate within the per-case timeout is repeated alone with a long timeout:
    # only a stream that still has not terminated is a stall (the machine may simply be busy)
    slow = [c for c in cases if c["id"] in res and not res[c["id"]]["done"]]
    if slow and len(slow) <= 12:
        with open(os.path.join(ctx.work, "c45_in2.jsonl"), "w") as f:
            for c in slow:
                f.write(json.dumps({k: c[k] for k in ("id", "input", "ops", "fuse", "unbounded")}) + "\n")
        rc_, out_ = ctx.go_test("stream", "^TestVerifC45Pipelines", ["zz_verif_C45_test.go"],
                                env={"VERIF_PAR": "1", "C45_IN": "c45_in2.jsonl", "C45_OUT": "c45_out2.jsonl",
                                     "VERIF_CASE_TIMEOUT_MS": "45000"}, timeout=900)
        for r in read_jsonl(os.path.join(ctx.work, "c45_out2.jsonl")):
            res[r["id"]] = r
        ctx.coverage["reruns_after_timeout"] = len(slow)

    # ---- step runs: oracle, then which batch actor is in the tree
    batch_defect = False
    n_viol = n_batch = 0
    ctx.log("go harness done: %d pipelines, %d step cases" % (len(res), len(sres)))
    for c in scases:
        r = sres.get(c["id"])
        if r is None:
            continue
        why = step_oracle(c, r)
        if why:
            if c["kind"] == "batch":
                batch_defect = True
                n_batch += 1
                if n_batch > 2:
                    continue
                ctx.violation(BATCH_SIG, "batchFlowActor (Batch %d) driven step by step: %s" % (c["ops"][0]["n"], why),
                              {"stage": "stream.batchFlowActor", "maxSize": c["ops"][0]["n"], "script": c["script"], "observed": r})
            elif c["kind"] == "par":
                if n_viol < 4:
                    n_viol += 1
                    ctx.violation("parallelMapActor:step-oracle", "parallelMapActor (ordered=%s, %d workers) with scripted worker completion order: %s" % (c["ordered"], c["w"], why),
                                  {"stage": "stream.parallelMapActor", "case": c, "observed": r})
            elif n_viol < 4:
                n_viol += 1
                ctx.violation("flowActor:step-oracle", "flowActor (%s) driven step by step: %s" % (c["ops"][0]["k"], why),
                              {"stage": "stream.flowActor", "op": c["ops"][0], "init": c["init"], "refill": c["refill"],
                               "script": c["script"], "observed": r})

    # ---- black-box runs: independent oracle
    bad_py = {}
    for c in cases:
        r = res.get(c["id"])
        if r is None:
            continue
        why = su.py_accept(c["ops"], c["input"], r["items"], r["err"], r["terminals"], r["done"])
        if why:
            bad_py[c["id"]] = why
            has_batch = any(o["k"] == "batch" for o in c["ops"])
            if c.get("big") and has_batch and why.startswith("stall"):
                ctx.violation(BATCH_BIG_SIG, "Batch(%d) over %d elements with maxWait=1h: %s" % (c["ops"][0]["n"], len(c["input"]), why),
                              {"pipeline": c["ops"], "input_len": len(c["input"]), "observed_items": len(r["items"]),
                               "why": "batchFlowActor.maybeRequestUpstream never asks for more than InitialDemand(224) - len(window) elements, so a window of 300 never fills"})
            elif batch_defect and c.get("stress") and has_batch:
                n_batch += 1
                if n_batch > 3:
                    continue
                ctx.violation(BATCH_SIG, "pipeline with Batch: " + why,
                              {"pipeline": c["ops"], "input_len": len(c["input"]), "fuse": c["fuse"], "observed_items": len(r["items"])})
            elif n_viol < 6:
                n_viol += 1
                ctx.violation("pipeline:" + why.split(":")[0], "pipeline %s on %d elements: %s" % ([o["k"] for o in c["ops"]], len(c["input"]), why),
                              {"pipeline": c["ops"], "input": c["input"], "fuse": c["fuse"], "observed": r,
                               "expected": su.py_sem(c["ops"], c["input"])})

    # ---- the Coq model on the same cases
    ok_tie, tout = ctx.coq_build(["theories/C45/Tie.vo"])
    if not ok_tie:
        ctx.tie_broken("C45/Model.v or C45/Tie.v does not compile", tout)
    elif res and sres:
        lines = []
        for c in cases:
            r = res.get(c["id"])
            if r is None:
                continue
            lines.append("(%d, accept %s %s %s %s %s %s)" % (
                c["id"], su.coq_ops(c["ops"]), su.coq_vals(c["input"]), su.coq_vals(r["items"]),
                "None" if r["err"] is None else "(Some %s)" % su.zl(r["err"]), su.zl(r["terminals"]), "true" if r["done"] else "false"))
        slines = []
        n_nostate = 0
        for c in scases:
            r = sres.get(c["id"])
            if r is None:
                continue
            obs = coq_zll(enc_obs(r))
            ns = has_nostate(r)
            if ns:
                n_nostate += 1
            m1 = "zll_eqb (%s) %s" % (step_model_term(c, False, ns), obs)
            m0 = "zll_eqb (%s) %s" % (step_model_term(c, True, ns), obs) if c["kind"] == "batch" else "false"
            slines.append("(%d, %s, %s)" % (c["id"], m1, m0))
        body = """From Coq Require Import ZArith List Bool. Import ListNotations.
From GV Require Import C45.Model C45.Tie.
Open Scope Z_scope.
Definition pipes : list (Z * bool) := [%s].
Definition steps : list (Z * bool * bool) := [%s].
Definition summary :=
  (length pipes, map fst (filter (fun x => negb (snd x)) pipes),
   length steps, map (fun x => (fst (fst x), snd x)) (filter (fun x => negb (snd (fst x))) steps)).
Eval vm_compute in summary.
""" % (";\n ".join(lines), ";\n ".join(slines))
        rc2, o2 = ctx.coq_eval("cases_C45", body, timeout=900)
        m_ = re.search(r"=\s*(\(.*\))\s*:", " ".join(o2.split()))
        if rc2 != 0 or not m_:
            ctx.tie_broken("model evaluation (cases_C45.v did not evaluate)", o2)
        else:
            npipes, bad_pipes, nsteps, bad_steps = su.parse_coq_value(m_.group(1))
            ctx.coverage["model_rejects_pipelines"] = len(bad_pipes)
            ctx.coverage["model_step_mismatches"] = len(bad_steps)
            ctx.coverage["step_cases_without_ledger_snapshot"] = n_nostate
            # model and independent oracle must agree on every black-box run
            dis = sorted(set(bad_pipes) ^ set(bad_py))
            if dis:
                ctx.tie_broken("Coq sem vs Python oracle disagree on pipeline cases", {"ids": dis[:10],
                               "cases": [next(c for c in cases if c["id"] == i) for i in dis[:2]]})
            other = []
            for (cid, is_orig) in bad_steps:
                c = scases[cid]
                if c["kind"] == "batch" and is_orig and batch_defect:
                    continue        # the tree has the batch actor from before the repair: reported above as a finding
                other.append(cid)
            if other:
                c = scases[other[0]]
                rc3, o3 = ctx.coq_eval("diag_C45", """From Coq Require Import ZArith List Bool. Import ListNotations.
From GV Require Import C45.Model C45.Tie.
Open Scope Z_scope.
Eval vm_compute in (%s).
""" % step_model_term(c, False, has_nostate(sres[c["id"]])))
                ctx.tie_broken("actor-step conformance %s vs C45/Model.v" % c["kind"],
                               {"mismatching_cases": len(other), "first_case": c, "implementation": enc_obs(sres[c["id"]]),
                                "model": " ".join(o3.split())[-3000:]})

    ctx.log("model evaluation done")
    # ---- theorems
    if not ctx.coq_property():
        if not any(f.kind == "violation" and f.signature not in (BATCH_SIG, BATCH_BIG_SIG) for f in ctx.findings):
            ctx.proof_broken("Properties/C45.v (%s)" % getattr(ctx, "failed_at", "?"), getattr(ctx, "coq_log", ""))
        else:
            ctx.notes.append("Coq obligation broken at %s; concrete failing input reported" % getattr(ctx, "failed_at", "?"))

    # ---- coverage
    hist, sizes, errs, depth = {}, {}, 0, {}
    distinct = set()
    for c in cases:
        for o in c["ops"]:
            hist[o["k"]] = hist.get(o["k"], 0) + 1
        b = min([s for s in SIZES if s >= len(c["input"])] or [1200])
        sizes[b] = sizes.get(b, 0) + 1
        depth[len(c["ops"])] = depth.get(len(c["ops"]), 0) + 1
        if su.py_sem(c["ops"], c["input"])[1]:
            errs += 1
        if c["ops"] and c["input"]:
            distinct.add(canon_hash([c["ops"], c["input"], c["fuse"]]))
    sk = {}
    for c in scases:
        sk[c["kind"]] = sk.get(c["kind"], 0) + 1
        distinct.add(canon_hash([c["kind"], c["ops"], c["script"], c["init"], c["refill"]]))
    ctx.coverage.update({
        "evaluations": len(res) + sum(len(r.get("steps") or []) for r in sres.values()),
        "distinct_nontrivial": len(distinct),
        "rule": "black-box: seeded well-typed pipelines of depth 0..6 over integer inputs of boundary sizes (0,1,demand window 224+-1, refill 64/160+-1, > 2 windows); non-trivial = at least one operator and one element; step: scripts of 3..30 messages per stage kind with small and default demand windows, distinct by (kind, ops, script, window)",
        "pipelines": len(res), "pipelines_with_stage_error": errs, "depth_histogram": depth, "op_histogram": hist,
        "input_size_histogram(<=)": sizes, "step_cases_by_kind": sk,
        "batch_actor_in_tree": "before-repair (finding reported)" if batch_defect else "repaired",
        "samples": [{k: (v if k != "input" else v[:8]) for k, v in cases[len(CORPUS)].items()}, scases[len(STEP_CORPUS)]],
        "theorems": THEOREMS,
    })


THEOREMS = ["C45_sink_receives_list_semantics", "C45_first_stage_error_ends_the_stream", "C45_any_materialisation",
            "C45_plan_keeps_operators", "C45_sem_map", "C45_sem_filter", "C45_sem_flatmap", "C45_sem_scan", "C45_sem_buffer",
            "C45_sem_batch_then_flatten", "C45_sem_batch_chunks", "C45_batch_before_repair_refuted",
            "C45_parallel_unordered_is_a_permutation", "C45_flow_never_emits_beyond_demand"]

META = {
    "ready": True,
    "category": "proof",
    "technique": "Rocq proof over a hand-written operational model of the stage actors (chains of any length, every interleaving) + black-box and actor-step conformance",
    "text": "Operational model of pull source, flowActor, fusedFlowActor, batchFlowActor, ordered/unordered parallelMapActor and sinkActor "
            "(message handlers mirroring the Go Receive methods, demand ledger, output buffer, completing flag, resequencing heap) composed into a chain "
            "of ANY length with FIFO links; for every interleaving of actor steps the sink holds a prefix of the list semantics, at normal completion "
            "exactly the list semantics, at most/exactly one terminal signal, and an error termination carries the error of a stage that fails under the "
            "list semantics (C45_sink_receives_list_semantics, C45_first_stage_error_ends_the_stream, C45_any_materialisation); stage fusion keeps the "
            "operators; sem is the familiar list function per operator; ParallelMap emits a permutation (stage-level); flowActor never emits beyond demand. "
            "Every run: ~130 generated pipelines (depth 0..6, sizes around the demand window 224 / refill 64) through the public API on a real ActorSystem "
            "judged by the Coq sem via vm_compute and by an independent Python list semantics; ~240 message scripts driven through the REAL stage actors "
            "between probe actors (parallel stage with scripted worker completion order; long backlog/partial-drain scripts for the output queue), every step's outgoing messages and ledger compared with the Coq handlers "
            "(ledger fields are read by reflection: if they disappear the comparison falls back to the messages). One generated pipeline in nine is a fused run of >=2 stateless stages with a dropping Filter directly in front of an (Ordered)ParallelMap.",
    "design_ref": "DESIGN.md 7/C45",
    "level_note": "Trusted: Coq kernel, the Go harness (pipeline builder, probes, encodings), the actor runtime's per-sender FIFO and Shutdown semantics (modelled as FIFO links / stopped actors never step). "
                  "Not proved: liveness (that a terminal signal eventually arrives) - checked on every run by the timeout-confirmed stall oracle; unordered ParallelMap inside a chain (stage-level theorem only); "
                  "Batch maxWait timer, Throttle, FlatMapConcat/Merge, external Stop/Abort are outside the model.",
}
