"""C04 — every mailbox implementation behaves like its sequential specification.

Proof:  Properties/C04.v (C04/Model.v executable models of the nine mailboxes as coded; C04/Contract.v
        reservation-queue contract; C04/Heap.v, C04/Seq*.v, C04/Conc*.v proofs).
Tie:    (S) generated op sequences run on the REAL mailboxes (in-package, overlay), outputs + Len/IsEmpty
            after every op compared with the Coq models evaluated by vm_compute on the same sequences;
        (T) logical threads over yield points that tools/mbinstr inserts before every atomic operation
            of the CURRENT mailbox sources: context-bounded schedule enumeration, directed scripts and
            seeded random schedules on the real Enqueue/Dequeue code;
        real-goroutine stress.
Oracle: written from the property text, independent of the model: conservation, FIFO / priority /
        priority-then-arrival order, capacity, reject only when full, emptiness reports, quiescent drain.
"""
import json
import os
import re

import vlib
from vlib import read_jsonl, zlit
import mbox_util as mu
from mbox_util import KINDS, KIND_NO, eff_cap

FAIR_STALL = "UnboundedFairMailbox:sender-deactivated-while-producer-mid-link"
SEG_REUSE = "segmented:pooled-segment-reuse:stale-tail-producer"


def map_stress_sig(cfg, sig):
    """real-goroutine runs cannot show WHICH interleaving caused a loss; two known defects are
    recognised by their only possible shape there"""
    cls = sig.split(":", 1)[1] if ":" in sig else sig
    if cfg.get("K") == "fair" and cfg.get("SameKey") and cls in ("stuck-at-quiescence:stress", "lost", "len-nonzero-when-empty"):
        return FAIR_STALL
    # pooled-segment reuse: confirmed by experiment (the same stress never loses a message once newSegment()
    # stops taking segments from segmentPool); under real goroutines it shows as lost / stuck / misplaced
    # messages or a producer looping over a corrupted chain
    if cfg.get("K") == "segmented" and cls in ("stuck-at-quiescence:stress", "lost", "len-nonzero-when-empty", "hang",
                                               "stress-timeout", "fifo-order", "rejected-but-delivered"):
        return SEG_REUSE
    return sig


def E(i, s, p=0, b=0):
    return [0, i, s, p, b]


D = [1, 0, 0, 0, 0]
L = [2, 0, 0, 0, 0]
Z = [3, 0, 0, 0, 0]


# ------------------------------------------------------------------------------------------------
def gen_seq_cases(ctx):
    rng = ctx.rng
    cases = []
    n_per_kind = 120 if ctx.thorough else 27
    caps = [1, 2, 3, 4, 5, 7, 8, 9, 16]

    def one(kind, cap, pf, n_ops, style):
        eff = eff_cap(kind, cap)
        ops, held, nid, pend = [], 0, 1, False
        senders = rng.choice([1, 2, 3, 5])
        phase_enq = 0.7
        for i in range(n_ops):
            if style == "phases" and i % 13 == 0:
                phase_enq = rng.choice([0.9, 0.75, 0.5, 0.25, 0.1])
            r = rng.random()
            if pend:  # a blocked Enqueue is waiting: the consumer must make room next
                ops.append([1, 0, 0, 0])
                held = held - 1 + 1
                pend = False
                continue
            if r < 0.12:
                ops.append([rng.choice([2, 3]), 0, 0, 0])
            elif r < 0.12 + 0.88 * phase_enq:
                sender = rng.randrange(senders) if rng.random() < 0.9 else -1
                prio = rng.choice([0, 1, 2, 3, 5, 5, 7, 9, 11, -2]) if rng.random() < 0.8 else rng.randrange(-3, 13)
                full = eff > 0 and held >= eff
                if kind == "bounded" and full:
                    if held > 0 and rng.random() < 0.5:
                        ops.append([4, nid, sender, prio])  # expected to block until the next Dequeue
                        pend = True
                        nid += 1
                    else:
                        ops.append([1, 0, 0, 0])
                        held -= 1
                    continue
                ops.append([0, nid, sender, prio])
                nid += 1
                if not full:
                    held += 1
            else:
                ops.append([1, 0, 0, 0])
                held = max(0, held - 1)
        if pend:
            ops.append([1, 0, 0, 0])
        ops += [[1, 0, 0, 0]] * rng.randrange(0, 4) + [[2, 0, 0, 0], [3, 0, 0, 0]]
        return {"K": kind, "C": cap, "P": pf, "Ops": ops}

    # corpus first
    cdir = os.path.join(vlib.VERIF, "corpus", "C04")
    if os.path.isdir(cdir):
        for f in sorted(os.listdir(cdir)):
            if f.endswith(".jsonl"):
                for c in read_jsonl(os.path.join(cdir, f)):
                    if "Ops" in c:
                        cases.append(c)
    for kind in KINDS:
        for j in range(n_per_kind):
            cap = caps[j % len(caps)] if kind in mu.BOUNDED else 0
            pf = j % 5
            n = rng.choice([12, 20, 35, 60]) if j % 9 else 120
            cases.append(one(kind, cap, pf, n, rng.choice(["phases", "mixed"])))
    # segment boundaries: fill past 256 / 512 slots, drain across them, refill
    for (a, b, c) in ([(300, 280, 300), (256, 256, 257)] + ([(600, 590, 40), (1030, 700, 300)] if ctx.thorough else [])):
        ops, nid = [], 1
        for _ in range(a):
            ops.append([0, nid, nid % 3, 0]); nid += 1
        ops += [[2, 0, 0, 0]] + [[1, 0, 0, 0]] * b + [[3, 0, 0, 0]]
        for _ in range(c):
            ops.append([0, nid, nid % 3, 0]); nid += 1
        ops += [[1, 0, 0, 0]] * (a - b + c + 2) + [[2, 0, 0, 0], [3, 0, 0, 0]]
        cases.append({"K": "segmented", "C": 0, "P": 0, "Ops": ops})
    return cases


def gen_scenarios(ctx):
    t = 4 if ctx.thorough else 1
    scs = []

    def add(name, kind, threads, cap=0, pf=0, prefill=(), pre=2, runs=260, rnd=100, drain=10, procs=0, scripts=None, traces=0):
        scs.append(dict(Name=name, K=kind, C=cap, Eff=eff_cap(kind, cap), P=pf, Procs=procs, Prefill=list(prefill),
                        Threads=threads, MaxPreempt=pre, MaxRuns=runs * t, RandomRuns=rnd * t, Drain=drain,
                        Scripts=scripts or [], Traces=traces * t))

    for kind in ["unbounded", "segmented", "fair", "nbbounded", "uprio", "ustable", "bprio", "bstable"]:
        cap = 2 if kind in mu.BOUNDED else 0
        pf = 2 if kind in mu.PRIO else 0
        # two producers, consumer probing emptiness
        # (directed: each producer paused at each of its first yield points while the other completes
        #  and the consumer runs; then enumeration + random)
        paused = [[[a, k], [1 - a, -1], [2, -1], [a, -1]] for a in (0, 1) for k in range(1, 13)]
        add(kind + "/2p-1c", kind, [[E(1, 1, 4)], [E(2, 2, 3)], [D, Z, D]], cap=cap, pf=pf, scripts=paused,
            traces=150 if kind == "unbounded" else 0)
        # prefilled, a producer with two messages, one with one, consumer dequeues and reads Len
        add(kind + "/pre-3p-1c", kind, [[E(1, 1, 5), E(3, 1, 2)], [E(2, 2, 5)], [D, D, L, D]], cap=cap, pf=pf,
            prefill=[E(9, 3, 5)], runs=320, rnd=150, drain=12)
        if kind in mu.BOUNDED:
            # a full mailbox, producers racing one dequeue
            c1 = 1 if kind in ("bprio", "bstable") else 2
            pre = [E(9, 3, 1)] if c1 == 1 else [E(9, 3, 1), E(8, 3, 1)]
            add(kind + "/full-2p-1c", kind, [[E(1, 1, 1)], [E(2, 2, 1)], [D]], cap=c1, pf=pf, prefill=pre, runs=450, rnd=150)
    # fair: same sender key from two goroutines (+ a third sender), and the anonymous key
    paused = [[[a, k], [1 - a, -1], [2, -1], [a, -1]] for a in (0, 1) for k in range(1, 13)]
    add("fair/samekey-2p", "fair", [[E(1, 7)], [E(2, 7)], [D, D]], runs=700, rnd=200, scripts=paused, traces=120)
    add("fair/samekey-3p", "fair", [[E(1, 7), E(4, 7)], [E(2, 7)], [E(3, 8)], [D, D, D]], runs=700, rnd=300, drain=14, traces=120)
    add("fair/nosender-2p", "fair", [[E(1, -1)], [E(2, -1)], [D, Z, D]], runs=300, rnd=100)
    # priority: stable order under concurrency, equal keys
    add("ustable/equal-keys", "ustable", [[E(1, 1, 3), E(2, 1, 6)], [E(3, 2, 0)], [D, D]], pf=2, prefill=[E(9, 3, 9), E(8, 3, 1)], runs=400, rnd=150, drain=12)
    add("bstable/equal-keys", "bstable", [[E(1, 1, 3), E(2, 1, 6)], [E(3, 2, 0)], [D, D]], cap=4, pf=2, prefill=[E(9, 3, 9), E(8, 3, 1)], runs=400, rnd=150, drain=12)
    # segmented: producers crossing a segment boundary while the consumer drains
    pre255 = [E(1000 + i, 0) for i in range(255)]
    add("segmented/boundary", "segmented", [[E(1, 1), E(3, 1)], [E(2, 2), E(4, 2)], [D, D, D]], prefill=pre255, runs=120, rnd=60, drain=300)
    # segmented: a producer holding a stale tail segment while the segment is drained, pooled and
    # re-issued to a second mailbox (sync.Pool hit needs a single P)
    pre256 = [E(1000 + i, 0) for i in range(256)]
    scripts = [[[0, k], [1, -1], [2, -1], [3, -1], [0, -1]] for k in range(1, 7)]
    add("segmented/stale-tail-pooled-segment", "segmented",
        [[E(1, 1)], [E(2, 2)], [D] * 257, [[5, 0, 0, 0, 1], E(3, 3, 0, 1), [1, 0, 0, 0, 1], [1, 0, 0, 0, 1]]],
        prefill=pre256, pre=0, runs=1, rnd=0, drain=300, procs=1, scripts=scripts)
    return scs


def gen_stress(ctx):
    cfgs = []
    big = 4 if ctx.thorough else 1
    for kind in KINDS:
        cap = 64 if kind in mu.BOUNDED else 0
        cfgs.append(dict(K=kind, C=cap, Eff=eff_cap(kind, cap), P=0, Producers=4, PerProd=1500 * big, Procs=4, SameKey=False, Gosched=7))
        cap2 = 3 if kind in mu.BOUNDED else 0
        if kind == "bounded":
            cap2 = 4
        cfgs.append(dict(K=kind, C=cap2, Eff=eff_cap(kind, cap2), P=2, Producers=8, PerProd=400 * big, Procs=8, SameKey=(kind == "fair"), Gosched=3))
        if ctx.thorough:
            cfgs.append(dict(K=kind, C=cap, Eff=eff_cap(kind, cap), P=4, Producers=3, PerProd=3000, Procs=2, SameKey=False, Gosched=0))
    return cfgs


# ------------------------------------------------------------------------------------------------
def coq_compare(ctx, cases, outs):
    """evaluate C04/Model.v on the same op sequences; returns (n_cases, mismatching indices, detail)"""
    items = []
    for i, (c, o) in enumerate(zip(cases, outs)):
        exp = "[" + "; ".join("(%s,%s,%s)" % (zlit(r[0]), zlit(r[1]), zlit(r[2])) for r in o["R"]) + "]"
        items.append("(%d%%Z, %d, %d, %d, %s, %s)" % (i, KIND_NO[c["K"]], c["C"], c["P"], mu.coq_ops(c["Ops"]), exp))
    body = """From Coq Require Import ZArith List Bool. Import ListNotations.
From GV Require Import C04.Model.
Open Scope Z_scope.
Definition triple_eqb (a b : Z*Z*Z) : bool :=
  match a, b with (a1,a2,a3), (b1,b2,b3) => (a1 =? b1) && (a2 =? b2) && (a3 =? b3) end.
Fixpoint outs_eqb (a b : list (Z*Z*Z)) : bool :=
  match a, b with [] , [] => true | x :: r, y :: s => triple_eqb x y && outs_eqb r s | _, _ => false end.
(* the harness stops a case at the first operation that does not return; compare that prefix *)
Fixpoint prefix_eqb (model impl : list (Z*Z*Z)) : bool :=
  match impl, model with [] , _ => true | y :: s, x :: r => triple_eqb x y && prefix_eqb r s | _ :: _, [] => false end.
Fixpoint first_diff (n : Z) (a b : list (Z*Z*Z)) : Z :=
  match a, b with x :: r, y :: s => if triple_eqb x y then first_diff (n+1) r s else n | _, _ => n end.
Definition cases : list (Z*Z*Z*Z*list op*list (Z*Z*Z)) := [
%s
].
Definition bad := filter (fun c => match c with (i,k,cp,pf,ops,exp) => negb (outs_eqb (run_kind k cp pf ops) exp) end) cases.
Definition detail := map (fun c => match c with (i,k,cp,pf,ops,exp) =>
   let m := run_kind k cp pf ops in let d := first_diff 0 m exp in (i, d, nth (Z.to_nat d) m (0,0,0), nth (Z.to_nat d) exp (0,0,0)) end) (firstn 5 bad).
Definition summary := (length cases, length bad, detail).
Eval vm_compute in summary.
""" % ";\n".join(items)
    rc, out = ctx.coq_eval("cases_C04", body, timeout=900)
    flat = " ".join(out.split())
    m = re.search(r"= \((\d+)%nat, (\d+)%nat, (\[.*\])\) : ", flat)
    if rc != 0 or not m:
        return None, None, out[-3000:]
    det = re.findall(r"\((-?\d+), (-?\d+), \((-?\d+), (-?\d+), (-?\d+)\), \((-?\d+), (-?\d+), (-?\d+)\)\)", m.group(3))
    return int(m.group(1)), int(m.group(2)), [dict(case=int(d[0]), op_index=int(d[1]), model=[int(x) for x in d[2:5]], implementation=[int(x) for x in d[5:8]]) for d in det]


# atomic-step trace conformance for the fair mailbox: every yield point the scheduler passed is either one
# step of C04/ConcFair.v or private to its thread; the model replays the same interleaving and must
# produce the same Dequeue results and the same final Len
FAIR_STEP = {
    "UnboundedMailbox.Enqueue/SwapPointer#1", "UnboundedMailbox.Enqueue/StorePointer#2",
    "UnboundedFairMailbox.Enqueue/AddInt64#1", "UnboundedFairMailbox.Enqueue/AddInt64#2",
    "UnboundedFairMailbox.Enqueue/active.CompareAndSwap#1",
    "activeSenders.enqueue/tail.Swap#1", "activeSenders.enqueue/StorePointer#2",
    "activeSenders.dequeue/LoadPointer#1", "UnboundedMailbox.Dequeue/LoadPointer#2",
    "UnboundedFairMailbox.Dequeue/active.Store#1", "UnboundedFairMailbox.Dequeue/AddInt64#1",
    "UnboundedFairMailbox.Dequeue/AddInt64#2",
    "UnboundedFairMailbox.finalizeSender/active.Store#1", "UnboundedFairMailbox.finalizeSender/LoadInt64#1",
}
FAIR_SKIP = {
    "", "op-boundary", "UnboundedFairMailbox.Enqueue/senders.Load#1", "senderLoadOrStore/senderLoadOrStoreFn.Load#1",
    "UnboundedMailbox.Enqueue/StorePointer#1", "activeSenders.enqueue/pool.Get#1", "activeSenders.enqueue/value.Store#1",
    "activeSenders.enqueue/StorePointer#1", "activeSenders.dequeue/head.Load#1", "activeSenders.dequeue/head.Store#1",
    "activeSenders.dequeue/value.Load#1", "activeSenders.dequeue/StorePointer#1", "activeSenders.dequeue/value.Store#1",
    "activeSenders.dequeue/pool.Put#1", "UnboundedMailbox.Dequeue/LoadPointer#1", "UnboundedMailbox.Dequeue/StorePointer#1",
    "UnboundedMailbox.Dequeue/StorePointer#2", "UnboundedFairMailbox.finalizeSender/StoreInt64#1",
}


def fair_conformance(ctx, scs, sched):
    """returns (n_traces, n_mismatch, detail, unknown_labels)"""
    by_name = {s["Name"]: s for s in scs}
    items, unknown = [], set()
    for s in sched:
        sc = by_name.get(s["Scenario"])
        if not sc or sc["K"] != "fair" or sc.get("Prefill"):
            continue
        nprod = len(sc["Threads"]) - 1
        progs = []
        ok = True
        for th in sc["Threads"][:-1]:
            if any(op[0] != 0 for op in th):
                ok = False
            progs.append("[" + "; ".join("mkMsg %s %s %s" % (zlit(op[1]), zlit(op[2]), zlit(op[3])) for op in th) + "]")
        if not ok or any(op[0] != 1 for op in sc["Threads"][-1]):
            continue
        for tr in s.get("Traces") or []:
            steps = []
            good = True
            for th, lab in tr["Steps"]:
                if lab in FAIR_STEP:
                    steps.append(th)
                elif lab not in FAIR_SKIP:
                    unknown.add(lab)
                    good = False
            if not good:
                continue
            ndeq = len(tr["Deqs"])
            want = "[" + "; ".join(("Some %s" % zlit(d)) if d >= 0 else "None" for d in tr["Deqs"]) + "]"
            items.append("([%s], [%s]%%nat, %d%%nat, %s, %s)" % ("; ".join(progs), "; ".join(steps), ndeq, want, zlit(tr["Len"])))
    if not items:
        return 0, 0, None, sorted(unknown)
    body = """From Coq Require Import ZArith List Bool. Import ListNotations.
From GV Require Import C04.Model C04.ConcFair.
Open Scope Z_scope.
Fixpoint oz_eqb (a b : list (option Z)) : bool :=
  match a, b with [], [] => true
  | Some x :: r, Some y :: s => (x =? y) && oz_eqb r s | None :: r, None :: s => oz_eqb r s | _, _ => false end.
(* after the recorded interleaving every thread has returned; the drain is the consumer alone *)
Definition replay (c : list (list msg) * list nat * nat * list (option Z) * Z) :=
  match c with (progs, steps, ndeq, want, len) =>
    let s := frun (steps ++ repeat (length progs) (12 * ndeq)) (finit progs ndeq) in
    (oz_eqb (couts s) want && (clength s =? len), couts s, clength s) end.
Definition cases : list (list (list msg) * list nat * nat * list (option Z) * Z) := [
%s
].
Definition bad := filter (fun c => negb (fst (fst (replay c)))) cases.
Eval vm_compute in (length cases, length bad, map (fun c => (snd (fst (replay c)), snd (replay c), c)) (firstn 1 bad)).
""" % ";\n".join(items)
    rc, out = ctx.coq_eval("trace_C04", body, timeout=600)
    m = re.search(r"= \((\d+)%nat, (\d+)%nat, (\[.*\])\) : ", " ".join(out.split()))
    if rc != 0 or not m:
        return None, None, out[-3000:], sorted(unknown)
    return int(m.group(1)), int(m.group(2)), m.group(3)[:2500], sorted(unknown)


RQ_SKIP = {"", "op-boundary", "UnboundedMailbox.Enqueue/StorePointer#1", "UnboundedMailbox.Dequeue/LoadPointer#1",
           "UnboundedMailbox.Dequeue/StorePointer#1", "UnboundedMailbox.Dequeue/StorePointer#2",
           "UnboundedMailbox.IsEmpty/LoadPointer#1"}


def rq_conformance(ctx, scs, sched):
    """UnboundedMailbox vs the reservation queue of C04/Contract.v on the recorded interleavings:
    tail swap = reserve, link = publish, the head.next load of Dequeue / IsEmpty = deq / isEmpty."""
    by_name = {s["Name"]: s for s in scs}
    items, unknown = [], set()
    for s in sched:
        sc = by_name.get(s["Scenario"])
        if not sc or sc["K"] != "unbounded" or sc.get("Prefill"):
            continue
        if any(op[0] == 2 for th in sc["Threads"] for op in th):
            continue  # Len walks the list: not a single decisive read
        for tr in s.get("Traces") or []:
            opi = {}
            acts, good = [], True
            for th, lab in tr["Steps"]:
                t = int(th)
                if lab == "":
                    opi[t] = 0
                elif lab == "op-boundary":
                    opi[t] = opi.get(t, 0) + 1
                ops = sc["Threads"][t]
                op = ops[min(opi.get(t, 0), len(ops) - 1)]
                if lab == "UnboundedMailbox.Enqueue/SwapPointer#1":
                    acts.append("AReserve %s" % zlit(op[1]))
                elif lab == "UnboundedMailbox.Enqueue/StorePointer#2":
                    acts.append("APublish %s" % zlit(op[1]))
                elif lab == "UnboundedMailbox.Dequeue/LoadPointer#2":
                    acts.append("ADeq")
                elif lab == "UnboundedMailbox.IsEmpty/LoadPointer#2":
                    acts.append("AIsEmpty")
                elif lab not in RQ_SKIP:
                    unknown.add(lab)
                    good = False
            if not good:
                continue
            # observed: concurrent-phase consumer results in order, then the drain Dequeues
            items.append("([%s], %d%%nat, [%s])" % ("; ".join(acts), sc["Drain"], "; ".join(zlit(d) for d in tr["Obs"])))
    if not items:
        return 0, 0, None, sorted(unknown)
    body = """From Coq Require Import ZArith List Bool. Import ListNotations.
From GV Require Import C04.Contract.
Open Scope Z_scope.
Inductive act := AReserve (m : Z) | APublish (m : Z) | ADeq | AIsEmpty.
Definition M := rq Z.eq_dec None.
Fixpoint play (s : rq_state Z) (l : list act) (out : list Z) : rq_state Z * list Z :=
  match l with
  | [] => (s, out)
  | AReserve m :: r => play (match rq_reserve None s m with Some s' => s' | None => s end) r out
  | APublish m :: r => play (complete Z.eq_dec m s) r out
  | ADeq :: r => let '(o, s') := rq_deq s in play s' r (out ++ [match o with Some m => m | None => -1 end])
  | AIsEmpty :: r => play s r (out ++ [if rq_isEmpty s then 1 else 0])
  end.
Fixpoint zl_eqb (a b : list Z) : bool :=
  match a, b with [], [] => true | x :: r, y :: s => (x =? y) && zl_eqb r s | _, _ => false end.
(* drain: Dequeue until three nils (at most n calls) *)
Fixpoint drain (n nils : nat) (s : rq_state Z) (out : list Z) : list Z :=
  match n with
  | O => out
  | S n' => if Nat.leb 3 nils then out else
            let '(o, s') := rq_deq s in
            match o with Some m => drain n' 0 s' (out ++ [m]) | None => drain n' (S nils) s' (out ++ [-1]) end
  end.
Definition cases : list (list act * nat * list Z) := [
%s
].
Definition replay (c : list act * nat * list Z) :=
  match c with (acts, ndrain, want) => let '(s, out) := play [] acts [] in drain ndrain 0 s out end.
Definition bad := filter (fun c => negb (zl_eqb (replay c) (snd c))) cases.
Eval vm_compute in (length cases, length bad, map (fun c => (replay c, c)) (firstn 1 bad)).
""" % ";\n".join(items)
    rc, out = ctx.coq_eval("trace_rq_C04", body, timeout=600)
    m = re.search(r"= \((\d+)%nat, (\d+)%nat, (\[.*\])\) : ", " ".join(out.split()))
    if rc != 0 or not m:
        return None, None, out[-3000:], sorted(unknown)
    return int(m.group(1)), int(m.group(2)), m.group(3)[:2500], sorted(unknown)


def pow2_compare(ctx, ins, outs):
    pairs = "; ".join("(%s,%s)" % (zlit(i), zlit(o)) for i, o in zip(ins, outs))
    body = """From Coq Require Import ZArith List Bool. Import ListNotations.
From GV Require Import C04.Model.
Open Scope Z_scope.
Definition cases : list (Z*Z) := [%s].
Definition bad := filter (fun c => negb (nextPowerOfTwo (fst c) =? snd c)) cases.
Eval vm_compute in (length cases, length bad, firstn 3 bad).
""" % pairs
    rc, out = ctx.coq_eval("pow2_C04", body, timeout=300)
    m = re.search(r"= \((\d+)%nat, (\d+)%nat, (\[.*\])\)", " ".join(out.split()))
    if rc != 0 or not m:
        return None, out[-2000:]
    return int(m.group(2)), m.group(3)


def replay(ctx, overlay):
    """bin/check C04 --replay replays/C04-<seed>-<n>.json : re-execute the recorded schedule / op sequence"""
    rp = json.load(open(ctx.replay_path))
    body = rp.get("replay", {})
    if body.get("scenario") and body.get("schedule (thread chosen at each yield point)") is not None:
        with open(os.path.join(ctx.work, "c04_replay_in.jsonl"), "w") as f:
            f.write(json.dumps({"Scenario": body["scenario"], "Sched": body["schedule (thread chosen at each yield point)"]}) + "\n")
        rc, out = mu.go_test(ctx, overlay, "^TestVerifC04Replay$", timeout=600)
        res = read_jsonl(os.path.join(ctx.work, "c04_replay_out.jsonl"))
        for r in res:
            print("history:")
            for h in r.get("Hist") or []:
                print("   ", h)
            for v in r.get("Violations") or []:
                ctx.violation("replay:" + v["Sig"], v["What"], {"replayed": ctx.replay_path})
        if rc != 0:
            ctx.tie_broken("replay harness", out[-2000:])
    elif body.get("ops"):
        kind = body.get("mailbox")
        case = {"K": kind, "C": body.get("capacity", 0), "P": body.get("priority_family", 0), "Ops": body["ops"]}
        with open(os.path.join(ctx.work, "c04_seq_in.jsonl"), "w") as f:
            f.write(json.dumps(case) + "\n")
        rc, out = mu.go_test(ctx, overlay, "^TestVerifC04Seq$", timeout=600)
        res = read_jsonl(os.path.join(ctx.work, "c04_seq_out.jsonl"))
        if res:
            print("observed:", res[0]["R"])
            orc = mu.SeqOracle(case["K"], case["C"], case["P"])
            for op, r in zip(case["Ops"], res[0]["R"]):
                v = orc.step(op, r)
                if v:
                    ctx.violation("replay:seq:%s:%s" % (kind, v[0]), v[1], {"replayed": ctx.replay_path})
                    break
    else:
        print("nothing replayable in", ctx.replay_path)
    ctx.coverage.update({"evaluations": 1, "distinct_nontrivial": 1, "rule": "replay of one recorded case", "samples": [ctx.replay_path]})


# ------------------------------------------------------------------------------------------------
def run(ctx):
    ctx.trusted += [
        "tools/mbinstr (inserts verifMbPoint calls before statements with atomic operations in copies of the mailbox files; semantics-preserving by construction: calls to a no-op hook)",
        "the logical-thread scheduler and the history oracle in go/inpkg/actor/zz_verif_C04_test.go",
        "Workiva go-datastructures RingBuffer (external; modelled as a Vyukov ring with blocking Put, tested by the sequential tie)",
        "Go memory model: sync/atomic operations are sequentially consistent; contexts are read immediately after Dequeue",
    ]
    ctx.assumptions += [
        "one consumer goroutine per mailbox (the Mailbox contract); any number of producers",
        "priority functions are strict weak orders (the generated family compares an integer key)",
        "ring positions do not wrap (2^63 enqueues)",
        "BoundedMailbox capacity is taken as its documented effective capacity (power-of-two rounding, minimum two)",
    ]
    test_files = ["zz_verif_C04_test.go"]
    overlay, notes = mu.build_overlay(ctx, test_files)
    if not notes.get("instrumented"):
        ctx.tie_broken("mbinstr could not instrument the mailbox files", notes)
    if ctx.replay_path:
        return replay(ctx, overlay)

    cases = gen_seq_cases(ctx)
    scs = gen_scenarios(ctx) if notes.get("instrumented") else []
    stress = gen_stress(ctx)
    pow_in = sorted(set([-5, 0, 1, 2, 3, 4, 5, 7, 8, 9, 1000, 1023, 1024, 1025, 65535, 65536, 65537, 2 ** 31 - 1, 2 ** 31, 2 ** 31 + 1,
                         2 ** 40 + 3, 2 ** 62 - 1, 2 ** 62, 2 ** 62 + 1] + [ctx.rng.randrange(1, 2 ** 20) for _ in range(60)] +
                        [2 ** k + d for k in range(2, 62) for d in (-1, 0, 1)]))

    def dump(name, rows):
        with open(os.path.join(ctx.work, name), "w") as f:
            for r in rows:
                f.write(json.dumps(r) + "\n")

    dump("c04_seq_in.jsonl", cases)
    dump("c04_sched_in.jsonl", scs)
    dump("c04_stress_in.jsonl", stress)
    dump("c04_pow2_in.jsonl", [{"N": n} for n in pow_in])
    for fn in ("c04_seq_out.jsonl", "c04_sched_out.jsonl", "c04_stress_out.jsonl", "c04_pow2_out.jsonl"):
        p = os.path.join(ctx.work, fn)
        if os.path.exists(p):
            os.remove(p)

    rc, out = mu.go_test(ctx, overlay, "^TestVerifC04(Seq|Sched|Stress|Pow2)$", timeout=1500 if ctx.thorough else 600)
    ctx.log("go harness rc=%d" % rc)
    if rc != 0 and notes.get("instrumented") and ("build failed" in out or "[setup failed]" in out or "cannot" in out[:2000]):
        # the instrumented build does not compile: fall back to the plain sources (no schedules)
        ctx.tie_broken("instrumented mailbox build failed", out[-3000:])
        overlay, notes2 = mu.build_overlay(ctx, test_files, instrument=False)
        rc, out = mu.go_test(ctx, overlay, "^TestVerifC04(Seq|Stress|Pow2)$", timeout=600)
    souts = read_jsonl(os.path.join(ctx.work, "c04_seq_out.jsonl"))
    sched = read_jsonl(os.path.join(ctx.work, "c04_sched_out.jsonl"))
    strs = read_jsonl(os.path.join(ctx.work, "c04_stress_out.jsonl"))
    pouts = read_jsonl(os.path.join(ctx.work, "c04_pow2_out.jsonl"))
    if rc != 0 or len(souts) != len(cases):
        ctx.tie_broken("go-harness TestVerifC04 (rc=%d, %d/%d sequential cases)" % (rc, len(souts), len(cases)), out[-4000:])

    # ---- (S) property oracle on the sequential runs
    n_viol = 0
    op_hist = {"Enq": 0, "EnqBlocking": 0, "Deq": 0, "Len": 0, "IsEmpty": 0}
    out_hist = {"accepted": 0, "full": 0, "blocked": 0, "deq-some": 0, "deq-nil": 0}
    distinct = set()
    for c, o in zip(cases, souts):
        orc = mu.SeqOracle(c["K"], c["C"], c["P"])
        nontrivial = False
        for op, res in zip(c["Ops"], o["R"]):
            op_hist[{0: "Enq", 4: "EnqBlocking", 1: "Deq", 2: "Len", 3: "IsEmpty"}[op[0]]] += 1
            if op[0] in (0, 4):
                out_hist[{1: "accepted", 0: "full", 2: "blocked"}.get(res[0], "accepted")] += 1
            if op[0] == 1:
                out_hist["deq-some" if res[0] >= 0 else "deq-nil"] += 1
                nontrivial = nontrivial or res[0] >= 0
            v = orc.step(op, res)
            if v and n_viol < 8:
                n_viol += 1
                sig = "seq:%s:%s" % (c["K"], v[0])
                if c["K"] == "bounded" and c["C"] == 1:
                    sig = "bounded:capacity-one-ring"
                ctx.violation(sig, "%s(capacity %d, priority family %d): %s" % (c["K"], c["C"], c["P"], v[1]),
                              {"mailbox": c["K"], "capacity": c["C"], "priority_family": c["P"], "ops": c["Ops"], "observed": o["R"],
                               "legend": "op [code,id,sender,prio]: 0 Enqueue 1 Dequeue 2 Len 3 IsEmpty 4 Enqueue-on-full; observed [out, Len after, IsEmpty after]"})
            if v:
                break
        if nontrivial:
            distinct.add(vlib.canon_hash(c))

    ctx.log("sequential oracle done")
    # ---- (S) the Coq models on the same sequences
    seq_mismatch = None
    if souts and len(souts) == len(cases):
        ok_m, mo = ctx.coq_build(["theories/C04/Model.vo"])
        if not ok_m:
            ctx.proof_broken("C04/Model.v does not compile", mo)
        else:
            n, nbad, det = coq_compare(ctx, cases, souts)
            if n is None:
                ctx.tie_broken("cases_C04.v did not evaluate", det)
            else:
                seq_mismatch = nbad
                if nbad:
                    for d in det:
                        d["mailbox"] = cases[d["case"]]["K"]
                        d["capacity"] = cases[d["case"]]["C"]
                        d["ops_prefix"] = cases[d["case"]]["Ops"][:d["op_index"] + 1]
                    ctx.tie_broken("sequential model C04/Model.v vs real mailboxes: %d of %d cases differ" % (nbad, n), det)
    # nextPowerOfTwo
    pow_bad = None
    if pouts and len(pouts) == len(pow_in):
        for n_, o in zip(pow_in, pouts):
            want = mu.next_pow2(n_)
            if o["R"] != want and n_ <= 2 ** 62:
                ctx.violation("nextPowerOfTwo", "nextPowerOfTwo(%d) = %d, want the least power of two >= max(n,2) = %d" % (n_, o["R"], want), {"n": n_, "got": o["R"], "want": want})
                break
        ins2 = [n_ for n_ in pow_in if n_ <= 2 ** 62]
        pow_bad, pdet = pow2_compare(ctx, ins2, [o["R"] for n_, o in zip(pow_in, pouts) if n_ <= 2 ** 62])
        if pow_bad is None:
            ctx.tie_broken("pow2_C04.v did not evaluate", pdet)
        elif pow_bad:
            ctx.tie_broken("Model.nextPowerOfTwo vs Go nextPowerOfTwo", pdet)

    ctx.log("model comparison done")
    # ---- (T) schedules
    sched_runs = sched_distinct = sched_steps = 0
    sig_seen = {}
    by_name = {s["Name"]: s for s in scs}
    for s in sched:
        sched_runs += s["Runs"]
        sched_distinct += s["Distinct"]
        sched_steps += s["Steps"]
        vs = s.get("Violations") or []
        sigs = {v["Sig"] for v in vs}
        aba = s["Scenario"] == "segmented/stale-tail-pooled-segment" and "segmented:wrong-mailbox" in sigs
        for v in vs:
            sig = v["Sig"]
            if aba and sig in ("segmented:wrong-mailbox", "segmented:len-nonzero-when-empty", "segmented:empty-report-while-enqueue-in-flight"):
                sig = SEG_REUSE
            if sig.startswith("fair:stuck-at-quiescence:same-sender-concurrent-enqueues"):
                sig = FAIR_STALL
            elif ":stuck-at-quiescence" in sig:
                sig = sig.split(":paused@")[0]
            if sig in sig_seen:
                sig_seen[sig] += s["SigCounts"].get(v["Sig"], 1)
                continue
            sig_seen[sig] = s["SigCounts"].get(v["Sig"], 1)
            ctx.violation(sig, "%s [scenario %s]: %s" % (s["K"], s["Scenario"], v["What"]),
                          {"scenario": by_name.get(s["Scenario"]), "schedule (thread chosen at each yield point)": v.get("Sched"),
                           "history": v.get("Hist"), "how": "threads are goroutines over the instrumented mailbox sources; replay with TestVerifC04Replay"})
    if scs and len(sched) != len(scs):
        ctx.tie_broken("schedule harness wrote %d of %d scenario summaries" % (len(sched), len(scs)), out[-3000:])

    # ---- (T) atomic-step conformance of the fair-mailbox model on the recorded interleavings
    conf_n = conf_bad = None
    if sched:
        conf_n, conf_bad, conf_det, unknown = fair_conformance(ctx, scs, sched)
        if unknown:
            ctx.notes.append("fair-mailbox trace conformance: yield points not in the label table (traces through them skipped): %s" % unknown)
        if conf_n is None:
            ctx.tie_broken("trace_C04.v did not evaluate", conf_det)
        elif conf_bad:
            ctx.tie_broken("atomic-step model C04/ConcFair.v vs the real fair mailbox: %d of %d recorded interleavings give different Dequeue results" % (conf_bad, conf_n), conf_det)

    rq_n = rq_bad = None
    if sched:
        rq_n, rq_bad, rq_det, unknown = rq_conformance(ctx, scs, sched)
        if unknown:
            ctx.notes.append("UnboundedMailbox trace conformance: yield points not in the label table (traces skipped): %s" % unknown)
        if rq_n is None:
            ctx.tie_broken("trace_rq_C04.v did not evaluate", rq_det)
        elif rq_bad:
            ctx.tie_broken("reservation-queue model C04/Contract.v vs the real UnboundedMailbox: %d of %d recorded interleavings give different results" % (rq_bad, rq_n), rq_det)

    # ---- stress
    stress_msgs = 0
    for s in strs:
        stress_msgs += s["Accepted"]
        for v in s.get("Violations") or []:
            sig = map_stress_sig(s["Cfg"], v["Sig"])
            if sig in sig_seen:
                continue
            sig_seen[sig] = 1
            ctx.violation(sig, "%s [stress %s]: %s" % (s["Cfg"]["K"], json.dumps(s["Cfg"]), v["What"]), {"stress": s["Cfg"], "seed": ctx.seed})

    ctx.log("schedules/stress evaluated")
    # ---- thorough: the stress harness again under the race detector (supporting evidence only)
    if ctx.thorough and rc == 0:
        for fn in ("c04_stress_out.jsonl",):
            pth = os.path.join(ctx.work, fn)
            if os.path.exists(pth):
                os.remove(pth)
        rc_r, out_r = mu.go_test(ctx, overlay, "^TestVerifC04Stress$", timeout=1500, race=True)
        ctx.notes.append("race-detector pass over the stress harness: rc=%d" % rc_r)
        if "WARNING: DATA RACE" in out_r:
            i = out_r.index("WARNING: DATA RACE")
            frames = out_r[i:i + 3000]
            if "mailbox.go" in frames or "priority_intake.go" in frames:
                ctx.violation("data-race", "the race detector reports a data race inside the mailbox code under the stress harness", {"report": frames})
            else:
                ctx.notes.append("race detector report outside the mailbox files (harness bookkeeping): ignored")
        for s in read_jsonl(os.path.join(ctx.work, "c04_stress_out.jsonl")):
            for v in s.get("Violations") or []:
                sig = map_stress_sig(s["Cfg"], v["Sig"])
                if sig not in sig_seen:
                    sig_seen[sig] = 1
                    ctx.violation(sig, "%s [stress under -race %s]: %s" % (s["Cfg"]["K"], json.dumps(s["Cfg"]), v["What"]), {"stress": s["Cfg"], "seed": ctx.seed})

    # ---- the theorems
    if not ctx.coq_property():
        if not any(f.kind == "violation" for f in ctx.findings):
            ctx.proof_broken("Properties/C04.v (%s)" % getattr(ctx, "failed_at", "?"), getattr(ctx, "coq_log", ""))
        else:
            ctx.notes.append("Coq obligation broken at %s; concrete failing input reported" % getattr(ctx, "failed_at", "?"))
    ctx.log("coq property built")
    thms = re.findall(r"^\s*Theorem\s+(\w+)", open(os.path.join(vlib.COQ, "theories/Properties/C04.v")).read(), re.M) if os.path.exists(os.path.join(vlib.COQ, "theories/Properties/C04.v")) else []

    samples = []
    if cases and souts:
        samples.append({"sequential": {"mailbox": cases[0]["K"], "ops": cases[0]["Ops"][:6], "observed": souts[0]["R"][:6]}})
    for s in sched[:1]:
        samples.append({"schedule_history": s.get("Sample")})
    ctx.coverage.update({
        "evaluations": len(souts) + sched_runs + len(strs),
        "distinct_nontrivial": len(distinct) + sched_distinct,
        "rule": "sequential case non-trivial = at least one message delivered, distinct by hash of (mailbox, capacity, priority family, ops); schedule non-trivial = distinct invocation/response history",
        "samples": samples,
        "sequential_cases": len(souts), "sequential_ops": op_hist, "sequential_outcomes": out_hist,
        "sequential_model_mismatches": seq_mismatch, "nextPowerOfTwo_cases": len(pouts), "nextPowerOfTwo_model_mismatches": pow_bad,
        "mailboxes": KINDS, "capacities": sorted({c["C"] for c in cases}),
        "schedule_scenarios": len(sched), "schedules_run": sched_runs, "schedule_steps": sched_steps, "distinct_histories": sched_distinct,
        "yield_points": notes.get("yield_points"),
        "rq_model_interleavings_replayed": rq_n, "rq_model_interleaving_mismatches": rq_bad,
        "fair_model_interleavings_replayed": conf_n, "fair_model_interleaving_mismatches": conf_bad,
        "stress_configs": len(strs), "stress_messages": stress_msgs,
        "signatures_seen": sig_seen,
        "theorems": thms,
    })


META = {
    "ready": True,
    "category": "proof",
    "technique": "Rocq refinement/invariant proofs over executable mailbox models + sequential differential + schedule enumeration over instrumented sources",
    "text": "Executable Gallina models of the nine mailboxes as coded; theorems for all op sequences / all interleavings of any number of producers with one consumer; the real mailboxes are run on generated op sequences (compared with the Coq models by vm_compute and with an independent oracle), under context-bounded schedule enumeration over yield points inserted before every atomic operation, and under real-goroutine stress.",
    "design_ref": "DESIGN.md 7/C04",
    "level_note": "Trusted: Coq kernel, the instrumenter and scheduler harness, Workiva ring (contract), Go memory model for sync/atomic.",
}
