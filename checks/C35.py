"""C35 — relocation handoff masking respects caller deadlines.

Proof:  Properties/C35.v over the executable model C35/Model.v of deliverAcrossHandoff /
        sleepWithinHandoff / deliverBypassingHandoff on a logical clock, for every oracle of ActorOf
        outcomes, delays and cancellations: total slept <= caller timeout (and <= window + not-found
        window), the delivery context is bounded by the caller deadline, the loop terminates within 72
        attempts, giving up yields the retryable error, SendAsync resolves once and never sleeps.
Tie:    the REAL functions run in-package against a scripted ActorSystem double; time cannot be
        substituted, so every attempt/delivery/return is timestamped and the Coq model is replayed
        (vm_compute) on the recorded loop-head readings: it must predict the same number of attempts,
        the same result, each observed gap must be the requested sleep (never shorter, at most a
        scheduling tolerance longer) and the delivery deadline must be start + timeout.
Oracle: independent of the model: return time <= timeout + time inside ActorOf + tolerance; delivery
        context deadline <= caller deadline; retryable error kind on exhaustion; async: one attempt,
        no sleep.  Timing discrepancies are re-run sequentially twice before they are reported.
"""
import ast
import json
import os
import re
from collections import Counter

from vlib import canon_hash


def read_jsonl(path):
    """tolerant reader: a harness that was killed leaves a truncated last line"""
    out = []
    if not os.path.exists(path):
        return out
    for line in open(path, errors="replace"):
        line = line.strip()
        if line:
            try:
                out.append(json.loads(line))
            except ValueError:
                break
    return out

MS = 10 ** 6
WINDOW, NFWINDOW, MINB, MAXB = 3000 * MS, 500 * MS, 50 * MS, 300 * MS
RETRYABLE = ["notfound", "addrnotfound", "sendfail", "reqtimeout", "ctxdeadline", "connrefused", "nettimeout", "inprogress"]
SLEEP_CASES = [(50, -10, 0), (50, 0, 0), (50, 1, 0), (50, 20, 0), (50, 50, 0), (50, 200, 0), (300, 120, 0), (1, 500, 0), (200, 1000, 60), (100, 40, 500), (0, 100, 0)]
HI_TOL = 45 * MS       # scheduling tolerance on a single sleep (observed jitter on a loaded machine: 1-20 ms); persistent over 3 runs to count
TOTAL_TOL = 70 * MS    # the same for the whole call
ASYNC_TOL = 35 * MS    # the asynchronous path has no timer at all: anything beyond scheduling noise is a sleep
LO_TOL = 3 * MS        # a timer never fires early; skew between the harness' reading and the loop's own
AMBIG = 30 * MS        # |remaining| below this at the deciding step: either decision is consistent
DL_TOL = 40 * MS       # start is read a little after the first ActorOf returned


def cls(a):
    if a["o"] == "live":
        return "Live"
    if a["o"] == "pinned":
        return "Pinned"
    if a["o"] in RETRYABLE and not a.get("no_flight"):
        return "NotFound"
    return "Terminal"


def att(o, resolve_ms=0, no_flight=False):
    return {"o": o, "resolve_ms": resolve_ms, "no_flight": no_flight}


def gen_scenarios(ctx):
    rng = ctx.rng
    scs = []

    def add(max_wait_ms, attempts, tail, in_cluster=True, cancel_ms=0, is_async=False, deliver_err=False):
        scs.append({"n": len(scs), "max_wait_ms": max_wait_ms, "in_cluster": in_cluster, "attempts": attempts, "tail": tail,
                    "cancel_ms": cancel_ms, "async": is_async, "deliver_err": deliver_err})

    live, pinned, nf, term = att("live"), att("pinned"), att("notfound"), att("terminal")
    # not clustered: one resolution, no masking
    add(0, [], live, in_cluster=False)
    add(300, [], pinned, in_cluster=False)
    add(300, [], nf, in_cluster=False)
    # clustered, live at once
    add(0, [], live)
    add(200, [], live)
    add(200, [], live, deliver_err=True)
    # pinned for ever: the caller timeout caps the window
    for mw in (30, 50, 120, 400, 1000):
        add(mw, [], pinned)
    add(0, [], pinned)          # full 3 s window
    add(5000, [], pinned)       # timeout above the window: still 3 s
    # not found for ever: 500 ms mask, capped by the timeout
    for kind in RETRYABLE[:4] if not ctx.thorough else RETRYABLE:
        add(0, [], att(kind))
    add(200, [], nf)
    add(1000, [], att("connrefused"))
    add(0, [], att("nettimeout"))
    # masking ends with a live target
    for k in (1, 2, 4):
        add(0, [pinned] * k, live)
        add(2000, [nf] * k, live)
    add(700, [pinned] * 3, live, deliver_err=True)
    # mixed: pinned then the registry gap (not-found budget anchored at its first observation)
    add(0, [pinned] * 3, nf)
    add(600, [pinned] * 2, nf)
    add(0, [nf] * 2, pinned)
    # fail fast
    add(0, [], term)
    add(0, [pinned], term)
    add(0, [], att("dead"))
    add(0, [], att("notfound", no_flight=True))
    add(500, [pinned, pinned], att("notfound", no_flight=True))
    # slow resolutions eat into the budget
    add(400, [], att("pinned", resolve_ms=80))
    add(600, [att("pinned", resolve_ms=150)], att("notfound", resolve_ms=40))
    # cancellation during a sleep
    add(0, [], pinned, cancel_ms=120)
    add(2000, [], nf, cancel_ms=70)
    # SendAsync path
    for a in (live, pinned, nf, term):
        add(0, [], a, is_async=True)
    add(0, [], pinned, in_cluster=False, is_async=True)
    add(0, [], att("pinned", resolve_ms=60), is_async=True)
    # through the public entry points PID.SendSync / PID.SendAsync (resolution never succeeds, so no Ask is issued)
    for mw in (120, 400):
        scs.append({"n": len(scs), "max_wait_ms": mw, "in_cluster": True, "attempts": [], "tail": pinned, "cancel_ms": 0, "async": False, "deliver_err": False, "via_send": True})
    scs.append({"n": len(scs), "max_wait_ms": 300, "in_cluster": True, "attempts": [], "tail": att("sendfail"), "cancel_ms": 0, "async": False, "deliver_err": False, "via_send": True})
    for a in (pinned, att("sendfail"), att("pinned", resolve_ms=40)):
        scs.append({"n": len(scs), "max_wait_ms": 0, "in_cluster": True, "attempts": [], "tail": a, "cancel_ms": 0, "async": True, "deliver_err": False, "via_send": True})
    # the delivery itself fails, with or without the endpoint being marked as relocating while it runs
    # (a NodeLeft landing between the resolution and the dial): the outcome is surfaced as is, nothing is
    # re-resolved, nothing sleeps - on the asynchronous path in particular
    kinds = ["connrefused", "sendfail", "nettimeout", "reqtimeout", "terminal"]
    for i, kind in enumerate(kinds if ctx.thorough else kinds[:4]):
        for flip in (True, False):
            scs.append({"n": len(scs), "max_wait_ms": 0, "in_cluster": True, "attempts": [], "tail": live, "cancel_ms": 0, "async": True,
                        "deliver_err": False, "deliver_result": kind, "flip_during_deliver": flip})
        scs.append({"n": len(scs), "max_wait_ms": [0, 300, 1000][i % 3], "in_cluster": True, "attempts": [pinned] * (i % 2), "tail": live, "cancel_ms": 0,
                    "async": False, "deliver_err": False, "deliver_result": kind, "flip_during_deliver": True})
    scs.append({"n": len(scs), "max_wait_ms": 0, "in_cluster": False, "attempts": [], "tail": live, "cancel_ms": 0, "async": True,
                "deliver_err": False, "deliver_result": "connrefused", "flip_during_deliver": True})
    # seeded random
    for _ in range(40 if ctx.thorough else 10):
        mw = rng.choice([0, 0, rng.randint(20, 900), rng.randint(60, 400), 3500])
        k = rng.randint(0, 6)
        kinds = ["pinned", "pinned", "notfound", rng.choice(RETRYABLE)]
        attempts = [att(rng.choice(kinds), rng.choice([0, 0, 0, 15, 60])) for _ in range(k)]
        tail = rng.choice([live, pinned, nf, term, att(rng.choice(RETRYABLE)), att("notfound", no_flight=True)])
        if mw == 0 and cls(tail) in ("Pinned",) and rng.random() < 0.7:
            tail = live  # keep the number of multi-second scenarios small
        add(mw, attempts, tail)
    return scs


# ----------------------------------------------------------------------------- Coq replay
COQ_HEADER = """From Coq Require Import List ZArith Bool. Import ListNotations.
From GV Require Import C35.Model.
Open Scope Z_scope.
Definition res_code (r : result) : Z * Z :=
  match r with
  | Delivered (Some d) => (0, d) | Delivered None => (0, -1)
  | FailFast => (1, -1) | GaveUp ErrRelocationInProgress => (2, -1) | GaveUp ErrOfResolution => (3, -1)
  | Pending => (4, -1) end.
Definition run1 (c : Z * Z * list (outcome * Z * bool)) :=
  match c with (n, mw, evs) => let '(l, r) := replay mw evs in (n, res_code r, l) end.
Definition nc (o : outcome) : Z * Z := res_code (deliverNotClustered o).
Definition by1 (c : bool * outcome) := let '(k, s, r) := deliverBypassingHandoff (fst c) (snd c) in (Z.of_nat k, Z.of_nat (length s), res_code r).
"""


def coq_replay(ctx, items):
    """items: list of (n, max_wait_ns, [(class, reading_ns)]); returns {n: (code, dl, steps)}"""
    rows = []
    for n, mw, evs in items:
        rows.append("(%d, %d, [%s])" % (n, mw, "; ".join("(%s, %d, false)" % (c, t) for c, t in evs)))
    body = COQ_HEADER + "Definition cases : list (Z * Z * list (outcome * Z * bool)) := [%s].\n" % "; ".join(rows)
    body += "Eval vm_compute in (map run1 cases, map nc [Live; Pinned; NotFound; Terminal], map by1 [(true, Live); (true, Pinned); (true, NotFound); (true, Terminal); (false, Pinned)]).\n"
    rc, out = ctx.coq_eval("cases_C35", body)
    if rc != 0:
        return None, out
    flat = " ".join(out.split())
    m = re.search(r"= (\(.*\)) : ", flat)
    if not m:
        return None, out
    try:
        val = ast.literal_eval(m.group(1).replace(";", ","))
    except Exception as e:  # noqa
        return None, out + "\nparse error: %s" % e
    runs, ncs, bys = val
    return ({r[0]: (r[1][0], r[1][1], list(r[2])) for r in runs}, list(ncs), list(bys)), out


ERR_OF_CODE = {0: "ok", 1: "resolution", 2: "inprogress", 3: "resolution", 4: "pending"}


def evaluate(ctx, scs, outs, hi_tol, total_tol, pred):
    """returns {n: (kind, signature, what, detail)} for scenarios that do not check out"""
    model, ncs, bys = pred
    bad = {}
    for sc in scs:
        n = sc["n"]
        o = outs.get(n)
        if o is None:
            continue
        seen = o["attempts"]
        resolve_ns = sum(a["ret_ns"] - a["entry_ns"] for a in seen)
        mw = sc["max_wait_ms"] * MS

        def flag(kind, sig, what):
            bad.setdefault(n, (kind, sig, what, {"scenario": sc, "observed": o}))

        last_cls = cls((sc["attempts"] + [sc["tail"]] * max(0, len(seen) - len(sc["attempts"])))[len(seen) - 1]) if seen else None
        # ---------------- property oracle (no model involved)
        if sc["async"]:
            if len(seen) != 1:
                flag("violation", "deliverBypassingHandoff:attempts", "SendAsync path resolved %d times" % len(seen))
            if o["ret_ns"] - resolve_ns > ASYNC_TOL:
                flag("violation", "deliverBypassingHandoff:blocked", "SendAsync path took %.0f ms beyond the resolution itself" % ((o["ret_ns"] - resolve_ns) / MS))
            if sc["in_cluster"] and last_cls == "Pinned" and o["err"] != "inprogress":
                flag("violation", "deliverBypassingHandoff:error", "departing endpoint: expected the retryable ErrRelocationInProgress, got %s" % o["err"])
            want = {"Live": "ok", "Pinned": "inprogress" if sc["in_cluster"] else "ok", "NotFound": "resolution", "Terminal": "resolution"}[last_cls]
            if o["delivered"] > 1:
                flag("violation", "deliverBypassingHandoff:delivered-twice", "SendAsync path delivered %d times" % o["delivered"])
            if want == "ok" and (sc.get("deliver_result") or sc.get("deliver_err")):
                want = "deliver"
                if o["err"] != "deliver" and o["delivered"] >= 1:
                    flag("violation", "deliverBypassingHandoff:error", "the delivery failed with %s; SendAsync path returned %s instead of that error" % (sc.get("deliver_result"), o["err"]))
            if o["err"] != want or (want in ("ok", "deliver")) != (o["delivered"] == 1):
                flag("tie", "deliverBypassingHandoff model vs Go", "result %s/%d deliveries, model %s" % (o["err"], o["delivered"], want))
            continue
        if not sc["in_cluster"]:
            want = "ok" if last_cls in ("Live", "Pinned") else "resolution"
            if len(seen) != 1 or o["err"] != want or o["has_deadline"] or o["handoffs"] != 0:
                flag("tie", "deliverAcrossHandoff (not clustered) model vs Go", "attempts %d result %s deadline %s" % (len(seen), o["err"], o["has_deadline"]))
            continue
        bound = (mw if mw > 0 else WINDOW + NFWINDOW)
        if sc["cancel_ms"] > 0:
            bound = min(bound, sc["cancel_ms"] * MS)
        if o["ret_ns"] > bound + resolve_ns + total_tol:
            flag("violation", "deliverAcrossHandoff:timeout-exceeded",
                 "masked send with timeout %d ms returned after %.0f ms (%.0f ms inside ActorOf)" % (sc["max_wait_ms"], o["ret_ns"] / MS, resolve_ns / MS))
        if o["delivered"] > 1:
            flag("violation", "deliverAcrossHandoff:delivered-twice", "deliver invoked %d times" % o["delivered"])
        if o["delivered"] >= 1 and (any(a["entry_ns"] > o["deliver_at_ns"] for a in seen) or o["ret_ns"] - o["deliver_at_ns"] > total_tol):
            flag("violation", "deliverAcrossHandoff:after-delivery", "after the delivery the send kept going: %d later resolutions, returned %.0f ms after the delivery" %
                 (sum(1 for a in seen if a["entry_ns"] > o["deliver_at_ns"]), (o["ret_ns"] - o["deliver_at_ns"]) / MS))
        if o["delivered"] == 1:
            if mw > 0 and (not o["has_deadline"] or o["deadline_ns"] > seen[0]["ret_ns"] + mw + DL_TOL):
                flag("violation", "deliverAcrossHandoff:deliver-deadline",
                     "delivery context deadline is %s, caller deadline is about %.1f ms after the call" %
                     ("%.1f ms" % (o["deadline_ns"] / MS) if o["has_deadline"] else "absent", (seen[0]["ret_ns"] + mw) / MS))
            if mw <= 0 and o["has_deadline"]:
                flag("violation", "deliverAcrossHandoff:deliver-deadline", "a deadline was imposed although the caller gave no timeout")
        if o["err"] not in ("ok", "deliver") and o["delivered"] == 0 and last_cls in ("Pinned", "NotFound"):
            want = "inprogress" if last_cls == "Pinned" else "resolution"
            if o["err"] != want:
                flag("violation", "deliverAcrossHandoff:error-kind", "gave up with %s, the error that stalled the masking is %s" % (o["err"], want))
        if sc["cancel_ms"] > 0:
            continue
        # ---------------- replay of the Coq model on the recorded readings
        pr = model.get(n)
        if pr is None:
            continue
        code, dl, steps = pr
        want_err = ERR_OF_CODE[code]
        # entries: one per Pinned/NotFound attempt the model walked; Live/Terminal end without an entry
        walked = len(steps) + (1 if code in (0, 1) else 0)
        ambiguous = bool(steps) and abs(steps[-1][1]) < AMBIG
        # an earlier step whose remaining was within the ambiguity band may also have gone either way
        amb_any = any(abs(rem) < AMBIG for _, rem in steps)
        if code == 4 or walked != len(seen):
            if not amb_any:
                flag("tie", "deliverAcrossHandoff attempts: model vs Go", "Go made %d attempts and returned %s; the model on the same readings walks %d and yields %s" % (len(seen), o["err"], walked, want_err))
            continue
        obs_err = "ok" if o["err"] in ("ok", "deliver") else o["err"]
        if obs_err != want_err and not ambiguous:
            flag("tie", "deliverAcrossHandoff result: model vs Go", "Go returned %s, model %s" % (o["err"], want_err))
            continue
        for i, (req, rem) in enumerate(steps):
            if req <= 0 or i + 1 >= len(seen):
                continue
            gap = seen[i + 1]["entry_ns"] - seen[i]["ret_ns"]
            if gap < req - LO_TOL and abs(rem - req) > AMBIG and not (abs(rem) < AMBIG):
                flag("tie", "deliverAcrossHandoff sleep shorter than the model's", "attempt %d: slept %.1f ms, the model requests %.1f ms (remaining %.1f ms)" % (i + 1, gap / MS, req / MS, rem / MS))
            elif gap > req + hi_tol:
                flag("timing", "deliverAcrossHandoff sleep longer than the model's", "attempt %d: slept %.1f ms, the model requests %.1f ms (remaining %.1f ms)" % (i + 1, gap / MS, req / MS, rem / MS))
        if code == 0 and mw > 0 and o["has_deadline"] and abs(o["deadline_ns"] - dl) > DL_TOL:
            flag("tie", "deliverAcrossHandoff delivery deadline: model vs Go", "deadline %.1f ms, model start+timeout = %.1f ms" % (o["deadline_ns"] / MS, dl / MS))
        want_handoffs = 1 if any(req > 0 or True for req, _ in steps) and steps else 0
        if o["handoffs"] != want_handoffs:
            flag("tie", "recordRelocationHandoff count", "recorded %d handoffs, expected %d" % (o["handoffs"], want_handoffs))
    return bad


def run_go(ctx, scs, seq, both=False):
    with open(os.path.join(ctx.work, "c35_in.jsonl"), "w") as f:
        for sc in scs:
            f.write(json.dumps(sc) + "\n")
    outp = os.path.join(ctx.work, "c35_out.jsonl")
    if os.path.exists(outp):
        os.remove(outp)
    rc, gout = ctx.go_test("actor", "^TestVerifC35" if both else "^TestVerifC35Handoff", ["zz_verif_C35_test.go"], env={"VERIF_C35_SEQ": "1" if seq else "0"}, timeout=600)
    outs = {o["n"]: o for o in read_jsonl(outp)}
    return rc, gout, outs


def predict(ctx, scs, outs):
    items = []
    for sc in scs:
        o = outs.get(sc["n"])
        if o is None or sc["async"] or not sc["in_cluster"] or sc["cancel_ms"] > 0 or not o["attempts"]:
            continue
        seq = sc["attempts"] + [sc["tail"]] * max(0, len(o["attempts"]) - len(sc["attempts"]))
        items.append((sc["n"], sc["max_wait_ms"] * MS, [(cls(a), s["ret_ns"]) for a, s in zip(seq, o["attempts"])]))
    return coq_replay(ctx, items)


def run(ctx):
    ctx.trusted += ["hand-written Gallina model C35/Model.v (replayed by vm_compute on the clock readings recorded from the real functions, every run)",
                    "time.Now/time.NewTimer of the Go runtime (not substitutable in this code): readings are bracketed with tolerances, discrepancies re-run sequentially twice"]
    ctx.assumptions += ["time spent inside system.ActorOf and inside the delivery itself is outside the loop's control (oracle delays in the model; C35_returns_within_timeout_plus_delay states the bound with them)",
                        "a timer never fires before its duration has elapsed; the clock is monotone"]
    scs = gen_scenarios(ctx)
    sleeps = []
    for d, dl, c in SLEEP_CASES:
        sleeps.append({"n": len(sleeps), "duration_ms": d, "deadline_ms": dl, "cancel_ms": c})
    with open(os.path.join(ctx.work, "c35_sleep_in.jsonl"), "w") as f:
        for s in sleeps:
            f.write(json.dumps(s) + "\n")
    sp = os.path.join(ctx.work, "c35_sleep_out.jsonl")
    if os.path.exists(sp):
        os.remove(sp)
    rc, gout, outs = run_go(ctx, scs, seq=False, both=True)
    souts = {o["n"]: o for o in read_jsonl(sp)}
    if rc != 0 or len(outs) != len(scs):
        ctx.tie_broken("go-harness actor.deliverAcrossHandoff", gout)
    ctx.coq_build(["theories/C35/Model.vo"])
    pred, cout = predict(ctx, scs, outs)
    reported = 0
    persistent = {}
    if pred is None:
        ctx.tie_broken("model evaluation (cases_C35.v did not evaluate)", cout)
    else:
        model, ncs, bys = pred
        if ncs != [(0, -1), (0, -1), (1, -1), (1, -1)] or bys != [(1, 0, (0, -1)), (1, 0, (2, -1)), (1, 0, (1, -1)), (1, 0, (1, -1)), (1, 0, (0, -1))]:
            ctx.tie_broken("C35 model constants (deliverNotClustered / deliverBypassingHandoff table)", {"got": [ncs, bys]})
        bad = evaluate(ctx, scs, outs, hi_tol=HI_TOL, total_tol=TOTAL_TOL, pred=pred)
        persistent = dict(bad)
        rounds = 0
        while persistent and rounds < 2:
            rounds += 1
            sub = [sc for sc in scs if sc["n"] in persistent]
            rc2, gout2, outs2 = run_go(ctx, sub, seq=True)
            pred2, cout2 = predict(ctx, sub, outs2)
            if pred2 is None or rc2 != 0:
                break
            again = evaluate(ctx, sub, outs2, hi_tol=HI_TOL, total_tol=TOTAL_TOL, pred=pred2)
            persistent = {n: again[n] for n in persistent if n in again}
            ctx.notes.append("re-run %d (sequential) of %d scenarios with discrepancies: %d persist" % (rounds, len(sub), len(persistent)))
        for n, (kind, sig, what, detail) in sorted(persistent.items()):
            if reported >= 5:
                break
            reported += 1
            if kind == "violation":
                ctx.violation(sig, what, detail)
            else:
                ctx.tie_broken(sig, dict(detail, what=what))

    # ---- sleepWithinHandoff directly
    if len(souts) != len(sleeps):
        ctx.tie_broken("go-harness actor.sleepWithinHandoff", gout)
    rows = "; ".join("(%d, %d, %d)" % (s["n"], s["duration_ms"] * MS, souts[s["n"]]["rem_ns"]) for s in sleeps if s["n"] in souts)
    body = ("From Coq Require Import List ZArith. Import ListNotations.\nFrom GV Require Import C35.Model.\nOpen Scope Z_scope.\n"
            "Eval vm_compute in (map (fun c => match c with (n, d, r) => (n, match sleep_request d r with Some x => x | None => -1 end) end) [%s]).\n" % rows)
    rc4, out4 = ctx.coq_eval("sleep_C35", body)
    m = re.search(r"= (\[.*\]) : ", " ".join(out4.split()))
    if rc4 != 0 or not m:
        ctx.tie_broken("model evaluation (sleep_C35.v did not evaluate)", out4)
    else:
        want = dict(ast.literal_eval(m.group(1).replace(";", ",")))
        for s in sleeps:
            o = souts.get(s["n"])
            if o is None:
                continue
            req = want[s["n"]]
            cancel = s["cancel_ms"] * MS if s["cancel_ms"] else None
            if abs(o["rem_ns"]) < 2 * MS:
                continue
            if req < 0:
                ok = (not o["ok"]) and o["took_ns"] < 100 * MS
            elif cancel is not None and cancel < req - 5 * MS:
                ok = (not o["ok"]) and cancel - LO_TOL <= o["took_ns"] <= cancel + 150 * MS
            else:
                ok = o["ok"] and req - LO_TOL <= o["took_ns"] <= req + 150 * MS
            if not ok and reported < 6:
                reported += 1
                if req >= 0 and o["took_ns"] > s["deadline_ms"] * MS + 150 * MS:
                    ctx.violation("sleepWithinHandoff:past-deadline", "sleepWithinHandoff(%d ms, deadline in %d ms) slept %.1f ms" % (s["duration_ms"], s["deadline_ms"], o["took_ns"] / MS), {"input": s, "observed": o})
                else:
                    ctx.tie_broken("sleepWithinHandoff model vs Go", {"input": s, "observed": o, "model_request_ns": req})

    if not ctx.coq_property():
        if not any(f.kind == "violation" for f in ctx.findings):
            ctx.proof_broken("Properties/C35.v (%s)" % getattr(ctx, "failed_at", "?"), getattr(ctx, "coq_log", ""))
        else:
            ctx.notes.append("Coq obligation broken at %s; concrete failing input reported" % getattr(ctx, "failed_at", "?"))

    hist = Counter()
    for sc in scs:
        o = outs.get(sc["n"])
        if o:
            hist["async" if sc["async"] else ("not-clustered" if not sc["in_cluster"] else o["err"] + ("+masked" if o["handoffs"] else ""))] += 1
    nontriv = {canon_hash({k: v for k, v in sc.items() if k != "n"}) for sc in scs if outs.get(sc["n"]) and len(outs[sc["n"]]["attempts"]) >= 2}
    ctx.coverage.update({
        "evaluations": len(outs) + len(souts),
        "distinct_nontrivial": len(nontriv),
        "rule": "scripted handoff scenarios (pinned/not-found/live/terminal sequences, 8 retryable error kinds, timeouts 0..5000 ms incl. below minBackoff and above the window, slow resolutions, cancellation, delivery failure, async path) + seeded random ones; non-trivial = at least one masked retry, distinct by canonical scenario",
        "outcomes": dict(hist),
        "attempts_total": sum(len(o["attempts"]) for o in outs.values()),
        "sleep_unit_cases": len(souts),
        "persistent_discrepancies": len(persistent),
        "samples": [scs[6], outs.get(6), scs[9]],
        "theorems": ["C35_sleep_clamped", "C35_sleep_within_caller_timeout", "C35_sleep_within_windows", "C35_deliver_bounded_by_caller_deadline",
                     "C35_loop_terminates", "C35_gives_up_with_retryable_error", "C35_returns_within_timeout_plus_delay", "C35_async_never_sleeps",
                     "C35_async_retryable_on_departing_endpoint"],
    })


META = {
    "ready": True,
    "category": "proof",
    "technique": "Rocq proof over an executable logical-clock model of the masking loop + replay of the model (vm_compute) on timestamps recorded from the real functions driven by a scripted system double",
    "text": "For every oracle of resolution outcomes, delays and cancellations: the sleeps of one masked name-based send add up to at most the caller's timeout (and to at most handoff window + not-found window without one), the single delivery gets a context bounded by the caller deadline, the loop terminates within 72 attempts, giving up returns the retryable error that stalled it, and the asynchronous send resolves once and never sleeps. The real deliverAcrossHandoff/sleepWithinHandoff/deliverBypassingHandoff run against a scripted ActorSystem; their recorded readings are replayed through the Coq model.",
    "design_ref": "DESIGN.md 7/C35",
    "level_note": "Trusted: Coq kernel, the hand-written model (replayed each run), Go runtime timers/clock (bracketed, not substituted).",
}
