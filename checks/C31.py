"""C31 — grain activations are ordered and single-threaded.

Model:  coq/theories/C31/Model.v: one grain identity; senders (ensureGrainProcess fast path / activation flight, then
        receive with its `activated` gate), worker turns (schedState, dispatchOne, PoisonPill -> deactivate on the turn),
        direct passivation (passivationTry -> deactivate on the manager goroutine); one step per hook boundary.
Proof:  Properties/C31.v: C31_activate_before_receive (all executions); C31_overlap_refuted, C31_once_refuted,
        C31_last_receive_refuted (witness schedules); C31_partial (no direct passivation => no overlap, no double
        OnDeactivate); C31_deactivation_clears_entry + C31_fresh_after_deactivation.
Tie:    the REAL grainPID machinery driven by a controlled scheduler (sender / worker-turn / passivation goroutines run
        from hook to hook); flags, turn state, mailbox length, thread positions and hook events after every step are
        compared with the Coq model evaluated on the same labels.
Oracle: hook event logs (OnActivate/OnReceive/OnDeactivate begin+end per process) judged independently of the model, on
        the controlled runs AND on started actor systems (real dispatcher + passivation manager): deterministic scenarios
        synchronised on hook events, shutdown, and a concurrent-sender stress.
"""
import glob
import json
import os
import re

from vlib import canon_hash


def read_jsonl(path):
    """tolerates a truncated last line (harness killed by its timeout)"""
    out = []
    if not os.path.exists(path):
        return out
    for line in open(path, errors="replace"):
        line = line.strip()
        if line:
            try:
                out.append(json.loads(line))
            except ValueError:
                break
    return out


def read_jsonl_safe(path):
    return read_jsonl(path)

SIG_OVERLAP = "passivationTry:direct-deactivate-off-turn:OnDeactivate-overlaps-OnReceive"
SIG_DOUBLE = "passivationTry-vs-PoisonPill:both-pass-activated-gate:OnDeactivate-twice"
SIG_STALE = "deactivate:activated-cleared-late:message-accepted-during-OnDeactivate-delivered-after-it"
WHAT = {
    SIG_OVERLAP: "OnDeactivate runs concurrently with OnReceive: passivationTry of a non-reentrant grain calls deactivate directly on the "
                 "passivation manager's goroutine (not on the grain's turn) while a dispatcher worker is inside OnReceive "
                 "(idle timeout shorter than the handler)",
    SIG_DOUBLE: "OnDeactivate runs twice for one activation: passivationTry passes its gate (activated && !onPoisonPill) and enters "
                "deactivate; the PoisonPill handler on the turn then still sees activated=true (it is cleared only when deactivate "
                "returns) and enters deactivate as well",
    SIG_STALE: "OnReceive runs on an instance AFTER its OnDeactivate: `activated` is cleared only when deactivate returns, so while "
               "OnDeactivate runs (PoisonPill on the turn) a concurrent TellGrain passes ensureGrainProcess' fast path and receive's gate and "
               "enqueues; the same turn then dispatches the message to the deactivated grain (dispatchOne has no activated check); the "
               "sender gets a nil error",
}


def lab(s):
    b = lambda x: "true" if x else "false"
    a = s["a"]
    if a == "send":
        return "Send Pill" if s["m"] < 0 else "Send (Msg %d)" % s["m"]
    if a == "work":
        return "Work %d" % s["p"]
    if a == "pass":
        return "Pass %d" % s["p"]
    if a == "adv":
        return "Adv %d %s" % (s["t"], b(s["ok"]))
    raise ValueError(a)


def judge(events, by_grain=False):
    """independent oracle on a hook event log. returns dict of violation kind -> description (first occurrence)"""
    out = {}
    st = {}  # key -> state
    for idx, e in enumerate(events):
        key = (e.get("g", "") if by_grain else "", e["p"])
        s = st.setdefault(key, {"act_ok": False, "open_recv": [], "open_deact": 0, "deact_since_act": 0, "dead": False})
        k = e["k"]
        if k == 2 and e["m"] == 1:
            s["act_ok"] = True
            s["deact_since_act"] = 0
            s["dead"] = False
        elif k == 3:
            if not s["act_ok"]:
                out.setdefault("recv_before_activate", "OnReceive(%d) on process %s before any successful OnActivate (event %d)" % (e["m"], key, idx))
            if s["open_recv"]:
                out.setdefault("two_receives", "OnReceive(%d) started while OnReceive(%d) of process %s is running (event %d)" % (e["m"], s["open_recv"][-1], key, idx))
            if s["open_deact"] > 0:
                out.setdefault("overlap", "OnReceive(%d) started while OnDeactivate of process %s is running (event %d)" % (e["m"], key, idx))
            elif s["dead"]:
                out.setdefault("stale", "OnReceive(%d) on process %s after its OnDeactivate completed (event %d)" % (e["m"], key, idx))
            s["open_recv"].append(e["m"])
        elif k == 4:
            if e["m"] in s["open_recv"]:
                s["open_recv"].remove(e["m"])
        elif k == 5:
            if s["open_recv"]:
                out.setdefault("overlap", "OnDeactivate of process %s started while OnReceive(%d) is running (event %d)" % (key, s["open_recv"][-1], idx))
            if s["open_deact"] > 0 or s["deact_since_act"] > 0:
                out.setdefault("double", "second OnDeactivate for one activation of process %s (event %d)" % (key, idx))
            s["open_deact"] += 1
            s["deact_since_act"] += 1
        elif k == 6:
            s["open_deact"] = max(0, s["open_deact"] - 1)
            s["dead"] = True
    return out


def gen_scripts(ctx):
    scripts = []
    for p in sorted(glob.glob(os.path.join(os.path.dirname(__file__), "..", "corpus", "C31", "*.json"))):
        sc = json.load(open(p))
        sc.pop("comment", None)
        scripts.append(sc)
    n = 600 if ctx.thorough else 80
    for i in range(n):
        scripts.append({"id": "r%d" % i, "mode": "random", "seed": ctx.rng.randrange(1, 2 ** 62),
                        "max_steps": ctx.rng.choice([20, 35, 50]), "flavor": ["onturn", "any"][i % 2],
                        "fail_pct": ctx.rng.choice([0, 10, 25])})
    return scripts


def run(ctx):
    _orig_violation = ctx.violation
    _count = {}

    def _cap(sig, what, replay=None):
        _count[sig] = _count.get(sig, 0) + 1
        if _count[sig] <= 3:
            _orig_violation(sig, what, replay)
    ctx.violation = _cap
    ctx.trusted += [
        "the harness: controlled scheduler keyed by goroutine id, worker turns started by the harness (pid.runTurn on an unstarted dispatcher), instrumented grain",
        "the dispatcher's ready queue / worker pool (C05) and the three-state turn CAS (C01): at most one worker inside a turn is re-proved here at hook granularity only",
    ]
    ctx.assumptions += [
        "one grain identity on one node, no cluster (ownership: C30); non-reentrant grain (no reentrancy state: passivation is direct)",
        "system shutdown is not part of the Coq model: it is covered by scenarios on started systems (sends at every observable shutdown phase; every activation must get its OnDeactivate before Stop returns)",
        "one model step = everything a goroutine does between two user-hook boundaries (finer interleavings of the lines in between are not explored)",
        "C31_partial guard: no direct passivationTry (deactivation only through pills handled on the turn)",
    ]
    scripts = gen_scripts(ctx)
    flavor_of = {sc["id"]: sc.get("flavor", "any") for sc in scripts}
    with open(os.path.join(ctx.work, "c31_scripts.jsonl"), "w") as f:
        for sc in scripts:
            f.write(json.dumps(sc) + "\n")
    for fn in ("c31_traces.jsonl", "c31_real.jsonl"):
        p = os.path.join(ctx.work, fn)
        if os.path.exists(p):
            os.remove(p)
    env = {"VERIF_C31_GRAINS": "12" if ctx.thorough else "6", "VERIF_C31_MSGS": "200" if ctx.thorough else "40"}
    rc, out = ctx.go_test("actor", "^TestVerifC31", ["zz_verif_C31_test.go", "zz_verif_C30reg_test.go"], env=env)
    ctx.log("go harness done rc=%d" % rc)
    traces = read_jsonl(os.path.join(ctx.work, "c31_traces.jsonl"))
    for t in traces:
        for k in ("steps", "obs", "events", "ops", "max_on"):
            if t.get(k) is None:
                t[k] = []
        t.setdefault("max_live", 0)
        t.setdefault("max_run", 0)
        t.setdefault("nodes", 3)
    real = read_jsonl(os.path.join(ctx.work, "c31_real.jsonl"))
    if rc != 0 or len(traces) != len(scripts) or len(real) < 7:
        ctx.tie_broken("go-harness actor grainPID lifecycle (TestVerifC31*)", out)
    if ctx.thorough and rc == 0:
        rc_r, out_r = ctx.go_test("actor", "^TestVerifC31Real", ["zz_verif_C31_test.go", "zz_verif_C30reg_test.go"], env=env, race=True, timeout=1200)
        if rc_r != 0:
            # The -race pass is supporting evidence only (DESIGN 3.3): a data-race report by the Go race detector is
            # recorded, it is not a violation of this property and must not fail the check on its own.
            if "race detected during execution of test" in out_r or "WARNING: DATA RACE" in out_r:
                ctx.notes.append("go-harness real-system scenarios under -race: the Go race detector reported a data race (supporting evidence only); tail: " + out_r[-600:])
                ctx.coverage["race_detector_reports"] = ctx.coverage.get("race_detector_reports", 0) + out_r.count("WARNING: DATA RACE")
            else:
                ctx.tie_broken("go-harness real-system scenarios under -race", out_r)

    model = {}
    if traces:
        items = []
        for t in traces:
            items.append("[%s]" % "; ".join("(%s, [%s])" % (lab(s), "; ".join(map(str, o))) for s, o in zip(t["steps"], t["obs"])))
        body = ("From Coq Require Import List Arith Bool. Import ListNotations.\n"
                "From GV Require Import C31.Model.\n"
                "Definition traces : list (list (label * list nat)) := [\n%s].\n"
                "Definition res := map (fun tr => conform state0 tr 0 false false false) traces.\n"
                "Eval vm_compute in res.\n") % ";\n".join(items)
        ok_m, out_m = ctx.coq_build(["theories/C31/Model.vo"])
        rc2, o2 = ctx.coq_eval("cases_C31", body) if ok_m else (1, out_m)
        ctx.log("model evaluated rc=%d" % rc2)
        flat = " ".join(o2.split())
        rows = re.findall(r"\(\s*(None|Some (\d+)), (true|false), (true|false), (true|false), (true|false), (true|false)\)", flat)
        if rc2 != 0 or len(rows) != len(traces):
            ctx.tie_broken("model evaluation (cases_C31.v did not evaluate)", o2)
        else:
            for t, r in zip(traces, rows):
                model[t["id"]] = {"mismatch": None if r[0] == "None" else int(r[1]), "pass_used": r[2] == "true", "overlap": r[3] == "true",
                                  "double": r[4] == "true", "stale": r[5] == "true", "act_before_recv": r[6] == "true"}

    known_seen = set()

    def report(kind, desc, replay, model_has, where):
        sig = {"overlap": SIG_OVERLAP, "double": SIG_DOUBLE, "stale": SIG_STALE}.get(kind)
        if sig and model_has:
            if sig not in known_seen:
                ctx.violation(sig, WHAT[sig] + " [" + where + ": " + desc + "]", replay)
            known_seen.add(sig)
        else:
            ctx.violation("lifecycle:%s:%s" % (kind, "not-explained-by-model" if sig else "never-allowed"), where + ": " + desc, replay)

    n_mis = 0
    hist = {}
    distinct = set()
    lens = []
    seen_kinds = {}
    for t in traces:
        tid = t["id"]
        lens.append(len(t["steps"]))
        for s in t["steps"]:
            k = s["a"] + ("" if s["a"] != "adv" else (":ok" if s["ok"] else ":fail"))
            hist[k] = hist.get(k, 0) + 1
        if t.get("err"):
            n_err = _count.get("script-err", 0) + 1
            _count["script-err"] = n_err
            if n_err <= 2:
                ctx.tie_broken("harness script %s could not be applied" % tid, t["err"])
        m = model.get(tid)
        if len(t["steps"]) >= 6 and any(s["a"] == "work" for s in t["steps"]):
            distinct.add(canon_hash([(s["a"], s["m"], s["p"], s["t"], s["ok"]) for s in t["steps"]]))
        verdict = judge(t["events"])
        for kind, desc in verdict.items():
            seen_kinds[kind] = seen_kinds.get(kind, 0) + 1
            replay = {"script": {"id": tid, "mode": "script", "steps": t["steps"]}, "events": t["events"], "model": m,
                      "event_kinds": "1 ActBegin 2 ActEnd(ok) 3 RecvBegin(msg) 4 RecvEnd(msg) 5 DeactBegin 6 DeactEnd(ok); p = process index",
                      "how": "put the script into .build/C31/c31_scripts.jsonl and run TestVerifC31Scripts (see checks/C31.py)"}
            pass_used = any(s["a"] == "pass" for s in t["steps"])
            explained = bool(m) and m["mismatch"] is None and {"overlap": m["overlap"] and pass_used, "double": m["double"] and pass_used,
                                                               "stale": m["stale"]}.get(kind, False)
            report(kind, desc, replay, explained, "controlled schedule %s" % tid)
        if m is not None and m["mismatch"] is not None:
            n_mis += 1
            if n_mis <= 3:
                i = m["mismatch"]
                ctx.tie_broken("grainPID lifecycle vs C31/Model.v at step %d of %s" % (i, tid),
                               {"step": t["steps"][i] if i < len(t["steps"]) else None, "implementation_observed": t["obs"][i] if i < len(t["obs"]) else None,
                                "prefix": t["steps"][:i + 1],
                                "encoding": "[gmap+1, npids, per pid: activated onPoisonPill schedState mailboxLen, nthreads, thread codes, nevents, new events] see zz_verif_C31_test.go c31Run.observe"})

    # ---- started actor systems
    real_summary = []
    for r in real:
        sc = r["scenario"]
        ev = r.get("events") or []
        verdict = judge(ev, by_grain=True)
        real_summary.append({"scenario": sc, "events": len(ev), "notes": r.get("notes"), "verdict": sorted(verdict)})
        if r.get("err"):
            ctx.tie_broken("real-system scenario %s did not run as scripted" % sc, r["err"])
        allowed = {"passivation_during_receive": {"overlap"}, "send_during_pill_deactivation": {"stale"}}.get(sc, set())
        for kind, desc in verdict.items():
            replay = {"scenario": sc, "events": ev, "notes": r.get("notes"), "how": "TestVerifC31Real in go/inpkg/actor/zz_verif_C31_test.go"}
            report(kind, desc, replay, kind in allowed, "started actor system, scenario %s" % sc)
        if sc == "send_after_deactivation" and not r.get("err"):
            pids = {e["p"] for e in ev if e["k"] == 3 and e["m"] == 2}
            first = {e["p"] for e in ev if e["k"] == 3 and e["m"] == 1}
            if not pids:
                ctx.violation("lifecycle:send-after-deactivation:lost", "a message sent after the deactivation completed was never received", {"scenario": sc, "events": ev})
            elif pids & first:
                ctx.violation("lifecycle:send-after-deactivation:dead-instance", "a message sent after the deactivation completed was received by the deactivated process", {"scenario": sc, "events": ev})
        if sc == "shutdown" and not r.get("err"):
            grains = {e["g"] for e in ev}
            stop_ok = "stop ok" in (r.get("notes") or [])
            for g in grains:
                nd = sum(1 for e in ev if e["g"] == g and e["k"] == 5)
                if nd > 1 or (nd == 0 and stop_ok):
                    ctx.violation("lifecycle:shutdown:OnDeactivate-count", "system shutdown: grain %s saw %d OnDeactivate calls (want exactly 1)" % (g, nd), {"scenario": sc, "events": [e for e in ev if e["g"] == g]})
        if sc.startswith("send_during_shutdown") and not r.get("err") and "stop ok" in (r.get("notes") or []):
            # every successful activation must have been deactivated by the time Stop returns
            per = {}
            for e in ev:
                d = per.setdefault((e["g"], e["p"]), [0, 0])
                if e["k"] == 2 and e["m"] == 1:
                    d[0] += 1
                elif e["k"] == 5:
                    d[1] += 1
            for (g, p_), (na, nd) in sorted(per.items()):
                if na > nd:
                    ctx.violation("lifecycle:shutdown:activation-without-OnDeactivate",
                                  "after Stop returned, grain %s (process %d) has %d successful OnActivate but %d OnDeactivate: an instance activated during shutdown "
                                  "was never deactivated" % (g, p_, na, nd), {"scenario": sc, "events": ev, "notes": r.get("notes")})
        if sc == "stress" and not r.get("err"):
            sent = sum(1 for e in ev if e["k"] == 3)
            real_summary[-1]["received"] = sent

    if not ctx.coq_property():
        if not any(f.kind == "violation" and f.signature not in (SIG_OVERLAP, SIG_DOUBLE, SIG_STALE) for f in ctx.findings):
            ctx.proof_broken("Properties/C31.v (%s)" % getattr(ctx, "failed_at", "?"), getattr(ctx, "coq_log", ""))
        else:
            ctx.notes.append("Coq obligation broken at %s; concrete failing schedule reported" % getattr(ctx, "failed_at", "?"))

    ctx.coverage.update({
        "evaluations": len(traces) + len(real),
        "distinct_nontrivial": len(distinct),
        "rule": "corpus scripts (the three Coq witnesses + a failing-hook re-activation case) then seeded random schedules of sender / worker-turn / passivation "
                "goroutines over the real grainPID (flavour onturn = no direct passivation, any = with), hook failures 0-25%; non-trivial = at least 6 steps including "
                "a worker turn; distinct by label sequence; plus 5 scenarios on started actor systems",
        "samples": [{"id": t["id"], "steps": t["steps"][:10], "events": t["events"][:10]} for t in traces[:2] + traces[len(traces) // 2:len(traces) // 2 + 1]],
        "traces_validated_against_impl": len([1 for t in traces if model.get(t["id"]) and model[t["id"]]["mismatch"] is None]),
        "steps_compared": sum(lens), "trace_len_max": max(lens) if lens else 0, "label_histogram": hist,
        "oracle_verdicts_on_controlled_runs": seen_kinds, "model_vs_impl_mismatches": n_mis,
        "real_system_scenarios": real_summary,
        "known_schedule_shapes_replayed": sorted(known_seen),
        "theorems": ["C31_activate_before_receive", "C31_overlap_refuted", "C31_once_refuted", "C31_last_receive_refuted", "C31_partial",
                     "C31_deactivation_clears_entry", "C31_fresh_after_deactivation", "C31_partial_nonvacuous"],
    })


META = {
    "ready": True,
    "category": "proof",
    "technique": "Rocq invariants over an interleaving model of the grain lifecycle + controlled-scheduler conformance against the real grainPID + event-log oracle on started systems",
    "text": "grain_pid.go lifecycle modelled at hook granularity with the per-grain turn state machine; activate-before-receive proved for all executions; overlap / double OnDeactivate / receive-after-deactivate refuted by machine-checked witnesses replayed on the real code (known findings); no-overlap and single OnDeactivate proved for all executions without direct passivation.",
    "design_ref": "DESIGN.md 7/C31",
    "level_note": "Trusted: Coq kernel, the harness scheduler, dispatcher/ready-queue (C01/C05).",
}
