"""C26 — actor addresses survive their text form.

Proof: Properties/C26.v over C26/Model.v (buildString, Parse, HostPortOf, Validate incl. the TCP
       validator's JoinHostPort/TrimSpace/SplitHostPort and the name pattern, as functions on byte
       lists), C26/Proofs.v, C26/Valid.v.  The model mirrors internal/address/address.go with Parse
       splitting host and port at the LAST ':' (fixes/C26-ipv6.diff, applied to /repo as d405ae0;
       before it, String() of an IPv6 host did not parse back).
Tie:   real addresses built with New/NewWithParent from generated names (regex grammar, padded with
       ASCII/Unicode white space, boundary lengths), hosts (host names, IPv4, IPv6 with zones, and
       odd ones: brackets, spaces, '/', '@'), ports and parents; String(), Validate() verdict,
       Parse(String()), HostPortOf(String()) are compared with the Coq model by vm_compute; Parse and
       HostPortOf are also run on arbitrary and mutated strings (accept/reject and every field).
Oracle (independent of the model): for every address the REAL Validate accepts whose host has no
       '/' or '@': Parse(String()) succeeds with equal name/system/host/port and parent name, and
       HostPortOf(String()) = host:port = HostPort(); Parse/HostPortOf never panic on any string.
"""
import base64
import json
import os
import re

from vlib import read_jsonl, canon_hash

ALNUM = "abcdefghijklmnopqrstuvwxyzABCDEFGHIJKLMNOPQRSTUVWXYZ0123456789"
NAMECH = ALNUM + "-_."
UNI_WS = ["\u0085", "\u00a0", "\u1680", "\u2000", "\u2003", "\u200a", "\u2028", "\u2029", "\u202f", "\u205f", "\u3000"]
ASCII_WS = [" ", "\t", "\n", "\v", "\f", "\r"]


def b64(b):
    if isinstance(b, str):
        b = b.encode("utf8", "surrogateescape")
    return base64.b64encode(b).decode()


def unb(s):
    return base64.b64decode(s)


def gen_name(rng, lo=1, hi=24):
    n = rng.randint(lo, hi)
    return rng.choice(ALNUM) + "".join(rng.choice(NAMECH) for _ in range(n - 1))


HOSTS_CLASS = ["localhost", "node-1.example.com", "a", "10.0.0.12", "127.0.0.1", "255.255.255.255", "0.0.0.0", "::1", "::",
               "fe80::1%eth0", "2001:db8::ff00:42:8329", "::ffff:192.0.2.1", "0:0:0:0:0:0:0:1", "my_host", "HOST.Example", "1:2", "a:b:c"]
HOSTS_ODD = [b"", b" ", b"  host", b"\thost", b"host ", b"[::1]", b"[abc]", b"[a", b"a]b", b"a[b", b"[a]b", b"[]", b"a/b", b"a@b",
             b"h://x", "\u00a0host".encode(), "\u2003h".encode(), b"\xc2", b"\xe2\x80", b"\xc2\x85", b"a:b]", b"[a:b]", b"::1]", b" [::1]", b"host\n",
             b"\xe3\x80\x80x", b"\xff\xfe", b"[x]:1", b":", b"a b", b"%", "h\u00e9".encode()]


def gen_host(rng):
    r = rng.random()
    if r < 0.35:
        return rng.choice(HOSTS_CLASS).encode()
    if r < 0.5:
        return ".".join(gen_name(rng, 1, 8).lower() for _ in range(rng.randint(1, 4))).encode()
    if r < 0.65:
        groups = ["%x" % rng.randrange(65536) for _ in range(rng.randint(2, 8))]
        h = ":".join(groups)
        if rng.random() < 0.4:
            h = h.replace(":" + groups[1] + ":", "::", 1) if len(groups) > 2 else "::" + groups[-1]
        if rng.random() < 0.2:
            h += "%" + rng.choice(["eth0", "1", "en0"])
        return h.encode()
    if r < 0.72:
        return (".".join(str(rng.randrange(256)) for _ in range(4))).encode()
    return rng.choice(HOSTS_ODD)


def long_host(rng, n):
    """a host name of about n bytes made of DNS labels (or a long run of hex groups)"""
    if rng.random() < 0.25:
        h = ":".join("%x" % rng.randrange(65536) for _ in range(n // 5 + 1))
        return h[:n].rstrip(":").encode() or b"a"
    labels = []
    total = 0
    while total < n:
        l = gen_name(rng, 1, 63).lower()
        labels.append(l)
        total += len(l) + 1
    return ".".join(labels)[:n].rstrip(".-_").encode() or b"a"


def gen_port(rng):
    if rng.random() < 0.85:
        return rng.choice([0, 1, 80, 443, 3322, 9000, 65535, rng.randrange(65536)])
    return rng.choice([65536, -1, 100000, 2 ** 31 - 1, -2 ** 31, 655350])


def pad(rng, s):
    """names: Validate pattern-matches TrimSpace(name)"""
    if rng.random() < 0.15:
        ws = ASCII_WS + UNI_WS
        pre = "".join(rng.choice(ws) for _ in range(rng.randint(0, 2)))
        post = "".join(rng.choice(ws) for _ in range(rng.randint(0, 2)))
        return pre + s + post
    return s


def gen_addr(ctx, depth=0):
    rng = ctx.rng
    name = pad(rng, gen_name(rng))
    r = rng.random()
    if r < 0.04:
        name = gen_name(rng, 255, 255)
    elif r < 0.06:
        name = gen_name(rng, 256, 256)
    elif r < 0.10:
        name = rng.choice(["", " ", "-a", "a/b", "a:b", "a@b", "a b", "\u00e9t\u00e9", "a\n", ".a", "_x", "a" + "\u2003"])
    system = gen_name(rng, 1, 12) if rng.random() < 0.93 else rng.choice(["", "-s", "s/1", "s@x", " s", "s ", "s:1", "\u212a"])
    host = gen_host(rng)
    # maximal-length components: Validate bounds only the actor name (255 bytes); system and host are unbounded
    r = rng.random()
    if r < 0.05:
        system = gen_name(rng, 200, 2000)
    elif r < 0.10:
        host = long_host(rng, rng.choice([253, 300, 600, 1500]))
    elif r < 0.13:
        name = gen_name(rng, 255, 255)
        system = gen_name(rng, 256, 700)
        host = long_host(rng, rng.choice([253, 500]))
    port = gen_port(rng)
    a = {"Name": b64(name), "System": b64(system), "Host": b64(host), "Port": port, "Parent": None, "NoSender": False}
    r = rng.random()
    if depth < 2 and r < 0.45:
        p = gen_addr(ctx, depth + 1)
        q = rng.random()
        if q < 0.75:  # a parent that fits: same system (case may differ), host, port, other name
            sysb = unb(a["System"]).decode("utf8", "replace")
            p["System"] = b64(sysb.swapcase() if rng.random() < 0.3 else sysb)
            p["Host"], p["Port"] = a["Host"], a["Port"]
            if rng.random() < 0.9:
                p["Name"] = b64(gen_name(rng, 1, 16) if rng.random() < 0.85 else gen_name(rng, 255, 255))
        elif q < 0.8:
            p = dict(a, Parent=None)  # same name as the child: invalid
        a["Parent"] = p
    elif depth < 2 and r < 0.5:
        a["Parent"] = {"NoSender": True, "Name": "", "System": "", "Host": "", "Port": 0, "Parent": None}
    return a


def corpus_addrs():
    def A(name, system, host, port, parent=None):
        return {"Name": b64(name), "System": b64(system), "Host": b64(host), "Port": port, "Parent": parent, "NoSender": False}
    par = A("root", "orders", "::1", 9000)
    return [
        A("actor1", "sys", "::1", 9000),                       # the IPv6 form String() emits un-bracketed
        A("checkoutActor", "orders", "::1", 9000, par),
        A("a", "s", "fe80::1%eth0", 0),
        A("a", "s", "2001:db8::ff00:42:8329", 65535),
        A("checkout", "orders", "10.0.0.12", 9000, A("root", "ORDERS", "10.0.0.12", 9000)),
        A("", "", "", 0),                                       # equal to NoSender
        A("", "", "", 0, A("p", "s", "h", 1)),                  # the sentinel given a parent (degenerate)
        A("n", "s", "a/b", 80), A("n", "s", "a@b", 80), A("n", "s", "[abc]", 80), A("n", "s", " host", 80), A("n", "s", "[::1]", 80),
        # maximal lengths: 255-byte name under a 255-byte parent (541 bytes), and with long system / host
        A("c" * 255, "s", "h", 1, A("p" * 255, "s", "h", 1)),
        A("N" + "a-_." * 63 + "zz", "S" * 300, ".".join(["l" * 63] * 3 + ["m" * 61]), 65535),
        A("x" * 255, "Sys-" + "t" * 4000, ".".join(["node%d" % i for i in range(260)]), 9000, A("y" * 255, "sys-" + "T" * 4000, ".".join(["node%d" % i for i in range(260)]), 9000)),
        A("k" * 255, "s" * 600, ":".join(["ffff"] * 200), 65535, A("q" * 255, "s" * 600, ":".join(["ffff"] * 200), 65535)),
    ]


def gen_strings(ctx, valid_strings):
    rng = ctx.rng
    fixed = ["", "goakt://", "goakt://@:0/", "goakt://s@h:+5/n", "goakt://s@h:-5/n", "goakt://s@h:99999999999/n", "goakt://s@h:2147483647/n",
             "goakt://s@h:2147483648/n", "goakt://s@h:-2147483648/n", "goakt://s@h:-2147483649/n", "goakt://s@h:9223372036854775808/n",
             "goakt://s@:1:2/n", "goakt://s@h:1/a/b/c", "goakt://s@h:1//n", "goakt://s@h:1/p/", "goakt://s@h:1/", "goakt://s@h:/n", "goakt://s@h:0x10/n",
             "goakt://s@h:1_0/n", "goakt://s@h: 1/n", "goakt://s@:/n", "goakt://s@::/n", "goakt://s@:::1/n", "goakt://s@[::1]:80/n", "goakt://s@h/n",
             "goakt://s@h:1", "goakt://@h:1/n", "goakt://s@@h:1/n", "goakt://s@h:1/n@", "goakt://a://b@h:1/n", "goakt:/s@h:1/n", "GOAKT://s@h:1/n",
             "http://s@h:1/n", "://s@h:1/n", "goakt://s@h:1/n://", "goakt://s@h:00080/n", "goakt://s@h:+/n", "goakt://s@h:-/n", "@", "/", ":", "@/", "@:/",
             "x@/", "x@y/z", "@h:1", "a@b:c/d/e/f"]
    out = [s.encode() for s in fixed]
    # long inputs for the no-panic / accept-reject stream
    out += [b"goakt://" + b"s" * 5000 + b"@" + b"h" * 3000 + b":1/" + b"p" * 2000 + b"/" + b"n" * 2000,
            b"goakt://s@h:" + b"9" * 600 + b"/n", b"goakt://s@h:" + b"0" * 600 + b"7/n", b"goakt://s@" + b":" * 3000 + b"1/n",
            b"goakt://s@h:1/" + b"/" * 3000, b"goakt://" + b"@" * 2000, b"goakt" + b"://" * 1500, b"goakt://s@h:1/" + b"a/" * 1200,
            b"x" * 513, b"goakt://s@h:1/" + b"n" * 498, b"goakt://s@h:1/" + b"n" * 499, b"goakt://s@h:1/" + b"n" * 1010, b"goakt://s@h:1/" + b"n" * 4082, b"goakt://s@h:1/" + b"n" * 65522]
    longs = sorted(valid_strings, key=len)[-6:]
    alphabet = list(b":/@[]%+-_. 0a9Z\n\t\x00\xff\xc2\x85")
    for base in longs:
        for _ in range(6 if ctx.thorough else 3):
            s = bytearray(base)
            pos = rng.randrange(len(s) + 1)
            s.insert(pos, rng.choice(alphabet))
            out.append(bytes(s))
    n_mut = 1500 if ctx.thorough else 250
    for _ in range(n_mut):
        s = bytearray(rng.choice(valid_strings))
        for _ in range(rng.randint(1, 3)):
            op = rng.random()
            pos = rng.randrange(len(s) + 1)
            if op < 0.4:
                s.insert(pos, rng.choice(alphabet))
            elif op < 0.7 and s:
                del s[min(pos, len(s) - 1)]
            elif s:
                s[min(pos, len(s) - 1)] = rng.choice(alphabet)
        out.append(bytes(s))
    for _ in range(300 if ctx.thorough else 50):
        out.append(bytes(rng.choice(alphabet + list(b"goakt")) for _ in range(rng.randint(0, 30))))
    return out


def zl(b):
    return "[" + "; ".join(str(x) for x in b) + "]"


def coq_addr(a):
    """Coq term of type option addr"""
    if a is None:
        return "None"
    if a.get("NoSender"):
        return "(Some (mkAddr [] 0 [] [] None))"
    return "(Some (mkAddr %s (%d) %s %s %s))" % (zl(unb(a["Host"])), a["Port"], zl(unb(a["Name"])), zl(unb(a["System"])), coq_addr(a.get("Parent")))


def coq_obs(p):
    if not p["OK"]:
        return "None"
    return "Some (%s, (%d), %s, %s, %s)" % (zl(unb(p["Host"])), p["Port"], zl(unb(p["Name"])), zl(unb(p["System"])),
                                            zl(unb(p["ParentName"])) if p["HasParent"] else "[]")


def expected_parent_name(a):
    p = a.get("Parent")
    if not p:
        return b""
    if p.get("NoSender") or (unb(p["Name"]) == b"" and unb(p["System"]) == b"" and unb(p["Host"]) == b"" and p["Port"] == 0):
        return b""
    return unb(p["Name"])


def run(ctx):
    ctx.trusted += ["the hand-written model C26/Model.v (compared with the implementation on every generated address and string, every run)",
                    "regexp, net.SplitHostPort/JoinHostPort, strings.TrimSpace, strconv.ParseInt/AppendInt as modelled (differentially tested through Validate/Parse/String)"]
    ctx.assumptions += ["address made by New/NewWithParent (valid UUID incarnation id; the id is not part of the text form); the NoSender() sentinel object itself has an empty String() and is no actor address",
                        "host free of '/' and '@' (every host name, IPv4 and IPv6 literal is; Validate also accepts hosts such as \"a/b\", which are no host names and do not round-trip)",
                        "not the no-sender sentinel carrying a parent"]
    addrs = corpus_addrs() + [gen_addr(ctx) for _ in range(1500 if ctx.thorough else 330)]
    in_path = os.path.join(ctx.work, "c26_in.jsonl")
    out_path = os.path.join(ctx.work, "c26_out.jsonl")

    def run_go(cases):
        with open(in_path, "w") as f:
            for c in cases:
                f.write(json.dumps(c) + "\n")
        if os.path.exists(out_path):
            os.remove(out_path)
        rc, out = ctx.go_test("internal/address", "^TestVerifC26", ["zz_verif_C26_test.go"])
        outs = read_jsonl(out_path)
        if rc != 0 or len(outs) != len(cases):
            ctx.tie_broken("go-harness internal/address", out)
            return []
        return outs

    acases = [{"Kind": "addr", "A": a} for a in addrs]
    aouts = run_go(acases)
    valid_strings = [unb(o["Str"]) for o in aouts if o["Valid"]] or [b"goakt://s@h:1/n"]
    strs = gen_strings(ctx, valid_strings)
    scases = [{"Kind": "str", "S": b64(s)} for s in strs]
    souts = run_go(scases) if aouts else []

    nviol = [0]

    def viol(sig, what, replay):
        if nviol[0] < 6:
            ctx.violation(sig, what, replay)
        nviol[0] += 1

    # ------------------------------------------------------------ oracle
    stats = {"addresses": len(aouts), "validate_accepts": 0, "in_domain": 0, "ipv6_or_colon_host_in_domain": 0, "with_parent_in_domain": 0,
             "odd_host_accepted_outside_domain": 0, "strings": len(souts), "strings_parse_ok": 0}
    nontrivial = set()
    for a, o in zip(addrs, aouts):
        if o["Parsed"].get("Panic") or o.get("HPOfPanic"):
            viol("address.Parse:panic", "Parse/HostPortOf panicked on %r: %s" % (unb(o["Str"]), o["Parsed"].get("Panic") or o.get("HPOfPanic")), {"string_b64": o["Str"]})
            continue
        if not o["Valid"]:
            continue
        stats["validate_accepts"] += 1
        host, name, system, port = unb(a["Host"]), unb(a["Name"]), unb(a["System"]), a["Port"]
        if a.get("NoSender"):
            host = name = system = b""
            port = 0
        zero = name == b"" and system == b"" and host == b"" and port == 0
        pname = expected_parent_name(a)
        if b"/" in host or b"@" in host:
            stats["odd_host_accepted_outside_domain"] += 1
            continue
        if zero and pname != b"":
            continue
        stats["in_domain"] += 1
        colon = b":" in host
        stats["ipv6_or_colon_host_in_domain"] += 1 if colon else 0
        stats["with_parent_in_domain"] += 1 if pname else 0
        nontrivial.add(canon_hash((a["Host"], a["Name"], a["System"], port, b64(pname))))
        p = o["Parsed"]
        text = unb(o["Str"]).decode("utf8", "replace")
        rep = {"function": "address.Parse(address.New(name, system, host, port).String())", "name": name.decode("utf8", "replace"), "system": system.decode("utf8", "replace"),
               "host": host.decode("utf8", "replace"), "port": port, "parent_name": pname.decode("utf8", "replace"), "string": text, "parse_result": p}
        sig_class = "ipv6-host" if colon else "roundtrip"
        if not p["OK"]:
            viol("address.Parse(String()):%s" % sig_class, "Validate accepts the address but Parse(%r) fails: %s" % (text, p.get("Err")), rep)
            continue
        got = (unb(p["Name"]), unb(p["System"]), unb(p["Host"]), p["Port"], unb(p["ParentName"]) if p["HasParent"] else b"")
        if got != (name, system, host, port, pname):
            viol("address.Parse(String()):%s" % sig_class, "Parse(%r) = name %r system %r host %r port %d parent %r, want %r %r %r %d %r" % ((text,) + got + (name, system, host, port, pname)), rep)
            continue
        if p["HasParent"] and (unb(p["ParentSystem"]), unb(p["ParentHost"]), p["ParentPort"]) != (system, host, port):
            viol("address.Parse(String()):parent-fields", "Parse(%r): the restored parent has another system/host/port than its child" % text, rep)
            continue
        want_hp = host + b":" + str(port).encode()
        if not o["HPOfOK"] or unb(o["HPOf"]) != want_hp or unb(o["HostPort"]) != want_hp or unb(o["FormatHP"]) != want_hp:
            viol("address.HostPortOf(String())", "HostPortOf(%r) = %r (ok=%s), HostPort() = %r, want %r" % (text, unb(o["HPOf"]), o["HPOfOK"], unb(o["HostPort"]), want_hp), rep)
    for s, o in zip(strs, souts):
        if o["Parsed"].get("Panic") or o.get("HPOfPanic"):
            viol("address.Parse:panic", "Parse/HostPortOf panicked on %r: %s" % (s, o["Parsed"].get("Panic") or o.get("HPOfPanic")), {"string_b64": o["Str"], "string": s.decode("utf8", "replace")})
        elif o["Parsed"]["OK"]:
            stats["strings_parse_ok"] += 1
            nontrivial.add(canon_hash(("s", o["Str"])))

    # ------------------------------------------------------------ model vs implementation
    ok_gen, gen_out = ctx.coq_build(["theories/C26/Model.vo"])
    mism = None
    if not ok_gen:
        ctx.tie_broken("C26/Model.v does not compile", gen_out)
    elif aouts:
        aterms = []
        coq_max = 9000 if ctx.thorough else 800  # bytes; longer cases are checked by the oracle on the real code only
        for a, o in zip(addrs, aouts):
            if o["Parsed"].get("Panic") or o.get("HPOfPanic"):
                continue
            if len(unb(o["Str"])) > coq_max:
                continue
            ca = coq_addr(a)[len("(Some "):-1]
            aterms.append("(%s, %s, %s, %s, %s)" % (ca, zl(unb(o["Str"])), "true" if o["Valid"] else "false", coq_obs(o["Parsed"]),
                                                    "Some " + zl(unb(o["HPOf"])) if o["HPOfOK"] else "None"))
        sterms = []
        for s, o in zip(strs, souts):
            if o["Parsed"].get("Panic") or o.get("HPOfPanic"):
                continue
            if len(s) > coq_max:
                continue  # very long inputs stay in the no-panic stream only (cost; a 64 KiB list literal overflows coqc's stack)
            sterms.append("(%s, %s, %s)" % (zl(s), coq_obs(o["Parsed"]), "Some " + zl(unb(o["HPOf"])) if o["HPOfOK"] else "None"))
        body = """From Coq Require Import ZArith List Bool. Import ListNotations.
From GV Require Import C26.Model.
Open Scope Z_scope.
Definition obs := option (str * Z * str * str * str).
Definition obs_of (r : option addr) : obs :=
  match r with None => None | Some a => Some (a_host a, a_port a, a_name a, a_system a, parent_name a) end.
Definition obs_eq (x y : obs) : bool :=
  match x, y with
  | None, None => true
  | Some (h, p, n, s, pn), Some (h', p', n', s', pn') => str_eqb h h' && (p =? p') && str_eqb n n' && str_eqb s s' && str_eqb pn pn'
  | _, _ => false
  end.
Definition ostr_eq (x y : option str) : bool :=
  match x, y with None, None => true | Some a, Some b => str_eqb a b | _, _ => false end.
Definition acases : list (addr * str * bool * obs * option str) := [%s].
Definition scases : list (str * obs * option str) := [%s].
Definition a_build_bad := filter (fun c => match c with (a, s, v, o, hp) => negb (str_eqb (build a) s) end) acases.
Definition a_valid_bad := filter (fun c => match c with (a, s, v, o, hp) => negb (Bool.eqb (validate a) v) end) acases.
Definition a_parse_bad := filter (fun c => match c with (a, s, v, o, hp) => negb (obs_eq (obs_of (parse s)) o) end) acases.
Definition a_hp_bad := filter (fun c => match c with (a, s, v, o, hp) => negb (ostr_eq (host_port_of s) hp) end) acases.
Definition s_parse_bad := filter (fun c => match c with (s, o, hp) => negb (obs_eq (obs_of (parse s)) o) end) scases.
Definition s_hp_bad := filter (fun c => match c with (s, o, hp) => negb (ostr_eq (host_port_of s) hp) end) scases.
Definition summary := (length acases, length a_build_bad, length a_valid_bad, length a_parse_bad, length a_hp_bad,
   length scases, length s_parse_bad, length s_hp_bad,
   map (fun c => match c with (a, s, v, o, hp) => s end) (firstn 1 (a_valid_bad ++ a_parse_bad ++ a_build_bad ++ a_hp_bad)),
   map (fun c => match c with (s, o, hp) => s end) (firstn 1 (s_parse_bad ++ s_hp_bad))).
Eval vm_compute in summary.
""" % (";\n ".join(aterms), ";\n ".join(sterms))
        rc2, o2 = ctx.coq_eval("cases_C26", body)
        flat = " ".join(o2.split())
        m_ = re.search(r"= \(" + r", ".join([r"(\d+)%nat"] * 8) + r", (\[.*?\]), (\[.*\])\)", flat)
        if rc2 != 0 or not m_:
            ctx.tie_broken("model-vs-implementation (cases_C26.v did not evaluate)", o2)
        else:
            g = [int(m_.group(i)) for i in range(1, 9)]
            mism = {"addresses": g[0], "String_mismatch": g[1], "Validate_mismatch": g[2], "Parse(String())_mismatch": g[3], "HostPortOf(String())_mismatch": g[4],
                    "strings": g[5], "Parse_mismatch": g[6], "HostPortOf_mismatch": g[7]}

            def as_text(lst):
                nums = re.findall(r"-?\d+", lst)
                return bytes(int(x) % 256 for x in nums).decode("utf8", "replace")
            if any(g[i] for i in (1, 2, 3, 4, 6, 7)):
                ctx.tie_broken("address model (C26/Model.v) vs internal/address", dict(mism, first_address_string=as_text(m_.group(9)), first_string=as_text(m_.group(10))))

    # ------------------------------------------------------------ theorems
    if not ctx.coq_property():
        if not any(f.kind == "violation" for f in ctx.findings):
            ctx.proof_broken("Properties/C26.v (%s)" % getattr(ctx, "failed_at", "?"), getattr(ctx, "coq_log", ""))
        else:
            ctx.notes.append("Coq obligation broken at %s; concrete failing input reported" % getattr(ctx, "failed_at", "?"))

    def show(a, o):
        return {"name": unb(a["Name"]).decode("utf8", "replace"), "system": unb(a["System"]).decode("utf8", "replace"), "host": unb(a["Host"]).decode("utf8", "replace"),
                "port": a["Port"], "has_parent": bool(a.get("Parent")), "string": unb(o["Str"]).decode("utf8", "replace"), "validate_ok": o["Valid"], "parse_ok": o["Parsed"]["OK"]}
    ctx.coverage.update({
        "evaluations": len(aouts) + len(souts),
        "distinct_nontrivial": len(nontrivial),
        "rule": "addresses: maximal-length components (255-byte name under a 255-byte parent, systems of 200..4000 bytes, host names / hex-group hosts of 253..1500 bytes; strings up to 64 KiB in the no-panic stream); names from the pattern grammar (1..24, 255, 256 bytes; 15% padded with ASCII/Unicode white space; 4% malformed), systems likewise, hosts: 35% fixed host-name/IPv4/IPv6(+zone) list, "
                "random host names, random IPv6 groups with '::' and zones, random IPv4, 28% odd hosts (brackets, white space, '/', '@', invalid UTF-8); ports 0..65535 and out of range; 45% with a parent (fitting, case-swapped system, "
                "conflicting, same name), 5% NoSender parent, grandparents; strings: fixed malformed table, 1-3 byte mutations of accepted strings, random byte strings. "
                "non-trivial = accepted by the real Validate and inside the theorem's domain (distinct by fields) or a string Parse accepts (distinct by bytes)",
        "samples": [show(a, o) for a, o in list(zip(addrs, aouts))[:3] + list(zip(addrs, aouts))[20:23]] + [s.decode("utf8", "replace") for s in strs[60:64]],
        "stats": stats, "model_vs_impl": mism,
        "longest_accepted_address_string_bytes": max([len(unb(o["Str"])) for o in aouts if o["Valid"]] or [0]),
        "accepted_address_strings_over_512_bytes": sum(1 for o in aouts if o["Valid"] and len(unb(o["Str"])) > 512),
        "longest_string_parsed_bytes": max([len(x) for x in strs] or [0]),
        "theorems": ["C26_parse_restores_address", "C26_parse_restores_address_general", "C26_hostport_extracted", "C26_host_classes",
                     "C26_string_identifies_address", "C26_parse_slices_in_bounds", "C26_ipv6_witness"],
    })


META = {
    "ready": True,
    "category": "proof",
    "technique": "Rocq proof over a hand model of String/Parse/HostPortOf/Validate on byte lists + differential conformance on generated addresses and strings",
    "text": "Seven theorems: for EVERY address accepted by Validate (modelled exactly, incl. JoinHostPort/TrimSpace/SplitHostPort and the name pattern) whose host has no '/' or '@' (all host names, IPv4, IPv6 literals) Parse(String a) restores name, system, host, port and the parent name; HostPortOf(String a) = host:port; the string identifies the address; Parse's slicing is in bounds for all strings; IPv6 witness (the former first-':' split is refuted in Coq). The model is for Parse splitting at the last ':' (fixes/C26-ipv6.diff, in /repo as d405ae0). Real New/NewWithParent/String/Validate/Parse/HostPortOf run on generated addresses (pattern-grammar names, host names, IPv4, IPv6 with zones, odd hosts, parents) and on arbitrary/mutated strings and are compared field by field with the Coq model by vm_compute, plus an independent round-trip/no-panic oracle.",
    "design_ref": "DESIGN.md 7/C26",
    "level_note": "Trusted: Coq kernel; the hand model (differentially tested every run); Go's regexp/net/strings/strconv as modelled. A tree without the last-':' split reports the IPv6 round-trip violation with a concrete address.",
}
