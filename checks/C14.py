"""C14 — behaviour switching follows stack semantics.

Proof:  Properties/C14.v over C14/Model.v (behaviorStack = top chain + uint64 length; setBehavior = Reset;Push,
        resetBehavior = Reset;Push default, setBehaviorStacked = Push, unsetBehaviorStacked = Pop; handleReceived
        peeks once and then calls the behaviour).
Tie:    generated switch sequences on REAL actors in a real ActorSystem (zz_verif_C14_test.go); per message the
        behaviour that handled it, after every switch call Peek identity and Len(); compared with the Coq model
        itself (run_obs evaluated by vm_compute on the same cases).
Oracle: the property's stack written directly in Python from the statement (independent of the model):
        handler per message, one handler per message (begin/end under the same behaviour), Peek/Len per step.
"""
import json
import os
import re

from vlib import read_jsonl, canon_hash

OPS = {"B": "Become", "S": "BecomeStacked", "P": "UnBecomeStacked", "U": "UnBecome"}


# ----------------------------------------------------------------------------- generation
def gen_script(rng, depth_hint, malformed, maxops):
    """returns (ops, new depth hint). depth_hint is only a generator heuristic that keeps most
    sequences away from the (absorbing) empty stack; it is not used to judge anything."""
    ops = []
    n = rng.choice([0, 1, 1, 1, 2, 2, 3, maxops])
    for _ in range(n):
        r = rng.random()
        if malformed:
            k = rng.choice("BSPU")
        elif r < 0.38:
            k = "S"
        elif r < 0.66:
            k = "P" if (depth_hint > 1 or rng.random() < 0.06) else "S"
        elif r < 0.82:
            k = "U"
        else:
            k = "B"
        b = rng.randint(1, 5) if k in "BS" else 0
        ops.append({"k": k, "b": b})
        if k == "S":
            depth_hint += 1
        elif k == "P":
            depth_hint = max(0, depth_hint - 1)
        else:
            depth_hint = 1
    return ops, depth_hint


def gen_cases(ctx):
    rng = ctx.rng
    cases = []
    corpus = json.load(open(os.path.join("corpus", "C14", "cases.json")))
    for c in corpus:
        cases.append({"mode": c["mode"], "msgs": c["msgs"], "origin": "corpus"})
    n_rand = 1000 if ctx.thorough else 260
    for i in range(n_rand):
        malformed = rng.random() < 0.15
        nmsg = rng.choice([1, 2, 3, 4, 5, 6, 8, 10, 14])
        depth = 1
        msgs = []
        for _ in range(nmsg):
            s, depth = gen_script(rng, depth, malformed, 5)
            msgs.append(s)
        # drain suffix: pop one behaviour per message until nothing is left -> exposes the whole stack
        if rng.random() < 0.45:
            msgs += [[{"k": "P", "b": 0}] for _ in range(min(depth + 2, 12))]
        cases.append({"mode": rng.choice(["seq", "batch"]), "msgs": msgs, "origin": "malformed" if malformed else "structured"})
    # long histories: deep stacks, then UnBecome / Become in the middle, then drain
    for depth in ([40, 200] if not ctx.thorough else [40, 200, 1000]):
        msgs = [[{"k": "S", "b": 1 + (j % 5)}] for j in range(depth)]
        msgs += [[{"k": "P", "b": 0}] for _ in range(depth // 2)]
        msgs += [[{"k": rng.choice("UB"), "b": 3}], [{"k": "S", "b": 2}], [{"k": "P", "b": 0}], [], [{"k": "P", "b": 0}], []]
        cases.append({"mode": "batch", "msgs": msgs, "origin": "long"})
    for i, c in enumerate(cases):
        c["id"] = i
    return cases


# ----------------------------------------------------------------------------- property oracle
def oracle(case, out):
    """the property's own stack, straight from the statement. returns None or (signature, text, detail)"""
    S = [0]
    ev_by_msg = {}
    for e in out["events"]:
        ev_by_msg.setdefault(e["m"], []).append(e)
    for i, ops in enumerate(case["msgs"]):
        evs = ev_by_msg.get(i, [])
        want = S[0] if S else None
        begins = [e for e in evs if e["p"] == "b"]
        ends = [e for e in evs if e["p"] == "e"]
        if want is None:
            if evs:
                return ("behavior:handled-without-behavior", "message %d was handled by behaviour %d although the stack model has no behaviour left" % (i, evs[0]["h"]), {"message": i})
            continue
        if len(begins) != 1 or len(ends) != 1:
            return ("behavior:handler-count", "message %d: expected exactly one handler run (behaviour %d), saw %d begin / %d end" % (i, want, len(begins), len(ends)), {"message": i})
        if {e["h"] for e in evs} != {begins[0]["h"]}:
            return ("behavior:handler-changed-mid-message", "message %d started under behaviour %d but part of it ran under %s" % (i, begins[0]["h"], sorted({e["h"] for e in evs})), {"message": i})
        if begins[0]["h"] != want:
            return ("behavior:wrong-handler", "message %d handled by behaviour %d, the stack model predicts %d" % (i, begins[0]["h"], want), {"message": i, "got": begins[0]["h"], "want": want})
        steps = [e for e in evs if e["p"] == "o"]
        if len(steps) != len(ops):
            return ("behavior:handler-count", "message %d: %d switch calls recorded, %d scripted" % (i, len(steps), len(ops)), {"message": i})
        for op in ops:
            if op["k"] == "B":
                S = [op["b"]]
            elif op["k"] == "S":
                S = [op["b"]] + S
            elif op["k"] == "P":
                S = S[1:]
            else:
                S = [0]
    # Peek()/Len() after each call are internal state: compared with the Coq model (tie), not judged here
    return None


# ----------------------------------------------------------------------------- Coq encoding
def coq_op(o):
    if o["k"] == "B":
        return "Become %d" % o["b"]
    if o["k"] == "S":
        return "BecomeStacked %d" % o["b"]
    return OPS[o["k"]]


def coq_opt(n):
    return "None" if n is None or n < 0 else "Some %d" % n


def observed_obs(case, out):
    """what run_obs should produce: per message (handler, [(peek,len) after each switch])"""
    ev_by_msg = {}
    for e in out["events"]:
        ev_by_msg.setdefault(e["m"], []).append(e)
    res = []
    for i, _ in enumerate(case["msgs"]):
        evs = ev_by_msg.get(i, [])
        b = [e for e in evs if e["p"] == "b"]
        h = b[0]["h"] if b else None
        res.append((h, [(e["pk"], e["l"]) for e in evs if e["p"] == "o"]))
    return res


def coq_cases(cases, outs):
    items = []
    for c, o in zip(cases, outs):
        msgs = "[" + "; ".join("[" + "; ".join(coq_op(x) for x in m) + "]" for m in c["msgs"]) + "]"
        obs = "[" + "; ".join("(%s, [%s])" % (coq_opt(h), "; ".join("(%s, %d%%Z)" % (coq_opt(pk), ln) for pk, ln in steps))
                              for h, steps in observed_obs(c, o)) + "]"
        items.append("(%d, %s, %s, (%s, %d%%Z))" % (c["id"], msgs, obs, coq_opt(o["final_peek"]), o["final_len"]))
    return """From Coq Require Import List ZArith Bool Arith. Import ListNotations.
From GV Require Import C14.Model.
Open Scope nat_scope.
Definition onat_eqb (a b : option nat) : bool :=
  match a, b with Some x, Some y => Nat.eqb x y | None, None => true | _, _ => false end.
Definition obs_eqb (a b : obs) : bool := onat_eqb (fst a) (fst b) && Z.eqb (snd a) (snd b).
Fixpoint list_eqb {A} (eq : A -> A -> bool) (x y : list A) : bool :=
  match x, y with [] , [] => true | a :: x', b :: y' => eq a b && list_eqb eq x' y' | _, _ => false end.
Definition msg_eqb (a b : option nat * list obs) : bool := onat_eqb (fst a) (fst b) && list_eqb obs_eqb (snd a) (snd b).
Definition cases : list (nat * list (list op) * list (option nat * list obs) * obs) := [
%s
].
Definition agrees (c : nat * list (list op) * list (option nat * list obs) * obs) : bool :=
  match c with (_, msgs, seen, fin) =>
    list_eqb msg_eqb (run_obs init msgs) seen && obs_eqb (observe (final init msgs)) fin end.
Definition bad := filter (fun c => negb (agrees c)) cases.
Definition summary := (length cases, length bad, map (fun c => match c with (i, _, _, _) => i end) (firstn 5 bad)).
Eval vm_compute in summary.
""" % ";\n".join(items)


def run(ctx):
    ctx.trusted += ["Go harness zz_verif_C14_test.go (identifies a Behavior by calling it with a probe message)",
                    "the generated cases.v encoding of the recorded runs"]
    ctx.assumptions += ["behaviour switches are made from inside message handlers (the actor's own turn), as the property states",
                        "stack depth < 2^64 for Len() to equal the depth exactly"]
    cases = gen_cases(ctx)
    with open(os.path.join(ctx.work, "c14_in.jsonl"), "w") as f:
        for c in cases:
            f.write(json.dumps({"id": c["id"], "mode": c["mode"], "msgs": c["msgs"]}) + "\n")
    outp = os.path.join(ctx.work, "c14_out.jsonl")
    if os.path.exists(outp):
        os.remove(outp)
    ctx.log("running %d cases on real actors" % len(cases))
    rc, out = ctx.go_test("actor", "^TestVerifC14", ["zz_verif_C14_test.go"], timeout=1800)
    ctx.log("go harness done rc=%d" % rc)
    outs = read_jsonl(outp)
    if rc != 0 or len(outs) != len(cases):
        ctx.tie_broken("go-harness actor behaviours (TestVerifC14)", out)
        outs = outs if len(outs) == len(cases) else []
    by_id = {o["id"]: o for o in outs}
    outs = [by_id.get(c["id"]) for c in cases] if outs else []

    # ---- property oracle on the implementation runs
    n_bad = 0
    for c, o in zip(cases, outs):
        if o is not None and o.get("skipped"):
            continue
        if o is not None and o.get("hung"):
            if n_bad < 3:
                n_bad += 1
                calls = "; ".join("[" + ", ".join(OPS[x["k"]] + ("(%d)" % x["b"] if x["k"] in "BS" else "") for x in m) + "]" for m in c["msgs"][:12])
                ctx.violation("behavior:actor-never-idle", "switch calls per message %s: after message %d the actor did not become idle (a handler never returned or messages keep being re-run)" % (calls, o.get("hung_msg", -1)),
                              {"driver": "go/inpkg/actor/zz_verif_C14_test.go TestVerifC14Behaviors", "case": c, "observed": o})
            continue
        if o is None or o.get("err"):
            ctx.tie_broken("go-harness case did not complete", {"case": c, "err": (o or {}).get("err")})
            continue
        v = oracle(c, o)
        if v and n_bad < 3:
            n_bad += 1
            sig, text, detail = v
            calls = "; ".join("[" + ", ".join(OPS[x["k"]] + ("(%d)" % x["b"] if x["k"] in "BS" else "") for x in m) + "]" for m in c["msgs"][:12])
            ctx.violation(sig, "switch calls per message %s%s: %s" % (calls, " ..." if len(c["msgs"]) > 12 else "", text),
                          {"driver": "go/inpkg/actor/zz_verif_C14_test.go TestVerifC14Behaviors", "case": c, "observed": o, "detail": detail})
        elif v:
            n_bad += 1

    # ---- the Coq model on the same cases
    mism = None
    good = [(c, o) for c, o in zip(cases, outs) if o is not None and not o.get("err") and not o.get("hung") and not o.get("skipped")]
    ok_m, out_m = ctx.coq_build(["theories/C14/Model.vo"])
    if not ok_m:
        ctx.tie_broken("C14/Model.v does not compile", out_m)
    elif good:
        rc2, o2 = ctx.coq_eval("cases_C14", coq_cases([c for c, _ in good], [o for _, o in good]))
        flat = " ".join(o2.split())
        m_ = re.search(r"= \((\d+)(?:%nat)?, (\d+)(?:%nat)?, (\[.*?\])\)", flat)
        if rc2 != 0 or not m_:
            ctx.tie_broken("model-vs-implementation (cases.v did not evaluate)", o2)
        else:
            mism = int(m_.group(2))
            if mism:
                ids = [int(x) for x in re.findall(r"\d+", m_.group(3))]
                first = next((c for c in cases if c["id"] in ids), None)
                ctx.tie_broken("model-vs-implementation C14/Model.v run_obs vs real actors",
                               {"mismatching_cases": mism, "first_ids": ids, "first_case": first, "observed": by_id.get(first["id"]) if first else None})

    ctx.log("model comparison done, mismatches=%s" % mism)
    # ---- the theorems
    if not ctx.coq_property():
        if not any(f.kind == "violation" for f in ctx.findings):
            ctx.proof_broken("Properties/C14.v (%s)" % getattr(ctx, "failed_at", "?"), getattr(ctx, "coq_log", ""))
        else:
            ctx.notes.append("Coq obligation broken at %s; concrete failing input reported" % getattr(ctx, "failed_at", "?"))

    # ---- coverage
    hist = {k: 0 for k in OPS.values()}
    nontriv = set()
    unhandled = 0
    maxdepth = 0
    for c, o in good:
        kinds = [x["k"] for m in c["msgs"] for x in m]
        for k in kinds:
            hist[OPS[k]] += 1
        maxdepth = max([maxdepth] + [e["l"] for e in o["events"]])
        handled = {e["m"] for e in o["events"]}
        unhandled += len(c["msgs"]) - len(handled)
        s = "".join(kinds)
        if len(kinds) >= 3 and "S" in s and re.search(r"S.*[UB]", s):
            nontriv.add(canon_hash(c["msgs"]))
    ctx.coverage.update({
        "evaluations": sum(len(c["msgs"]) for c, _ in good),
        "cases": len(good),
        "distinct_nontrivial": len(nontriv),
        "rule": "a case = one fresh real actor + a sequence of messages, each scripting 0..5 switch calls; non-trivial = at least 3 switch calls with a BecomeStacked later followed by UnBecome or Become; distinct by the call sequence",
        "op_histogram": hist, "messages_left_unhandled_(empty_stack)": unhandled, "max_stack_depth": maxdepth,
        "modes": {m: sum(1 for c, _ in good if c["mode"] == m) for m in ("seq", "batch")},
        "origins": {k: sum(1 for c, _ in good if c["origin"] == k) for k in ("corpus", "structured", "malformed", "long")},
        "model_vs_implementation_mismatches": mism,
        "samples": [{"msgs": c["msgs"][:6], "handlers": [h for h, _ in observed_obs(c, o)][:6]} for c, o in good[:2] + good[20:22]],
        "theorems": ["C14_refines", "C14_refines_any_state", "C14_current_message_keeps_its_handler", "C14_unbecome_clears",
                     "C14_become_replaces_all", "C14_push_pop_inverse", "C14_len_exact", "C14_unhandled_iff_empty",
                     "C14_empty_absorbing", "C14_guarded_always_handled", "C14_doc_no_effect_refuted", "C14_unrepaired_code_refuted"],
    })
    ctx.notes.append("UnBecomeStacked on a one-element stack empties it and later messages are not handled (observed on real actors, "
                     "corpus case 'UnBecomeStacked on the only behaviour'); this agrees with the property's stack (pop) and is reported "
                     "only as a discrepancy with the doc comment 'No effect if there is no stack' (C14_doc_no_effect_refuted), not as a violation.")


META = {
    "ready": True,
    "category": "proof",
    "technique": "Rocq refinement proof (code stack = property stack for all switch sequences) + differential run of the Coq model against real actors",
    "text": "The behaviour stack is modelled as coded (Treiber stack content + uint64 length; Reset/Push/Pop/Peek; handler read once before the call). Proved for all message sequences and all switch scripts: handler per message equals the property's stack; UnBecome/Become forget all history; push/pop inverse; Len exact; unhandled iff empty. Real actors in a real ActorSystem run generated scripts; handler identity per message and Peek/Len after every call are compared with the Coq model (vm_compute) and with the property's stack.",
    "design_ref": "DESIGN.md 7/C14",
    "level_note": "Trusted: Coq kernel, the harness' identification of behaviours, Go compiler. Concurrent switching from outside the actor's turn is outside the property (switches are made while handling messages).",
}
