"""C10 — each watcher receives exactly one Terminated for a watched actor.

Proof:  Properties/C10.v over C10/Model.v: the tree's watcher maps as coded (pid_tree.go) and freeWatchers (pid.go) as
        snapshot + per-watcher {IsRunning check, Tell, UnWatch} atomic steps, interleaved arbitrarily with
        Watch/UnWatch/spawn/deleteNode/start/stop steps of any actors. at_most_one, none_after_completed_unwatch,
        exactly_one (registered before the snapshot and running), by an inductive invariant.
Tie:    (1) TestVerifC10Seq: generated Watch/UnWatch/Shutdown/PoisonPill/parent-stop/Restart/SpawnChild sequences on
        REAL actors; after every operation: running, tree watchers/watchees, Terminated received per actor — compared
        with the Coq model's macro-steps (stop_seq etc., built from the very steps the theorems quantify over);
        (2) TestVerifC10Tree: the tree's watcher operations on a real tree with real PIDs vs the model;
        (3) TestVerifC10Race: real goroutines racing Watch/UnWatch against the stop;
        (4) TestVerifC10Busy: slow watchers (parked inside Receive) with a backlog in default / segmented / full
            non-blocking bounded mailboxes while the watched actor stops.
        Sequences include supervisor-driven restarts (panic -> suspended -> parent's RestartDirective -> re-attach)
        and Restart of suspended actors, followed by Watch/UnWatch by the parent.
Oracle: the statement applied by bookkeeping of "who watches whom by the user's calls": on every termination each
        running watcher that did not unwatch gets exactly one new Terminated, everybody else none.
"""
import json
import os
import re

from vlib import read_jsonl, canon_hash

GUARD, DW = 0, 1


# ----------------------------------------------------------------------------- generation
def gen_seq_case(rng, malformed):
    n = rng.choice([3, 3, 4, 5])
    running = set(range(n))
    suspended = set()
    nopass = set()         # failed/suspended-and-restarted actors keep their passivation paused: not passivated here
    parent = {}            # child -> parent
    has_child = set()
    nxt = n
    ops = []
    for _ in range(rng.choice([5, 8, 12, 18, 26])):
        r = rng.random()
        alive = sorted(running)
        active = sorted(running - suspended)
        every = list(range(nxt))
        if malformed and r < 0.5:
            k = rng.choice(["watch", "unwatch", "stop", "poison", "passivate"])
            if k in ("watch", "unwatch"):
                w, a = rng.choice(every), rng.choice(every)
                if w != a and related_ok(w, a, parent):
                    ops.append({"op": k, "w": w, "a": a})
            else:
                a = rng.choice(every)
                if a in suspended:
                    continue
                if k == "passivate" and (a in parent or a not in running or a in nopass):
                    k = "stop"      # only top-level actors carry a passivation strategy in the harness
                ops.append({"op": k, "a": a})
                stop_model(a, running, parent, has_child)
            continue
        if r < 0.38 and len(alive) >= 2:
            w, a = rng.sample(alive, 2)
            if related_ok(w, a, parent):
                ops.append({"op": "watch", "w": w, "a": a})
        elif r < 0.52 and len(alive) >= 2:
            w, a = rng.sample(alive, 2)
            ops.append({"op": "unwatch", "w": w, "a": a})
        elif r < 0.68 and active:
            a = rng.choice(active)
            ops.append({"op": rng.choice(["stop", "stop", "poison", "passivate"] if (a not in parent and a not in nopass) else ["stop", "poison"]), "a": a})
            stop_model(a, running, parent, has_child)
        elif r < 0.76:
            # PID.Restart of a leaf: running (top-level or child) or suspended (then it is not shut down first)
            cand = [a for a in alive if a not in has_child and (a not in parent or parent[a] in active)]
            if cand:
                a = rng.choice(cand)
                ops.append({"op": "restart", "a": a})
                if a in suspended:
                    nopass.add(a)
                suspended.discard(a)
        elif r < 0.82:
            # the actor panics: suspended by the runtime, restarted by its parent (RestartDirective)
            cand = [a for a in active if a not in has_child and (a not in parent or parent[a] in active)]
            if cand:
                a = rng.choice(cand)
                ops.append({"op": "crash", "a": a})
                nopass.add(a)
        elif r < 0.88 and active and nxt < n + 3:
            p = rng.choice(active)
            ops.append({"op": "spawnchild", "w": p, "a": nxt})
            parent[nxt] = p
            has_child.add(p)
            running.add(nxt)
            nxt += 1
        elif r < 0.95:
            if suspended and rng.random() < 0.5:
                a = rng.choice(sorted(suspended))
                ops.append({"op": "reinstate", "a": a})
                suspended.discard(a)
            else:
                cand = [a for a in active if a not in parent and a not in has_child]
                if cand:
                    a = rng.choice(cand)
                    ops.append({"op": "suspend", "a": a})
                    suspended.add(a)
        elif len(alive) >= 2:
            w, a = rng.sample(alive, 2)
            if related_ok(w, a, parent):
                ops.append({"op": "watch", "w": w, "a": a})
    # at the end reinstate and stop everything that still runs, one by one: every pending watch is resolved
    for a in sorted(suspended):
        ops.append({"op": "reinstate", "a": a})
    for a in sorted(running, reverse=rng.random() < 0.5):
        if a in running:
            ops.append({"op": "stop", "a": a})
            stop_model(a, running, parent, has_child)
    return {"n": n, "ops": ops}


def related_ok(w, a, parent):
    """children of one parent are stopped in parallel by the parent's shutdown: a watch between two actors of the
    same subtree that are not on one ancestor line has a schedule-dependent outcome there, so it is not generated"""
    def line(x):
        l = [x]
        while l[-1] in parent:
            l.append(parent[l[-1]])
        return l
    lw, la = line(w), line(a)
    if lw[-1] != la[-1]:
        return True
    return w in la or a in lw


def stop_model(a, running, parent, has_child):
    """generator bookkeeping only: which actors still run"""
    if a not in running:
        return
    running.discard(a)
    for c, p in list(parent.items()):
        if p == a:
            stop_model(c, running, parent, has_child)


def gen_tree_case(rng, malformed):
    k = rng.choice([4, 5, 6, 8])
    ops = [{"op": "addroot", "a": 0}]
    par = {0: None}
    ever = {0}      # an identity is registered at most once (a re-spawned actor is a new PID)
    for _ in range(rng.choice([6, 10, 16, 24])):
        r = rng.random()
        present = sorted(par)
        absent = [i for i in range(k) if i not in ever]
        if malformed and r < 0.4:
            o = rng.choice(["addnode", "watch", "unwatch", "delete", "rmdesc"])
            p, a = rng.randrange(k), rng.randrange(1, k)
            if o == "addnode" and (a in ever or p not in par or p == a):
                o = "watch"
            if o == "delete":
                drop(par, a)
            elif o == "addnode":
                par[a] = p
                ever.add(a)
            ops.append({"op": o, "p": p, "a": a})
            continue
        if r < 0.25 and absent and present:
            a, p = rng.choice(absent), rng.choice(present)
            ops.append({"op": "addnode", "p": p, "a": a})
            par[a] = p
            ever.add(a)
        elif r < 0.60 and len(present) >= 2:
            p, a = rng.sample(present, 2)
            ops.append({"op": "watch", "p": p, "a": a})
        elif r < 0.75 and len(present) >= 2:
            p, a = rng.sample(present, 2)
            ops.append({"op": "unwatch", "p": p, "a": a})
        elif r < 0.87 and len(present) >= 2:
            a = rng.choice(present[1:] if rng.random() < 0.9 else present)
            ops.append({"op": "delete", "p": 0, "a": a})
            drop(par, a)
        elif r < 0.93 and len(present) >= 2:
            a = rng.choice([x for x in present if par[x] is not None] or [None])
            if a is not None:
                ops.append({"op": "attach", "p": par[a], "a": a})   # re-attach under its own parent (restart)
        elif present and absent:
            a, p = rng.choice(absent), rng.choice(present)
            ops.append({"op": "attach", "p": p, "a": a})            # absent: behaves as addNode
            par[a] = p
            ever.add(a)
    return {"k": k, "ops": ops}


def drop(par, a):
    if a not in par:
        return
    for c in [c for c, p in par.items() if p == a]:
        drop(par, c)
    par.pop(a, None)


# ----------------------------------------------------------------------------- property oracle (sequences)
def oracle_seq(case, out):
    """bookkeeping of the user's calls only. returns list of (signature, text)"""
    n = case["n"]
    running = set(range(n))
    suspended = set()
    watching = {i: {} for i in range(n)}   # watcher -> {watchee: restarted_since (bool)}
    children = {}
    got = {i: [] for i in range(n)}        # Terminated seen so far
    steps = out["steps"]
    if len(steps) != len(case["ops"]) + 1:
        return []
    for k, op in enumerate(case["ops"]):
        st = steps[k + 1]["actors"]
        expect = {}                        # watcher -> list of names expected newly
        def terminate(a):
            if a not in running:
                return
            # from the moment its shutdown begins the actor is not running any more and it gives up all its own
            # watches (it unwatches everything first), then its children are stopped, then its watchers are told
            running.discard(a)
            watching[a] = {}
            for c in children.get(a, []):
                terminate(c)
            for w in sorted(running):
                if a in watching.get(w, {}):
                    if w not in suspended:       # "every watcher that is still running"
                        expect.setdefault(w, []).append((a, watching[w][a]))
                    del watching[w][a]
        kind = op["op"]
        if kind == "watch":
            w, a = op["w"], op["a"]
            if w in running and a in running:
                watching[w][a] = False
        elif kind == "unwatch":
            watching.get(op["w"], {}).pop(op["a"], None)
        elif kind in ("stop", "poison", "passivate"):
            a = op["a"]
            terminate(a)
            watching[a] = {}
        elif kind in ("restart", "crash"):
            a = op["a"]
            if a in running:
                if kind == "crash" or a in suspended:
                    # a suspended (failed) actor is re-initialised without being shut down: nobody is told, its own
                    # watches stay registered
                    suspended.discard(a)
                else:
                    mine = dict(watching.get(a, {}))
                    terminate(a)          # its watchers are told (the restart shuts the actor down first)
                    running.add(a)
                    # it never called UnWatch: by the statement it still watches what it watched
                    watching[a] = {x: True for x in mine}
                # re-attaching the actor under its parent re-establishes the parent's watch (a parent always
                # watches its children)
                for p_, cs in children.items():
                    if a in cs and p_ in running:
                        watching[p_][a] = False
        elif kind == "suspend":
            suspended.add(op["a"])
        elif kind == "reinstate":
            suspended.discard(op["a"])
        elif kind == "spawnchild":
            p, c = op["w"], op["a"]
            if p in running and not steps[k + 1].get("err"):
                running.add(c)
                watching[c] = {}
                got[c] = []
                children.setdefault(p, []).append(c)
                watching[p][c] = False    # a parent is a watcher of its child
        problems = []
        for i in sorted(st, key=int):
            i = int(i)
            new = st[str(i)]["term"][len(got.get(i, [])):]
            got[i] = list(st[str(i)]["term"])
            want = expect.get(i, [])
            want_names = sorted(str(a) for a, _ in want)
            if sorted(new) == want_names:
                continue
            for a, restarted in want:
                c = new.count(str(a))
                if c == 0:
                    if restarted:
                        problems.append(("watch:lost-after-watcher-restart",
                                         "actor %d called Watch(%d), was restarted, never called UnWatch; when %d terminated (op %d: %s) it received no Terminated" % (i, a, a, k, kind)))
                    else:
                        problems.append(("watch:missing-terminated",
                                         "actor %d watches %d (never unwatched) and runs; when %d terminated (op %d: %s) it received no Terminated" % (i, a, a, k, kind)))
                elif c > 1:
                    problems.append(("watch:duplicate-terminated", "actor %d received %d Terminated for %d at op %d (%s)" % (i, c, a, k, kind)))
            for x in set(new):
                if x not in want_names:
                    problems.append(("watch:unexpected-terminated", "actor %d received Terminated for %s at op %d (%s) although it does not watch it (never watched or unwatched before)" % (i, x, k, kind)))
        if problems:
            return problems
    return []


# ----------------------------------------------------------------------------- Coq encoding
def cid(i):
    return i + 2


def lab(x):
    return DW if x == "dw" else GUARD if x == "p" else cid(int(x))


def coq_list(xs):
    return "[" + "; ".join(str(x) for x in xs) + "]"


def coq_seq_cases(pairs):
    items = []
    for c, o, upto in pairs:
        ops = []
        for op in c["ops"][:upto]:
            k = op["op"]
            if k == "watch":
                ops.append("OWatch %d %d" % (cid(op["w"]), cid(op["a"])))
            elif k == "unwatch":
                ops.append("OUnWatch %d %d" % (cid(op["w"]), cid(op["a"])))
            elif k in ("stop", "poison", "passivate"):
                ops.append("OStop %d" % cid(op["a"]))
            elif k == "restart":
                ops.append("ORestart %d" % cid(op["a"]))
            elif k == "crash":
                ops.append("OCrash %d" % cid(op["a"]))
            elif k == "suspend":
                ops.append("OSuspend %d" % cid(op["a"]))
            elif k == "reinstate":
                ops.append("OReinstate %d" % cid(op["a"]))
            else:
                ops.append("OSpawnChild %d %d" % (cid(op["w"]), cid(op["a"])))
        obs = []
        for st in o["steps"][1:upto + 1]:
            row = []
            for i in sorted(st["actors"], key=int):
                a = st["actors"][i]
                row.append("(%d, %s, %s, %s, %s, %s)" % (cid(int(i)), "true" if a["run"] else "false", "true" if a["tree"] else "false",
                                                           coq_list(lab(x) for x in a["wrs"]), coq_list(lab(x) for x in a["wes"]),
                                                           coq_list(cid(int(x)) for x in a["term"])))
            obs.append("[" + "; ".join(row) + "]")
        items.append("(%d, %d, [%s], [%s])" % (c["id"], c["n"], "; ".join(ops), "; ".join(obs)))
    return items


def coq_tree_cases(pairs):
    items = []
    T = {"addroot": "TAddRoot %(a)d", "addnode": "TAddNode %(p)d %(a)d", "attach": "TAttach %(p)d %(a)d", "watch": "TWatch %(p)d %(a)d",
         "unwatch": "TUnWatch %(p)d %(a)d", "delete": "TDelete %(a)d", "rmdesc": "TRmDesc %(p)d %(a)d"}
    for c, o in pairs:
        ops = "; ".join(T[op["op"]] % {"p": op.get("p", 0), "a": op["a"]} for op in c["ops"])
        obs = []
        for st in o["steps"]:
            obs.append("[" + "; ".join("(%d, %s, %s, %s, %s, %s)" % (i, "true" if nd["in"] else "false",
                                                                      "None" if nd["par"] < 0 else "Some %d" % nd["par"],
                                                                      coq_list(nd["ch"]), coq_list(nd["wrs"]), coq_list(nd["wes"]))
                                        for i, nd in enumerate(st)) + "]")
        items.append("(%d, [%s], [%s])" % (c["id"], ops, "; ".join(obs)))
    return items


CASES_V = """From Coq Require Import List Bool Arith. Import ListNotations.
From GV Require Import C10.Model.
Open Scope nat_scope.
Fixpoint list_eqb {A} (eq : A -> A -> bool) (x y : list A) : bool :=
  match x, y with [] , [] => true | a :: x', b :: y' => eq a b && list_eqb eq x' y' | _, _ => false end.
(* siblings are stopped in parallel: the order in which their Terminated reach a common watcher is not fixed *)
Definition count (x : nat) (l : list nat) : nat := length (filter (Nat.eqb x) l).
Definition multiset_eqb (l1 l2 : list nat) : bool :=
  Nat.eqb (length l1) (length l2) && forallb (fun x => Nat.eqb (count x l1) (count x l2)) l1.
Definition onat_eqb (a b : option nat) : bool :=
  match a, b with Some x, Some y => Nat.eqb x y | None, None => true | _, _ => false end.

(* ---- sequences on real actors *)
Definition aobs : Type := (nat * bool * bool * list nat * list nat * list nat)%%type.
Definition aobs_ok (s : sys) (o : aobs) : bool :=
  match o with (i, run, intree, wrs, wes, term) =>
    Bool.eqb (is_running s i) run && Bool.eqb (has (tr s) i) intree
    && same_set (watchers_of (tr s) i) wrs && same_set (watchees_of (tr s) i) wes
    && multiset_eqb (terminated_for s i) term end.
Definition scase : Type := (nat * nat * list sop * list (list aobs))%%type.
Fixpoint states_ok (ss : list sys) (obs : list (list aobs)) : bool :=
  match ss, obs with
  | [], [] => true
  | s :: ss', o :: obs' => forallb (aobs_ok s) o && states_ok ss' obs'
  | _, _ => false
  end.
Definition scase_ok (c : scase) : bool :=
  match c with (_, n, ops, obs) => states_ok (sop_states (world0 n) ops) obs end.
Definition scases : list scase := [
%s
].
Definition sbad := filter (fun c => negb (scase_ok c)) scases.

(* ---- tree operations *)
Definition nobs : Type := (nat * bool * option nat * list nat * list nat * list nat)%%type.
Definition live (t : tree) (l : list nat) : list nat := filter (has t) l.
Definition nobs_ok (t : tree) (o : nobs) : bool :=
  match o with (i, present, par, ch, wrs, wes) =>
    Bool.eqb (has t i) present &&
    match lookup t i with
    | None => true
    | Some nd => onat_eqb (match parent nd with Some p => if has t p then Some p else None | None => None end) par
                 && same_set (live t (children nd)) ch && same_set (watchers nd) wrs && same_set (watchees nd) wes
    end end.
Definition tcase : Type := (nat * list top * list (list nobs))%%type.
Fixpoint trees_ok (ts : list tree) (obs : list (list nobs)) : bool :=
  match ts, obs with
  | [], [] => true
  | t :: ts', o :: obs' => forallb (nobs_ok t) o && trees_ok ts' obs'
  | _, _ => false
  end.
Definition tcase_ok (c : tcase) : bool := match c with (_, ops, obs) => trees_ok (top_states [] ops) obs end.
Definition tcases : list tcase := [
%s
].
Definition tbad := filter (fun c => negb (tcase_ok c)) tcases.

Definition summary :=
  (length scases, length sbad, map (fun c : scase => match c with (i, _, _, _) => i end) (firstn 5 sbad),
   length tcases, length tbad, map (fun c : tcase => match c with (i, _, _) => i end) (firstn 5 tbad)).
Eval vm_compute in summary.
"""


def fmt_ops(ops, limit=30):
    def f(op):
        k = op["op"]
        if k in ("watch", "unwatch"):
            return "%d.%s(%d)" % (op["w"], "Watch" if k == "watch" else "UnWatch", op["a"])
        if k == "spawnchild":
            return "%d.SpawnChild(%d)" % (op["w"], op["a"])
        return "%s(%d)" % ({"stop": "Shutdown", "poison": "PoisonPill", "passivate": "passivate", "restart": "Restart", "crash": "panic+supervisor-restart", "suspend": "suspend", "reinstate": "reinstate"}[k], op["a"])
    return "; ".join(f(o) for o in ops[:limit]) + (" ..." if len(ops) > limit else "")


def run(ctx):
    ctx.trusted += ["Go harness zz_verif_C10_test.go (waits for the actors and the death watch to go idle before observing)",
                    "the generated cases.v encoding of the recorded runs",
                    "C06: PostStop/freeWatchers run at most once per incarnation (assumed by the model's LSnapshot guard)"]
    ctx.assumptions += ["local watchers only (remote watchers are notified by fire-and-forget RemoteTell, not modelled)",
                        "a Watch that completes after the terminating actor took its watcher snapshot is outside 'exactly one' (stated explicitly, DESIGN 7/C10)",
                        "the watcher's mailbox accepts the Terminated: it travels on the watcher's unbounded system mailbox (exercised by TestVerifC10Busy with parked watchers and full bounded user mailboxes)"]
    rng = ctx.rng
    # ---- cases
    seq_cases = []
    corpus = json.load(open(os.path.join("corpus", "C10", "cases.json")))
    for c in corpus:
        seq_cases.append({"n": c["n"], "ops": c["ops"], "origin": "corpus"})
    for i in range(400 if ctx.thorough else 100):
        malformed = rng.random() < 0.15
        c = gen_seq_case(rng, malformed)
        c["origin"] = "malformed" if malformed else "structured"
        seq_cases.append(c)
    for i, c in enumerate(seq_cases):
        c["id"] = i
    tree_cases = []
    for i in range(800 if ctx.thorough else 150):
        malformed = rng.random() < 0.2
        c = gen_tree_case(rng, malformed)
        c["id"] = i
        c["origin"] = "malformed" if malformed else "structured"
        tree_cases.append(c)
    busy_cases = []
    for kind, caps in (("default", [0]), ("segmented", [0]), ("nbbounded", [2, 4, 8, 16])):
        for cap in caps:
            for fill in sorted({0, 1, max(1, cap // 2), cap, 3 * cap + 5} if cap else {0, 3, 40}):
                busy_cases.append({"kind": kind, "cap": cap, "fill": fill, "path": rng.choice(["shutdown", "poison", "passivate"])})
    if ctx.thorough:
        busy_cases = busy_cases * 4
    for i, c in enumerate(busy_cases):
        c["id"] = i
    with open(os.path.join(ctx.work, "c10_busy_in.jsonl"), "w") as f:
        for c in busy_cases:
            f.write(json.dumps(c) + "\n")
    with open(os.path.join(ctx.work, "c10_in.jsonl"), "w") as f:
        for c in seq_cases:
            f.write(json.dumps({"id": c["id"], "n": c["n"], "ops": c["ops"]}) + "\n")
    with open(os.path.join(ctx.work, "c10_tree_in.jsonl"), "w") as f:
        for c in tree_cases:
            f.write(json.dumps({"id": c["id"], "k": c["k"], "ops": c["ops"]}) + "\n")
    for fn in ("c10_out.jsonl", "c10_tree_out.jsonl", "c10_race_out.jsonl", "c10_busy_out.jsonl"):
        p = os.path.join(ctx.work, fn)
        if os.path.exists(p):
            os.remove(p)
    ctx.log("running %d sequences, %d tree cases and the race rounds on real actors" % (len(seq_cases), len(tree_cases)))
    rc, out = ctx.go_test("actor", "^TestVerifC10", ["zz_verif_C10_test.go"],
                          env={"VERIF_C10_ROUNDS": "1000" if ctx.thorough else "150"}, race=False, timeout=1800)
    ctx.log("go harness done rc=%d" % rc)
    souts = read_jsonl(os.path.join(ctx.work, "c10_out.jsonl"))
    touts = read_jsonl(os.path.join(ctx.work, "c10_tree_out.jsonl"))
    routs = read_jsonl(os.path.join(ctx.work, "c10_race_out.jsonl"))
    bouts = read_jsonl(os.path.join(ctx.work, "c10_busy_out.jsonl"))
    any_hung = any(o.get("hung") for o in souts) or any(r.get("err", "").startswith("hung") for r in routs) or any(b.get("hung") for b in bouts)
    if not any_hung and len(bouts) != len(busy_cases):
        ctx.tie_broken("go-harness busy-watcher cases incomplete (TestVerifC10Busy)", out)
    if (rc != 0 and not any_hung) or len(souts) != len(seq_cases) or len(touts) != len(tree_cases) or not routs:
        ctx.tie_broken("go-harness actor death watch (TestVerifC10*)", out)
    sby = {o["id"]: o for o in souts}
    tby = {o["id"]: o for o in touts}

    # ---- oracle on the sequences
    reported = {}
    n_skipped = 0
    restart_races = 0
    seq_pairs = []
    for c in seq_cases:
        o = sby.get(c["id"])
        if o is None:
            continue
        if o.get("skipped"):
            n_skipped += 1
            continue
        if o.get("hung"):
            k = o.get("hung_op", -1)
            if reported.get("hung", 0) < 2:
                reported["hung"] = reported.get("hung", 0) + 1
                ctx.violation("watch:operation-never-returns",
                              "operations %s: operation %d (%s): %s within %s ms; watchers of the actors involved can no longer be told" %
                              (fmt_ops(c["ops"][:k + 1]), k, fmt_ops([c["ops"][k]]) if 0 <= k < len(c["ops"]) else "?", o.get("hung_how", ""), os.environ.get("VERIF_C10_PATIENCE_MS", "10000")),
                              {"driver": "go/inpkg/actor/zz_verif_C10_test.go TestVerifC10Seq", "case": c, "observed": o})
            continue
        if o.get("err") or len(o["steps"]) != len(c["ops"]) + 1:
            ctx.tie_broken("go-harness sequence did not complete", {"case": c, "err": o.get("err")})
            continue
        # Restart re-adds the actor to the tree while the death watch may still be about to delete the old node;
        # when the deletion comes second the actor runs outside the tree (not C10's subject): compare up to there.
        upto = len(c["ops"])
        for k, op in enumerate(c["ops"]):
            if op["op"] == "restart":
                a = o["steps"][k + 1]["actors"].get(str(op["a"]))
                if a and a["run"] and not a["tree"]:
                    upto = k
                    restart_races += 1
                    break
        cc = dict(c, ops=c["ops"][:upto])
        oo = dict(o, steps=o["steps"][:upto + 1])
        seq_pairs.append((c, o, upto))
        for sig, text in oracle_seq(cc, oo):
            if reported.get(sig, 0) < 2:
                reported[sig] = reported.get(sig, 0) + 1
                ctx.violation(sig, "operations %s: %s" % (fmt_ops(cc["ops"]), text),
                              {"driver": "go/inpkg/actor/zz_verif_C10_test.go TestVerifC10Seq", "case": cc, "observed": oo})

    if n_skipped:
        ctx.notes.append("%d sequence cases were not run because an earlier case hung and was abandoned" % n_skipped)
    # ---- oracle on the races
    race_hist = {}
    for r in routs:
        if r.get("err", "").startswith("hung"):
            ctx.violation("watch:operation-never-returns", "concurrent run, stop path %s: %s" % (r["path"], r["err"]),
                          {"driver": "go/inpkg/actor/zz_verif_C10_test.go TestVerifC10Race", "round": r})
            continue
        if r.get("err"):
            ctx.tie_broken("go-harness race round did not complete", r)
            continue
        for w in r["watchers"]:
            cl, n = w["class"], w["count"]
            race_hist.setdefault(cl, {}).setdefault(str(n), 0)
            race_hist[cl][str(n)] += 1
            bad = None
            if w["other"]:
                bad = ("watch:unexpected-terminated", "received %d Terminated naming actors it never watched" % w["other"])
            elif n > 1:
                bad = ("watch:duplicate-terminated", "received %d Terminated for the watched actor" % n)
            elif cl in ("pre", "pretwice", "rewatch") and n != 1:
                bad = ("watch:missing-terminated", "its Watch had returned before the stop began and it never unwatched, but it received %d Terminated" % n)
            elif cl in ("unw", "never") and n != 0:
                bad = ("watch:unexpected-terminated", "its UnWatch had returned before the stop began (or it never watched), but it received %d Terminated" % n)
            if bad and reported.get("race:" + bad[0], 0) < 2:
                reported["race:" + bad[0]] = reported.get("race:" + bad[0], 0) + 1
                ctx.violation(bad[0], "concurrent run, stop path %s, watcher class %s: %s" % (r["path"], cl, bad[1]),
                              {"driver": "go/inpkg/actor/zz_verif_C10_test.go TestVerifC10Race", "round": r,
                               "classes": "pre/pretwice/rewatch: Watch completed before the stop; unw/never: UnWatch completed before / never watched; race*/flap: concurrent with the stop"})

    # ---- oracle on the busy watchers: a slow watcher with a backlog (even a full bounded mailbox) is a running watcher
    bby = {b["id"]: b for b in bouts}
    busy_hist = {}
    late = 0
    for c in busy_cases:
        b = bby.get(c["id"])
        if b is None:
            continue
        desc = "watcher with a %s mailbox%s, parked inside Receive with %d user messages sent to it, watched actor stopped by %s" % (
            c["kind"], (" of capacity %d" % c["cap"]) if c["cap"] else "", c["fill"], c["path"])
        if b.get("hung"):
            ctx.violation("watch:operation-never-returns", "%s: %s" % (desc, b.get("hung_how", "")), {"driver": "TestVerifC10Busy", "case": c, "observed": b})
            continue
        if b.get("err"):
            ctx.tie_broken("go-harness busy-watcher case did not complete", {"case": c, "err": b["err"]})
            continue
        busy_hist.setdefault(c["kind"], {}).setdefault(str(b["count"]), 0)
        busy_hist[c["kind"]][str(b["count"])] += 1
        for who, n in (("the busy watcher", b["count"]), ("the idle watcher next to it", b["plain"])):
            if n != 1 and reported.get("busy", 0) < 3:
                reported["busy"] = reported.get("busy", 0) + 1
                ctx.violation("watch:missing-terminated" if n == 0 else "watch:duplicate-terminated",
                              "%s: %s (running, never unwatched) received %d Terminated; it handled %d of the queued messages afterwards" % (desc, who, n, b["accepted"]),
                              {"driver": "go/inpkg/actor/zz_verif_C10_test.go TestVerifC10Busy", "case": c, "observed": b})
        # Terminated travels on the watcher's system mailbox: it is handled before the queued user messages
        if b["count"] == 1 and b["log"] and b["log"][0] != "T":
            late += 1
    if late:
        ctx.tie_broken("Terminated is no longer handled ahead of the watcher's queued user messages (system mailbox)",
                       {"cases": late, "note": "modelled: freeWatchers' Tell puts Terminated on the watcher's unbounded system mailbox, which the dispatcher drains first"})

    # ---- the Coq model on the same runs
    mism = None
    ok_m, out_m = ctx.coq_build(["theories/C10/Model.vo"])
    tree_pairs = [(c, tby[c["id"]]) for c in tree_cases if c["id"] in tby and len(tby[c["id"]]["steps"]) == len(c["ops"])]
    if not ok_m:
        ctx.tie_broken("C10/Model.v does not compile", out_m)
    elif seq_pairs or tree_pairs:
        body = CASES_V % (";\n".join(coq_seq_cases(seq_pairs)), ";\n".join(coq_tree_cases(tree_pairs)))
        rc2, o2 = ctx.coq_eval("cases_C10", body)
        flat = " ".join(o2.split())
        m_ = re.search(r"= \((\d+), (\d+), (\[.*?\]), (\d+), (\d+), (\[.*?\])\)", flat.replace("%nat", ""))
        if rc2 != 0 or not m_:
            ctx.tie_broken("model-vs-implementation (cases.v did not evaluate)", o2)
        else:
            mism = (int(m_.group(2)), int(m_.group(5)))
            if mism[0]:
                ids = [int(x) for x in re.findall(r"\d+", m_.group(3))]
                first = next((c for c in seq_cases if c["id"] in ids), None)
                ctx.tie_broken("model-vs-implementation C10/Model.v stop_seq/restart_seq vs real actors",
                               {"mismatching_cases": mism[0], "first_ids": ids, "first_case": first, "observed": sby.get(first["id"]) if first else None})
            if mism[1]:
                ids = [int(x) for x in re.findall(r"\d+", m_.group(6))]
                first = next((c for c in tree_cases if c["id"] in ids), None)
                ctx.tie_broken("model-vs-implementation C10/Model.v tree operations vs actor/pid_tree.go",
                               {"mismatching_cases": mism[1], "first_ids": ids, "first_case": first, "observed": tby.get(first["id"]) if first else None})
    ctx.log("model comparison done, mismatches=%s" % (mism,))

    if not ctx.coq_property():
        if not any(f.kind == "violation" for f in ctx.findings):
            ctx.proof_broken("Properties/C10.v (%s)" % getattr(ctx, "failed_at", "?"), getattr(ctx, "coq_log", ""))
        else:
            ctx.notes.append("Coq obligation broken at %s; concrete failing input reported" % getattr(ctx, "failed_at", "?"))

    ophist = {}
    nontriv = set()
    n_term = 0
    for c, o, upto in seq_pairs:
        for op in c["ops"][:upto]:
            ophist[op["op"]] = ophist.get(op["op"], 0) + 1
        last = o["steps"][upto]["actors"]
        t = sum(len(a["term"]) for a in last.values())
        n_term += t
        kinds = [op["op"] for op in c["ops"][:upto]]
        if t >= 2 and "unwatch" in kinds and "watch" in kinds:
            nontriv.add(canon_hash(c["ops"]))
    thist = {}
    for c, _ in tree_pairs:
        for op in c["ops"]:
            thist[op["op"]] = thist.get(op["op"], 0) + 1
    ctx.coverage.update({
        "evaluations": sum(upto for _, _, upto in seq_pairs) + sum(len(c["ops"]) for c, _ in tree_pairs) + sum(len(r.get("watchers", [])) for r in routs) + len(bouts),
        "sequence_cases": len(seq_pairs), "tree_cases": len(tree_pairs), "race_rounds": len(routs),
        "distinct_nontrivial": len(nontriv),
        "rule": "sequence case = 3..5 real actors (+ up to 3 children) and 5..26 operations, observed after every operation; non-trivial = contains Watch and UnWatch and at least two Terminated were delivered; distinct by operation list",
        "op_histogram": ophist, "tree_op_histogram": thist, "terminated_messages_observed": n_term,
        "race_terminated_count_by_class": race_hist, "busy_watcher_cases": len(bouts), "busy_watcher_terminated_count_by_mailbox": busy_hist, "restart_reattach_races_skipped": restart_races,
        "model_vs_implementation_mismatches": {"sequences": mism[0] if mism else None, "tree": mism[1] if mism else None},
        "samples": [{"ops": fmt_ops(c["ops"], 12)} for c, _, _ in seq_pairs[:3]] + [{"tree_ops": c["ops"][:8]} for c, _ in tree_pairs[:1]],
        "theorems": ["C10_at_most_one", "C10_only_snapshot_members_told", "C10_not_registered_at_snapshot_never_told", "C10_none_after_completed_unwatch",
                     "C10_exactly_one", "C10_snapshot_is_watcher_set", "C10_told_or_not_running", "C10_watcher_sets_duplicate_free", "C10_unwatch_effective"],
    })
    ctx.notes.append("Restarting the WATCHED actor runs its shutdown first: its watchers are told Terminated at the restart and are unregistered, "
                     "so a later real termination tells them nothing (still exactly one per watcher overall; modelled as coded).")
    if restart_races:
        ctx.notes.append("%d sequence(s) cut at a Restart after which the actor ran outside the tree (death watch deleted the node after "
                         "restartSubtree re-added it) — a tree/lifecycle matter (C09/C11), not judged here." % restart_races)


META = {
    "ready": True,
    "category": "proof",
    "technique": "Rocq inductive invariant over all interleavings of tree steps with freeWatchers' atomic steps + differential runs of the Coq model against real actors and the real tree + concurrent stress",
    "text": "Tree watcher maps and freeWatchers modelled as coded (snapshot, then per watcher IsRunning/Tell/UnWatch as separate atomic steps; Watch/UnWatch/spawn/attach/deleteNode/start/stop of any actor interleaved arbitrarily; incarnations). Proved: at most one Terminated per (actor incarnation, watcher); none for a watcher whose UnWatch completed before the snapshot; exactly one for a watcher in the snapshot that keeps running; watcher sets duplicate-free. Real actors run generated Watch/UnWatch/Shutdown/PoisonPill/parent-stop/Restart/SpawnChild sequences, compared step by step (running, tree watchers/watchees, Terminated per actor) with the Coq model; the real tree's operations are compared with the model; goroutines race Watch/UnWatch against stops.",
    "design_ref": "DESIGN.md 7/C10",
    "level_note": "Trusted: Coq kernel, harness, Go compiler, C06 (one PostStop per incarnation). The interleaving theorems are about the model's atomic steps; the real interleavings are sampled by the race test only.",
}
