"""C37 — spawn configuration survives the wire.

Proof:  Properties/C37.v over the executable model C37/Model.v (NewSupervisor + options, Encode/Decode of
        supervisor, passivation, reentrancy, durations; newSpawnConfig; the requests built by
        Spawn+WithHostAndPort and by SpawnOn; the RemoteSpawn handler; PID.toSerialize /
        wireSpawnOptions / configPID).  C37_partial_* : decode(encode c) is observationally equal to c
        for every configuration without supervisor backoff; C37_backoff_refuted (+ path forms): the
        backoff triple is not in the wire schema; C37_placement_role_refuted: a SpawnOn request that
        does not set Role loses the role (fixes/C37-spawnon-role.diff).
Tie:    every generated configuration is applied by the REAL code locally, through the real remoting
        client + RemoteSpawn handler (Spawn+WithHostAndPort), through the request the real SpawnOn
        builds (cluster mocked, request shipped by the real client), and through
        toSerialize -> wireSpawnOptions -> Spawn; the resulting PIDs are probed (directive lookups for
        10 error types, budget, delays for faults 1..70, passivation, reentrancy, stash, role,
        dependencies, init timeout, relocatable).  The Coq model computes the same probe vector for each
        path (vm_compute) and must agree.  A larger codec-only domain (boundary durations, uint32
        limits) is probed through Encode/Decode directly.
Oracle: local probe == remote probe field by field, independent of the model.
"""
import json
import os
import re
from collections import Counter

from vlib import canon_hash


def read_jsonl(path):
    """tolerant reader: a harness that was killed leaves a truncated last line"""
    out = []
    if not os.path.exists(path):
        return out
    for line in open(path, errors="replace"):
        line = line.strip()
        if line:
            try:
                out.append(json.loads(line))
            except ValueError:
                break
    return out

I64_MAX, I64_MIN = 2 ** 63 - 1, -2 ** 63
U32_MAX = 2 ** 32 - 1
ERR_IDS = {"A": 4, "B": 5, "C": 6, "D": 7, "Z": 8, "panic": 2, "panicnil": 3, "any": 1, "str": 9, "internal": 10}
PROBE_ORDER = ["A", "B", "C", "D", "Z", "panic", "panicnil", "any", "str", "internal"]
PROBE_FAULTS = [1, 2, 3, 4, 5, 6, 10, 20, 33, 34, 35, 40, 62, 63, 64, 65, 70]
ROLES = {"": 0, "payments": 1, "ml": 2, "edge": 3}
PASS_CODE = {"nil": 0, "time": 1, "count": 2, "long": 3, "other": 4}
DIRS = ["Stop", "Resume", "Restart", "Escalate"]
MODES = ["ROff", "RAllowAll", "RStash"]
BACKOFF_SIG = "EncodeSupervisor:backoff-not-on-wire"
ROLE_SIG = "SpawnOn:role-not-in-request"


# ----------------------------------------------------------------------------- generation
def gen_sup(rng, allow_backoff=True, wild=False):
    opts = []
    durations = [-1, 0, 1, 10 ** 6, 999999999, 10 ** 9, 10 ** 9 + 1, 5 * 10 ** 9, 3600 * 10 ** 9]
    if wild:
        durations += [I64_MAX, I64_MIN, I64_MIN + 1, -10 ** 9 - 1, -999999999, 2 ** 62, -(2 ** 40) - 7]
    for _ in range(rng.randint(0, 6)):
        u = rng.random()
        if u < 0.2:
            opts.append({"k": "strategy", "s": rng.randint(0, 1)})
        elif u < 0.6:
            opts.append({"k": "dir", "e": rng.choice(["A", "B", "C", "D", "panic", "panicnil", "str", "internal", "any"] if wild else ["A", "B", "C", "D", "panic", "panicnil", "str"]), "d": rng.randint(0, 3)})
        elif u < 0.8:
            opts.append({"k": "retry", "n": rng.choice([0, 1, 2, 3, 10, U32_MAX] if wild else [0, 1, 3, 10]), "t": rng.choice(durations)})
        elif u < 0.9:
            opts.append({"k": "any", "d": rng.randint(0, 3)})
        elif allow_backoff:
            i = rng.choice([0, -5, 1, 10 ** 8, 4294967297, 10 ** 9])
            opts.append({"k": "backoff", "i": i, "m": rng.choice([0, i - 1, i, 2 * 10 ** 9, 3600 * 10 ** 9]), "r": rng.choice([0, -1, 10 ** 9, 60 * 10 ** 9])})
    return opts


def gen_cases(ctx):
    rng = ctx.rng
    cases = []

    def add(c):
        c["n"] = len(cases)
        base = {"has_sup": False, "sup": [], "pass": "nil", "pass_v": 0, "has_re": False, "re_mode": 0, "re_max": 0, "stash": False,
                "has_role": False, "role": "", "deps": [], "init": 0, "no_reloc": False, "codec_only": False}
        base.update(c)
        cases.append(base)

    # ---- corpus: the two refutation witnesses of Properties/C37.v and boundary rows
    add({"has_sup": True, "sup": [{"k": "backoff", "i": 10 ** 8, "m": 2 * 10 ** 9, "r": 0}]})                        # backoff_witness
    add({"has_role": True, "role": "payments"})                                                                      # role_witness
    add({})                                                                                                          # all defaults
    add({"has_sup": True, "sup": [{"k": "strategy", "s": 1}, {"k": "dir", "e": "A", "d": 1}, {"k": "dir", "e": "panic", "d": 3}, {"k": "retry", "n": 3, "t": 5 * 10 ** 9}],
         "pass": "count", "pass_v": 10, "has_re": True, "re_mode": 2, "re_max": 4, "stash": True, "has_role": True, "role": "ml",
         "deps": [["d1", "p1"]], "init": 250000000, "no_reloc": True})                                              # ex_cfg
    add({"has_sup": True, "sup": [{"k": "dir", "e": "B", "d": 1}, {"k": "any", "d": 3}, {"k": "retry", "n": 2, "t": -1}]})
    add({"has_role": True, "role": ""})
    add({"init": -5})
    add({"deps": [["n1", ""]]})
    add({"deps": [["d1", "p3"], ["e1", ""], ["o1", "x"]]})
    add({"deps": [["l1", "70000"], ["n1", ""], ["d2", "p1"]], "stash": True})
    for mx in (0, -3, 1, U32_MAX - 1, U32_MAX):
        add({"has_re": True, "re_mode": 1, "re_max": mx})

    # ---- codec-only domain (cheap): boundary durations, uint32 limits, every option kind
    n_codec = 1500 if ctx.thorough else 350
    for _ in range(n_codec):
        c = {"codec_only": True}
        if rng.random() < 0.85:
            c["has_sup"], c["sup"] = True, gen_sup(rng, wild=True)
        u = rng.random()
        if u < 0.3:
            c["pass"], c["pass_v"] = "time", rng.choice([0, 1, -1, 999999999, 10 ** 9, -10 ** 9 - 1, I64_MAX, I64_MIN, rng.randint(I64_MIN, I64_MAX)])
        elif u < 0.5:
            c["pass"], c["pass_v"] = "count", rng.choice([0, 1, -1, 10, 2 ** 31, I64_MAX, I64_MIN])
        elif u < 0.6:
            c["pass"] = "long"
        if rng.random() < 0.6:
            c["has_re"], c["re_mode"] = True, rng.randint(0, 2)
            c["re_max"] = rng.choice([0, -1, I64_MIN, 1, 7, U32_MAX - 1, U32_MAX, U32_MAX + 1, 5 * 10 ** 9, 2 ** 40 + 5, I64_MAX])
        add(c)

    # ---- full wire paths (real spawns)
    n_spawn = 600 if ctx.thorough else 130
    for _ in range(n_spawn):
        c = {}
        if rng.random() < 0.75:
            c["has_sup"], c["sup"] = True, gen_sup(rng, allow_backoff=rng.random() < 0.4)
        u = rng.random()
        if u < 0.25:
            c["pass"], c["pass_v"] = "time", rng.choice([60, 61, 3600, 86400]) * 10 ** 9 + rng.choice([0, 1, 999999999])
        elif u < 0.45:
            c["pass"], c["pass_v"] = "count", rng.choice([1, 10, 2 ** 31, 2 ** 40])
        elif u < 0.6:
            c["pass"] = "long"
        if rng.random() < 0.5:
            c["has_re"], c["re_mode"], c["re_max"] = True, rng.randint(0, 2), rng.choice([0, -2, 1, 7, 1000, U32_MAX])
        c["stash"] = rng.random() < 0.4
        if rng.random() < 0.5:
            c["has_role"], c["role"] = True, rng.choice(["payments", "ml", "edge", "payments", ""])
        nd = rng.choice([0, 0, 1, 2])
        c["deps"] = [["d%d" % (k + 1), "p%d" % rng.randint(1, 9)] for k in range(nd)]
        # handle-style dependencies whose serialized form is nil / empty / one byte / large, mixed with ordinary ones
        if rng.random() < 0.45:
            special = [["n1", ""], ["e1", ""], ["o1", rng.choice("xyz")], ["l1", str(rng.choice([2, 4096, 70000]))]]
            c["deps"] = c["deps"] + rng.sample(special, rng.randint(1, 3))
            rng.shuffle(c["deps"])
        c["init"] = rng.choice([0, 0, 1, 250000000, 7 * 10 ** 9, -1, 10 ** 9 + 1])
        c["no_reloc"] = rng.random() < 0.25
        add(c)
    return cases


# ----------------------------------------------------------------------------- probe handling
def flat_sup(s):
    out = [s["strategy"], s["max_retries"], s["timeout"], s["initial"], s["max"], s["reset"], s["window"]]
    for name in PROBE_ORDER:
        out += list(s["dirs"][name])
    out += [s["delays"][f - 1] for f in PROBE_FAULTS]
    return out


def flat_pass(p):
    return [PASS_CODE.get(p["pass"], 4), p["pass_v"] if p["pass"] in ("time", "count") else 0]


def flat_reent(p):
    return [1, p["re_mode"], p["re_max"]] if p["has_re"] else [0, 0, 0]


DEP_IDS = {"n1": 101, "e1": 102, "o1": 103, "l1": 104}
DEP_TYPES = {"*actor.VerifC37Dep": 1, "*actor.VerifC37Nil": 2, "*actor.VerifC37Empty": 3, "*actor.VerifC37One": 4, "*actor.VerifC37Large": 5}


def dep_id_num(i):
    return DEP_IDS[i] if i in DEP_IDS else int(i[1:])


def dep_num(d):
    """(id, type, payload) of a probed dependency as numbers; None when it is not one of ours"""
    try:
        if d[1] == "*actor.VerifC37Dep":
            body = json.loads(bytes.fromhex(d[2]).decode())
            return [dep_id_num(d[0]), 1, int(body["p"][1:])] if body.get("id") == d[0] else None
        ln = int(re.match(r"len=(\d+);", d[2]).group(1))
        return [dep_id_num(d[0]), DEP_TYPES[d[1]], ln]
    except Exception:
        return None


def dep_model(d):
    """(id, type, payload) the model carries for a configured dependency [id, payload]"""
    i, p = d
    if i == "n1":
        return [101, 2, 0]
    if i == "e1":
        return [102, 3, 0]
    if i == "o1":
        return [103, 4, 1]
    if i == "l1":
        return [104, 5, int(p)]
    return [int(i[1:]), 1, int(p[1:])]


def flat_pid(p):
    out = flat_sup(p["sup"]) + flat_pass(p) + flat_reent(p) + [1 if p["stash"] else 0, ROLES.get(p["role"], 99)]
    deps = p["deps"] or []
    out.append(len(deps))
    for d in deps:
        out += dep_num(d) or [0, 0, 0]
    out += [1, p["init"]] if p["has_init"] else [0, 0]
    out.append(1 if p["reloc"] else 0)
    return out


def flat_codec(p):
    return ([1] + flat_sup(p["sup"]) if p["sup"] else [0]) + flat_pass(p) + flat_reent(p)


BACKOFF_FIELDS = {"sup.initial", "sup.max", "sup.reset", "sup.delays", "sup.window"}


def diff_fields(ref, got, codec):
    d = set()
    if (ref["sup"] is None) != (got["sup"] is None):
        d.add("sup.present")
    elif ref["sup"] is not None:
        for k in ("strategy", "max_retries", "timeout", "initial", "max", "reset", "delays", "window", "dirs"):
            if ref["sup"][k] != got["sup"][k]:
                d.add("sup." + k)
    if (ref["pass"], ref["pass_v"]) != (got["pass"], got["pass_v"]):
        d.add("passivation")
    if (ref["has_re"], ref["re_mode"], ref["re_max"]) != (got["has_re"], got["re_mode"], got["re_max"]):
        d.add("reentrancy")
    if not codec:
        for k in ("stash", "role", "reloc"):
            if ref[k] != got[k]:
                d.add(k)
        if (ref["has_init"], ref["init"]) != (got["has_init"], got["init"]):
            d.add("init_timeout")
        if (ref["deps"] or []) != (got["deps"] or []):
            d.add("dependencies")
    return d


# ----------------------------------------------------------------------------- Coq side
def zl(xs):
    out = "zn"
    for x in reversed(xs):
        out = "(zc %s %s)" % (("(%d)" % x) if x < 0 else str(x), out)
    return out


def coq_sup_opts(opts):
    items = []
    for o in opts:
        if o["k"] == "strategy":
            items.append("(OStrategy %s)" % ("OneForAll" if o["s"] == 1 else "OneForOne"))
        elif o["k"] == "dir":
            items.append("(ODirective %d%%nat %s)" % (ERR_IDS[o["e"]], DIRS[o["d"]]))
        elif o["k"] == "retry":
            items.append("(ORetry %d (%d))" % (o["n"], o["t"]))
        elif o["k"] == "backoff":
            items.append("(OBackoff (%d) (%d) (%d))" % (o["i"], o["m"], o["r"]))
        elif o["k"] == "any":
            items.append("(OAny %s)" % DIRS[o["d"]])
    out = "son"
    for x in reversed(items):
        out = "(soc %s %s)" % (x, out)
    return out


def coq_pass(c):
    return {"nil": "PNil", "time": "(PTime (%d))" % c["pass_v"], "count": "(PCount (%d))" % c["pass_v"], "long": "PLongLived"}[c["pass"]]


def coq_config(c):
    items = []
    if c["has_sup"]:
        items.append("(WithSupervisor (newSupervisor %s))" % coq_sup_opts(c["sup"]))
    if c["pass"] != "nil":
        items.append("(WithPassivationStrategy %s)" % coq_pass(c))
    if c["has_re"]:
        items.append("(WithReentrancy (newReentrancy %s (%d)))" % (MODES[c["re_mode"]], c["re_max"]))
    if c["stash"]:
        items.append("WithStashing")
    if c["has_role"]:
        items.append("(WithRole %d%%nat)" % ROLES[c["role"]])
    if c["deps"]:
        ds = "dn"
        for d in reversed(sorted(c["deps"], key=lambda x: x[0])):
            m = dep_model(d)
            ds = "(dc (mkDep %d%%nat %d%%nat (zc %d zn)) %s)" % (m[0], m[1], m[2], ds)
        items.append("(WithDependencies %s)" % ds)
    if c["init"] != 0:
        items.append("(WithInitTimeout (%d))" % c["init"])
    if c["no_reloc"]:
        items.append("WithRelocationDisabled")
    out = "opn"
    for x in reversed(items):
        out = "(opc %s %s)" % (x, out)
    return "(newSpawnConfig %s)" % out


COQ_HEADER = """From Coq Require Import List ZArith Bool Arith. Import ListNotations.
From GV Require Import C37.Model C37.Probe.
Open Scope Z_scope.
Definition zn : list Z := []. Definition zc (x : Z) (l : list Z) := x :: l.
Definition son : list sup_option := []. Definition soc (x : sup_option) (l : list sup_option) := x :: l.
Definition opn : list spawn_option := []. Definition opc (x : spawn_option) (l : list spawn_option) := x :: l.
Definition dn : list dep := []. Definition dc (x : dep) (l : list dep) := x :: l.
Fixpoint zleq (x y : list Z) : bool :=
  match x, y with [], [] => true | a :: x', b :: y' => (a =? b) && zleq x' y' | _, _ => false end.
(* path codes: 0 local, 1 hostport, 2 placement (request carries the role), 3 relocation *)
Inductive kase :=
| KPath (n : Z) (path : Z) (c : config) (observed : list Z)
| KCodec (n : Z) (s : option supervisor) (p : pstrategy) (r : option reentrancy) (local decoded : list Z).
Definition kn : list kase := []. Definition kc (x : kase) (l : list kase) := x :: l.
Definition chk (k : kase) : bool :=
  match k with
  | KPath _ path c obs =>
      zleq obs (if path =? 0 then path_local c else if path =? 1 then path_hostport c
                else if path =? 2 then path_placement true c else path_reloc c)
  | KCodec _ s p r loc dec => zleq loc (flat_codec s p r) && zleq dec (codec_roundtrip s p r)
  end.
Definition num (k : kase) : Z * Z := match k with KPath n p _ _ => (n, p) | KCodec n _ _ _ _ _ => (n, 9) end.
Definition bad (l : list kase) := map num (filter (fun k => negb (chk k)) l).
"""
PATH_CODE = {"local": 0, "hostport": 1, "placement": 2, "reloc": 3}


def coq_compare(ctx, cases, probes, skip):
    ks = []
    for c in cases:
        ps = probes.get(c["n"], {})
        if "codec-local" in ps and "codec" in ps and not ps["codec"]["err"]:
            s = "(Some (newSupervisor %s))" % coq_sup_opts(c["sup"]) if c["has_sup"] else "None"
            r = "(Some (newReentrancy %s (%d)))" % (MODES[c["re_mode"]], c["re_max"]) if c["has_re"] else "None"
            ks.append("(KCodec %d %s %s %s %s %s)" % (c["n"], s, coq_pass(c), r, zl(flat_codec(ps["codec-local"])), zl(flat_codec(ps["codec"]))))
        if c["codec_only"]:
            continue
        cfg = coq_config(c)
        for path, code in PATH_CODE.items():
            p = ps.get(path)
            if p is None or p["err"] or (c["n"], path) in skip:
                continue
            ks.append("(KPath %d %d %s %s)" % (c["n"], code, cfg, zl(flat_pid(p))))
    body = [COQ_HEADER]
    names = []
    for j in range(0, len(ks), 200):
        names.append("ks%d" % (j // 200))
        out = "kn"
        for x in reversed(ks[j:j + 200]):
            out = "(kc %s %s)" % (x, out)
        body.append("Definition %s : list kase := %s.\n" % (names[-1], out))
    body.append("Definition summary := (%s, %s).\nEval vm_compute in summary.\n" % (
        " + ".join("Z.of_nat (length %s)" % x for x in names) or "0", " ++ ".join("bad %s" % x for x in names) or "[]"))
    rc, out = ctx.coq_eval("cases_C37", "".join(body))
    flat = " ".join(out.split())
    m = re.search(r"= \((\d+), (\[.*?\])\) :", flat)
    if rc != 0 or not m:
        return None, out
    badl = [(int(a), int(b)) for a, b in re.findall(r"\((\d+), (\d+)\)", m.group(2))]
    return (int(m.group(1)), badl), out


def run(ctx):
    ctx.trusted += ["hand-written Gallina model C37/Model.v (its probe vector is compared with the real PIDs on every case, every run)",
                    "google.golang.org/protobuf wire encoding of the messages (exercised end to end by the harness, not modelled below the field level)",
                    "the dependency type's own MarshalBinary/UnmarshalBinary pair (contract of the user type)"]
    ctx.assumptions += ["supervisors are built by supervisor.NewSupervisor from its options (no later Reset()/SetDirectiveByType on the original)",
                        "strategy, directive and reentrancy-mode values are the declared constants; passivation strategies are the three built-in ones (spawnConfig.Validate)",
                        "reentrancy maxInFlight <= 2^32-1 for exact equality; larger values saturate at 2^32-1 (proved, C37_partial_reentrancy)",
                        "int is 64 bit"]
    cases = gen_cases(ctx)
    with open(os.path.join(ctx.work, "c37_in.jsonl"), "w") as f:
        for c in cases:
            f.write(json.dumps(c) + "\n")
    outp = os.path.join(ctx.work, "c37_out.jsonl")
    if os.path.exists(outp):
        os.remove(outp)
    rc, gout = ctx.go_test("actor", "^TestVerifC37", ["zz_verif_C37_test.go"], timeout=900 if ctx.thorough else 500)
    probes = {}
    for p in read_jsonl(outp):
        probes.setdefault(p["n"], {})[p["path"]] = p
    if rc != 0 or len(probes) != len(cases):
        ctx.tie_broken("go-harness spawn configuration wire paths", gout)

    by_n = {c["n"]: c for c in cases}
    n_viol = Counter()
    skip = set()
    hist = Counter()
    saturated = 0
    pairs = 0
    for n, ps in sorted(probes.items()):
        c = by_n.get(n)
        if c is None:
            continue
        groups = [("codec-local", ["codec"], True)]
        if not c["codec_only"]:
            groups.append(("local", ["hostport", "placement"] + ([] if c["no_reloc"] else ["reloc"]), False))
        for ref_name, others, codec in groups:
            ref = ps.get(ref_name)
            if ref is None or ref["err"]:
                if ref is not None and ref["err"]:
                    hist["local-error"] += 1
                    if hist["local-error"] <= 2:
                        ctx.tie_broken("go-harness: the configuration could not be spawned locally", {"case": c, "error": ref["err"]})
                continue
            for path in others:
                got = ps.get(path)
                if got is None:
                    continue
                if got["err"]:
                    skip.add((n, path))
                    hist["path-error:" + path] += 1
                    if hist["path-error:" + path] <= 2:
                        ctx.tie_broken("go-harness: path %s failed" % path, {"case": c, "error": got["err"]})
                    continue
                pairs += 1
                hist[path] += 1
                d = diff_fields(ref, got, codec)
                # uint32 saturation of maxInFlight is the documented wire limit
                if "reentrancy" in d and ref["has_re"] and got["has_re"] and ref["re_mode"] == got["re_mode"] and ref["re_max"] > U32_MAX and got["re_max"] == U32_MAX:
                    d.discard("reentrancy")
                    saturated += 1
                if d & BACKOFF_FIELDS and ref["sup"] and got["sup"] and ref["sup"]["initial"] > 0 and \
                        (got["sup"]["initial"], got["sup"]["max"], got["sup"]["reset"]) == (0, 0, 0):
                    d -= BACKOFF_FIELDS
                    n_viol[BACKOFF_SIG] += 1
                    if n_viol[BACKOFF_SIG] == 1:
                        ctx.violation(BACKOFF_SIG,
                                      "supervisor exponential backoff (initial %dns, max %dns, resetAfter %dns) is absent after the %s path: restart delay for the first fault is %dns locally and %dns on the receiving side" %
                                      (ref["sup"]["initial"], ref["sup"]["max"], ref["sup"]["reset"], path, ref["sup"]["delays"][0], got["sup"]["delays"][0]),
                                      {"path": path, "configuration": c, "local_supervisor": {k: ref["sup"][k] for k in ("initial", "max", "reset", "window")},
                                       "received_supervisor": {k: got["sup"][k] for k in ("initial", "max", "reset", "window")}})
                if "role" in d and path == "placement" and ref["role"] != "" and got["role"] == "":
                    d.discard("role")
                    skip.add((n, path))
                    n_viol[ROLE_SIG] += 1
                    if n_viol[ROLE_SIG] == 1:
                        ctx.violation(ROLE_SIG, "SpawnOn(WithRole(%r)) with cluster placement: the actor created on the selected peer has no role (the RemoteSpawn request built by SpawnOn does not set Role)" % ref["role"],
                                      {"path": path, "configuration": c, "local_role": ref["role"], "received_role": got["role"]})
                for fld in sorted(d):
                    sig = "wire:%s:%s" % (path, fld)
                    skip.add((n, path))
                    n_viol[sig] += 1
                    if n_viol[sig] <= 2 and sum(1 for f in ctx.findings if f.kind == "violation") < 8:
                        ctx.violation(sig, "%s differs after the %s path" % (fld, path),
                                      {"path": path, "field": fld, "configuration": c, "local": {k: v for k, v in ref.items() if k != "sup"} if not fld.startswith("sup") else ref["sup"],
                                       "received": {k: v for k, v in got.items() if k != "sup"} if not fld.startswith("sup") else got["sup"]})

    ctx.coq_build(["theories/C37/Probe.vo"])
    res, cout = coq_compare(ctx, cases, probes, skip)
    if res is None:
        ctx.tie_broken("model evaluation (cases_C37.v did not evaluate)", cout)
    else:
        ncmp, badl = res
        names = {v: k for k, v in PATH_CODE.items()}
        names[9] = "codec"
        if badl:
            first = [{"case": by_n[n], "path": names.get(p), "observed": probes[n].get(names.get(p))} for n, p in badl[:3]]
            ctx.tie_broken("C37 model vs Go (probe vectors differ)", {"mismatching": [(n, names.get(p)) for n, p in badl[:20]], "first": first})
        ctx.coverage["model_comparisons"] = ncmp
        ctx.coverage["model_mismatches"] = len(badl)

    if not ctx.coq_property():
        if not any(f.kind == "violation" for f in ctx.findings):
            ctx.proof_broken("Properties/C37.v (%s)" % getattr(ctx, "failed_at", "?"), getattr(ctx, "coq_log", ""))
        else:
            ctx.notes.append("Coq obligation broken at %s; concrete failing input reported" % getattr(ctx, "failed_at", "?"))

    nontriv = set()
    for c in cases:
        if c["has_sup"] and c["sup"] or c["has_re"] or c["pass"] != "nil" or c["deps"] or c["has_role"]:
            nontriv.add(canon_hash({k: v for k, v in c.items() if k != "n"}))
    ctx.coverage.update({
        "evaluations": pairs,
        "distinct_nontrivial": len(nontriv),
        "rule": "seeded configurations over supervisor options (strategy, rules on 9 error types, any-error, retry with boundary durations/uint32, backoff), passivation (nil/time/count/long), reentrancy (3 modes, limits around 2^32), stash, role, 0-2 dependencies, init timeout, relocatable; evaluations = (local, remote) probe pairs compared; non-trivial = at least one non-default component, distinct by canonical configuration",
        "paths": dict(hist),
        "codec_only_cases": sum(1 for c in cases if c["codec_only"]),
        "spawned_cases": sum(1 for c in cases if not c["codec_only"]),
        "reentrancy_saturations_seen": saturated,
        "finding_counts": dict(n_viol),
        "samples": [cases[0], cases[3], next((c for c in cases if c["codec_only"] and c["has_sup"]), None)],
        "theorems": ["C37_duration_roundtrip", "C37_partial_supervisor", "C37_partial_supervisor_wire_fields", "C37_backoff_refuted",
                     "C37_decoded_supervisor_has_no_backoff", "C37_partial_passivation", "C37_partial_reentrancy", "C37_partial_remote_spawn",
                     "C37_remote_spawn_backoff_refuted", "C37_partial_placement", "C37_placement_role_refuted", "C37_partial_relocation",
                     "C37_relocation_backoff_refuted"],
    })


META = {
    "ready": True,
    "category": "proof",
    "technique": "Rocq proof of codec round trips over an executable model + refutation witnesses replayed on the real code + differential probe-vector comparison (vm_compute) over four real wire paths",
    "text": "decode(encode c) is proved observationally equal to c (directive for every error type, retry budget, timeout, pacing, passivation, reentrancy up to the uint32 field, stash, role, dependencies, init timeout, relocatable) for every configuration without supervisor backoff, over the remote-spawn, placement and relocation paths; the backoff triple is proved lost (not in SupervisorSpec) and the loss is replayed on real PIDs; a SpawnOn request without Role is proved to lose the role. The real code is driven end to end (real client, real RemoteSpawn handler, real toSerialize/wireSpawnOptions) and compared with the model's probe vector.",
    "design_ref": "DESIGN.md 7/C37",
    "level_note": "Trusted: Coq kernel, the hand-written model (validated differentially each run), protobuf library, Go compiler.",
}
