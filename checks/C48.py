"""C48 — the TTL map behaves like a map with per-key expiry.

Proof: Properties/C48.v over the hand-written model C48/Model.v (items/order/head with
       Set/Get/Delete/Reset/Len/ActiveLen/evict/maybeCompact as in internal/xsync/ttlmap.go).
Tie:   the real TTLMap[int64,int64] is run in-package with its `now` field replaced by a scripted
       clock on generated histories; after EVERY operation the result and the internal state
       (len(items), len(order), head, digests of items and order) are compared with the Coq model
       evaluated by vm_compute on the same histories.
Oracle on the implementation (independent of the model): a Python dictionary key -> (value, time of
       Set) implementing the property's sentence; after every operation the set of live keys/values
       read off the real object must equal it, and every Get / ActiveLen result must agree.
"""
import json
import os
import re

from vlib import read_jsonl, zlit, canon_hash
from chunk_eval import coq_eval_chunks

SET, GET, DEL, RESET, LEN, ALEN = 0, 1, 2, 3, 4, 5
OPN = ["Set", "Get", "Delete", "Reset", "Len", "ActiveLen"]


def gen_case(rng, cid, profile, nops):
    ops = []
    now = rng.choice([0, 0, 1000, 10 ** 6])  # < 2^27 for the packed encoding
    val = [0]

    def nv():
        val[0] += 1
        return val[0]

    if profile == "churn":
        ttl = rng.choice([3, 5, 10, 20])
        keys = list(range(1, 1 + rng.choice([2, 4, 6])))
        w = [(SET, 45), (GET, 28), (DEL, 12), (RESET, 1), (LEN, 4), (ALEN, 10)]
    elif profile == "dedup":
        ttl = rng.choice([4, 8, 30])
        keys = None
        w = [(SET, 60), (GET, 25), (DEL, 3), (RESET, 0), (LEN, 4), (ALEN, 8)]
    elif profile == "holes":
        ttl = rng.choice([6, 12, 25])
        keys = list(range(1, 13))
        w = [(SET, 40), (GET, 25), (DEL, 25), (RESET, 1), (LEN, 3), (ALEN, 6)]
    elif profile == "refresh":
        ttl = rng.choice([5, 9, 15])
        keys = None
        w = [(SET, 65), (GET, 25), (DEL, 4), (RESET, 0), (LEN, 2), (ALEN, 4)]
    elif profile == "big":  # the slice outgrows its initial capacity (128) before anything expires
        ttl = rng.choice([300, 450])
        keys = None
        w = [(SET, 78), (GET, 14), (DEL, 4), (RESET, 0), (LEN, 2), (ALEN, 2)]
    elif profile == "edge":
        ttl = rng.choice([0, -3, 1, 1, 2])
        keys = list(range(1, 4))
        w = [(SET, 45), (GET, 30), (DEL, 8), (RESET, 6), (LEN, 4), (ALEN, 7)]
    else:  # nonmono
        ttl = rng.choice([5, 10])
        keys = list(range(1, 6))
        w = [(SET, 45), (GET, 30), (DEL, 10), (RESET, 2), (LEN, 3), (ALEN, 10)]
    codes = [c for c, n in w for _ in range(n)]
    fresh = [100]
    recent = []
    for _ in range(nops):
        r = rng.random()
        if profile == "big":
            now += 0 if r < 0.3 else (1 if r < 0.97 else rng.randint(2, 4))
        elif profile == "nonmono" and r < 0.15:
            now = max(0, now - rng.randint(1, ttl + 2))
        elif r < 0.40:
            pass
        elif r < 0.75:
            now += 1
        elif r < 0.92:
            now += rng.randint(2, 4)
        elif r < 0.97:
            now += abs(ttl) + rng.randint(0, 2)
        else:
            now += 3 * abs(ttl) + 5
        c = rng.choice(codes)
        if keys is not None:
            k = rng.choice(keys)
        elif profile == "refresh" and rng.random() < 0.35:
            k = rng.choice([1, 2])  # the hot keys, refreshed in place again and again
        elif c == SET and rng.random() < 0.85:
            fresh[0] += 1
            k = fresh[0]
        else:
            k = rng.choice(recent[-12:]) if recent else 100
        if c == SET:
            recent.append(k)
            ops.append([SET, now, k, nv()])
        elif c in (GET, DEL):
            ops.append([c, now, k, 0])
        else:
            ops.append([c, now, 0, 0])
    return {"id": cid, "ttl": ttl, "ops": ops, "profile": profile}


def corpus_cases():
    """hand-written histories that walk the delicate paths (always run first)"""
    out = []
    # delete + re-set leaves a stale slot in front of the live one; eviction must not unmap through it
    out.append({"ttl": 10, "profile": "corpus", "ops": [[SET, 0, 1, 1], [DEL, 0, 1, 0], [SET, 5, 1, 2], [SET, 11, 2, 3], [GET, 11, 1, 0], [GET, 14, 1, 0], [GET, 15, 1, 0]]})
    # slow-path compaction with a Get-deleted hole must not resurrect the key
    out.append({"ttl": 10, "profile": "corpus", "ops": [[SET, 0, 1, 1], [SET, 0, 2, 2], [SET, 1, 3, 3], [SET, 8, 4, 4], [GET, 11, 3, 0], [SET, 11, 5, 5],
                                                       [GET, 11, 3, 0], [GET, 11, 4, 0], [LEN, 11, 0, 0], [SET, 12, 3, 6], [GET, 12, 3, 0]]})
    # in-place refresh holds back eviction; later entries expire behind it
    out.append({"ttl": 5, "profile": "corpus", "ops": [[SET, 0, 1, 1], [SET, 1, 2, 2], [SET, 4, 1, 3], [SET, 6, 3, 4], [GET, 6, 2, 0], [GET, 8, 1, 0], [SET, 9, 4, 5], [GET, 9, 1, 0], [ALEN, 9, 0, 0], [LEN, 9, 0, 0]]})
    # boundary: exactly ttl later is expired, one tick earlier is live
    out.append({"ttl": 7, "profile": "corpus", "ops": [[SET, 100, 1, 1], [GET, 106, 1, 0], [GET, 107, 1, 0], [SET, 107, 1, 2], [GET, 113, 1, 0], [SET, 114, 2, 3], [GET, 114, 1, 0], [LEN, 114, 0, 0]]})
    # reset in the middle of a half-evicted slice
    out.append({"ttl": 4, "profile": "corpus", "ops": [[SET, 0, 1, 1], [SET, 1, 2, 2], [SET, 2, 3, 3], [SET, 5, 4, 4], [RESET, 5, 0, 0], [GET, 5, 4, 0], [SET, 5, 1, 5], [GET, 5, 1, 0], [SET, 9, 2, 6], [GET, 9, 1, 0], [GET, 9, 2, 0]]})
    # fast path: a run of write-once keys expiring in order
    ops = []
    for i in range(40):
        ops.append([SET, i, 100 + i, i + 1])
        if i % 3 == 0:
            ops.append([GET, i, 100 + i - 3, 0])
            ops.append([GET, i, 100 + i - 4, 0])
    out.append({"ttl": 4, "profile": "corpus", "ops": ops})
    return out


def gen_cases(ctx):
    rng = ctx.rng
    cases = corpus_cases()
    cdir = os.path.join(os.path.dirname(os.path.dirname(os.path.abspath(__file__))), "corpus", "C48")
    if os.path.isdir(cdir):
        for fn in sorted(os.listdir(cdir)):
            if fn.endswith(".json"):
                c = json.load(open(os.path.join(cdir, fn)))
                c["profile"] = "corpus"
                cases.append(c)
    plan = [("churn", 45, 150), ("dedup", 30, 150), ("holes", 40, 180), ("refresh", 30, 150), ("edge", 20, 80), ("nonmono", 20, 100), ("big", 3, 1100)]
    if ctx.thorough:
        plan = [(p, n * 5, l) for p, n, l in plan] + [("dedup", 30, 900), ("holes", 30, 900), ("refresh", 30, 900)]
    for profile, n, nops in plan:
        for _ in range(n):
            cases.append(gen_case(rng, 0, profile, nops if profile == "big" else rng.randint(nops // 2, nops)))
    for i, c in enumerate(cases):
        c["id"] = i
    return cases


def is_mono(c):
    t = [o[1] for o in c["ops"]]
    return all(a <= b for a, b in zip(t, t[1:]))


def oracle_case(c, out):
    """the property's sentence, executed: returns (step index, message) of the first disagreement or None"""
    ttl = c["ttl"]
    d = {}
    for i, (o, st) in enumerate(zip(c["ops"], out["steps"])):
        code, now, k, v = o
        if code == SET:
            d[k] = (v, now)
        elif code == DEL:
            d.pop(k, None)
        elif code == RESET:
            d.clear()
        live = {kk: vv for kk, (vv, t) in d.items() if now - t < ttl}
        r = st["r"]
        if code == GET:
            want = [2, live[k]] if k in live else [1, 0]
            if r != want:
                return i, "Get(%d) at clock %d returned %s, the last Set/Delete/Reset history says %s" % (k, now, r, want)
        if code == ALEN and r != [3, len(live)]:
            return i, "ActiveLen at clock %d returned %d, %d keys are live" % (now, r[1], len(live))
        if code == LEN and r[1] < len(live):
            return i, "Len at clock %d returned %d < %d live keys" % (now, r[1], len(live))
        got = {a: b for a, b in st["l"]}
        if got != live:
            lost = sorted(set(live) - set(got))
            revived = sorted(set(got) - set(live))
            wrong = sorted(kk for kk in set(got) & set(live) if got[kk] != live[kk])
            return i, "after %s at clock %d the map's live content differs from the history: lost live keys %s, revived expired/deleted keys %s, wrong values for %s" % (
                OPN[code], now, lost[:5], revived[:5], wrong[:5])
    return None


def shrink(c, ctx_run):
    return c


def pack_op(o):
    code, now, k, v = o
    assert (1 <= k < 4096 or code in (RESET, LEN, ALEN)) and 0 <= v < 2 ** 20 and 0 <= now < 2 ** 27
    return ((now * 2 ** 20 + v) * 4096 + k) * 8 + code


def coq_cases(cases, outs):
    """Uint63 literals (parsed natively, ~10x cheaper than Z literals): one packed number per operation and one
    hash per observed step"""
    defs, names = [], []
    for c, out in zip(cases, outs):
        n = len(out["steps"])
        defs.append("Definition h%d : list int := [%s]%%list.\nDefinition o%d : list int := [%s]%%list." % (
            c["id"], "; ".join(str(pack_op(o)) for o in c["ops"][:n]), c["id"], "; ".join("%d; %d" % (st["h"][0], st["h"][1]) for st in out["steps"])))
        names.append("(%d%%nat, %s, h%d, o%d)" % (c["id"], zlit(c["ttl"]) + "%Z", c["id"], c["id"]))
    return "\n".join(defs), "; ".join(names)


COQ_TMPL = """From Coq Require Import ZArith Uint63.
From stdpp Require Import gmap.
From GV Require Import C48.Model.
Open Scope uint63_scope.
%s
Definition cases : list (nat * Z * list int * list int) := [%s]%%list.
Definition bad := omap (fun c => match c with (id, ttl, h, ob) =>
   match first_mismatch ttl 0 (map Uint63.to_Z h) (map Uint63.to_Z ob) init with Some i => Some (id, i) | None => None end end) cases.
Definition summary := (length cases, length bad, firstn 5 bad).
Eval vm_compute in summary.
"""


def run(ctx):
    ctx.trusted += ["the harness replaces the map's `now` field (a func() int64) by a scripted clock; time.Now itself is not exercised",
                    "Go map iteration order inside ActiveLen and the reindex loop is irrelevant to the result (proved for the model: distinct keys)"]
    ctx.assumptions += ["clock readings are non-decreasing (stated in every theorem; the refutation for a clock that steps back is C48_backward_clock_revives)",
                        "now + ttl does not overflow int64 (times are unbounded Z in the model)"]
    cases = gen_cases(ctx)
    with open(os.path.join(ctx.work, "c48_in.jsonl"), "w") as f:
        for c in cases:
            f.write(json.dumps({"id": c["id"], "ttl": c["ttl"], "ops": c["ops"]}) + "\n")
    outp = os.path.join(ctx.work, "c48_out.jsonl")
    if os.path.exists(outp):
        os.remove(outp)
    rc, out = ctx.go_test("internal/xsync", "^TestVerifC48History", ["zz_verif_C48_test.go"])
    outs = read_jsonl(outp)
    if rc != 0 or len(outs) != len(cases):
        ctx.tie_broken("go-harness internal/xsync TTLMap", out)
        outs = outs if len(outs) == len(cases) else []

    # ---- oracle on the implementation
    n_viol = 0
    stats = {"ops": {n: 0 for n in OPN}, "profiles": {}, "compactions": 0, "compactions_with_holes": 0, "get_hit": 0, "get_miss": 0,
             "max_order_len": 0, "max_head": 0}
    nontrivial = set()
    for c, o in zip(cases, outs):
        stats["profiles"][c["profile"]] = stats["profiles"].get(c["profile"], 0) + 1
        if o.get("panic"):
            n_viol += 1
            if n_viol <= 3:
                k = o["at"]
                ctx.violation("ttlmap:panic", "TTLMap panics (%s) at operation %d of a Set/Get/Delete/Reset history" % (o["panic"], k),
                              {"ttl": c["ttl"], "ops": [[OPN[x[0]]] + x[1:] for x in c["ops"][:k + 1]], "panic": o["panic"]})
            continue
        comp = holes = hit = miss = 0
        prev = None
        for op, st in zip(c["ops"], o["steps"]):
            stats["ops"][OPN[op[0]]] += 1
            ob = st["o"]
            stats["max_order_len"] = max(stats["max_order_len"], ob[1])
            stats["max_head"] = max(stats["max_head"], ob[2])
            if op[0] == SET and prev is not None and ob[2] == 0 and ob[1] < prev[1]:
                comp += 1
                if prev[0] < prev[1] - prev[2]:
                    holes += 1
            if op[0] == GET:
                if st["r"][0] == 2:
                    hit += 1
                else:
                    miss += 1
            prev = ob
        stats["compactions"] += comp
        stats["compactions_with_holes"] += holes
        stats["get_hit"] += hit
        stats["get_miss"] += miss
        if comp and hit and miss:
            nontrivial.add(canon_hash([c["ttl"], c["ops"]]))
        if is_mono(c):
            bad = oracle_case(c, o)
            if bad:
                n_viol += 1
                if n_viol <= 3:
                    i, msg = bad
                    ctx.violation("ttlmap:history-spec", msg + " (ttl=%d, operation %d of the history)" % (c["ttl"], i),
                                  {"ttl": c["ttl"], "ops": [[OPN[x[0]]] + x[1:] for x in c["ops"][:i + 1]], "format": "[op, clock, key, value]",
                                   "observed": o["steps"][i]})

    # ---- model vs implementation, the Coq model evaluated by vm_compute
    mism = None
    okm, mout = ctx.coq_build(["theories/C48/Model.vo"])
    if not okm:
        ctx.tie_broken("C48/Model.v does not compile", mout)
    elif outs:
        good = [(c, o) for c, o in zip(cases, outs) if o.get("steps")]
        okc, _, mism, first, o2 = coq_eval_chunks(ctx, "cases_C48", good, lambda ch: COQ_TMPL % coq_cases([c for c, _ in ch], [o for _, o in ch]))
        if not okc:
            mism = None
            ctx.tie_broken("model-vs-implementation (cases.v did not evaluate)", o2)
        elif mism and n_viol == 0:
            det = []
            for cid, idx in first[:3]:
                c = cases[cid]
                det.append({"ttl": c["ttl"], "ops": [[OPN[x[0]]] + x[1:] for x in c["ops"][:idx + 1]], "first_diverging_operation": idx,
                            "implementation": outs[cid]["steps"][idx]})
            ctx.tie_broken("TTLMap state/result after every operation vs C48/Model.v", {"mismatching_histories": mism, "first": det})
        elif mism:
            ctx.notes.append("model and implementation also disagree on %d histories (the oracle already reported a concrete failing history)" % mism)

    # ---- theorems
    if not ctx.coq_property():
        if not any(f.kind == "violation" for f in ctx.findings):
            ctx.proof_broken("Properties/C48.v (%s)" % getattr(ctx, "failed_at", "?"), getattr(ctx, "coq_log", ""))
        else:
            ctx.notes.append("Coq obligation broken at %s; concrete failing input reported" % getattr(ctx, "failed_at", "?"))

    # ---- concurrent smoke (mutex discipline), -race in the thorough tier
    rc3, out3 = ctx.go_test("internal/xsync", "^TestVerifC48Concurrent", ["zz_verif_C48_test.go"], race=ctx.thorough,
                            env={"VERIF_C48_ROUNDS": "100" if ctx.thorough else "10"})
    if rc3 != 0:
        if "VERIF-C48-CONCURRENT" in out3 or "DATA RACE" in out3 or "concurrent map" in out3:
            ctx.violation("ttlmap:concurrent", "concurrent Set/Get/Delete on one TTLMap lose an update or race",
                          {"output_tail": out3[-1500:]})
        else:
            ctx.tie_broken("go-harness TTLMap concurrent", out3)

    nsteps = sum(len(o.get("steps", [])) for o in outs)
    ctx.coverage.update({
        "evaluations": nsteps,
        "histories": len(outs),
        "distinct_nontrivial": len(nontrivial),
        "rule": "a history counts as non-trivial when it reached at least one compaction, one Get hit and one Get miss; distinct by (ttl, ops)",
        "op_histogram": stats["ops"], "profiles": stats["profiles"],
        "compactions": stats["compactions"], "compactions_with_holes_before": stats["compactions_with_holes"],
        "get_hit": stats["get_hit"], "get_miss": stats["get_miss"], "max_order_len": stats["max_order_len"], "max_head": stats["max_head"],
        "monotone_histories_checked_by_oracle": sum(1 for c in cases if is_mono(c)),
        "model_mismatching_histories": mism,
        "samples": [{"ttl": c["ttl"], "ops": c["ops"][:8]} for c in cases[:2]] + [{"ttl": c["ttl"], "ops": c["ops"][:8]} for c in cases[len(cases) // 2: len(cases) // 2 + 2]],
        "theorems": THEOREMS,
    })


THEOREMS = ["C48_get_agrees_with_history", "C48_get_agrees_with_spec_map", "C48_simulation_preserved", "C48_evict_never_loses_live",
            "C48_compact_preserves_content", "C48_fast_path_no_holes", "C48_slow_path_in_place", "C48_active_len_counts_live", "C48_backward_clock_revives"]

META = {
    "ready": True,
    "category": "proof",
    "technique": "Rocq refinement proof (slice+index map vs finite map with expiry) + differential execution of the Coq model against the real TTLMap with a scripted clock",
    "text": "The items/order/head structure with Set/Get/Delete/Reset/ActiveLen/evict/maybeCompact is modelled as written; a simulation relation to a finite map key -> (value, expireAt) is proved to be preserved by every operation for every history with a non-decreasing clock, hence every Get returns exactly the last Set value younger than the TTL with no later Delete/Reset; eviction only removes expired mappings and compaction (both paths) preserves the content.",
    "design_ref": "DESIGN.md 7/C48",
    "level_note": "Trusted: Coq kernel, hand-written model tied by per-operation state comparison, the scripted clock substitution. int64 overflow of now+ttl is outside the model (times are unbounded Z).",
}
