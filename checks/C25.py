"""C25 — message serializers round-trip and are chosen by type.

Proof:  Properties/C25.v — the dispatch of internal/remoteclient (resolveSerializer, composite
        Serialize / Deserialize with the proto fast path) over abstract serializers: round trip under
        the explicit cross-acceptance condition, unsupported => error, the entry chosen is the first one for the exact type, else the first matching interface, order independence where it holds and witnesses where it does not; byte-level: the
        proto/CBOR/JSON frame layout and the Terminated / PoisonPill / delivery frames round-trip and
        are mutually exclusive as far as the layouts decide it.
Tie:    the REAL remote.Proto/CBOR/JSON serializers, commands.DeliverySerializer and toy user
        serializers behind the REAL resolveSerializer and serializerDispatch (in-package), for the
        registration orders of up to four entries out of eleven kinds, on generated messages. The Coq
        dispatch model is instantiated per case with the recorded behaviour of each serializer and
        must predict the entry the real resolveSerializer chose, the frame the real dispatch.Serialize
        produced and what the real dispatch.Deserialize made of every frame.
Oracle: a message sent with the serializer chosen for its type comes back equal through the
        receiving dispatcher; an entry registered for the exact type wins; unsupported => error.
"""
import json
import os
import re
import threading

import vlib
from vlib import read_jsonl, canon_hash
from bytes_util import pack

HEADER = """From Coq Require Import NArith List Bool Uint63.
From GV Require Import Lib.Bytes Lib.BytesPack C25.Model C25.Eval.
Import ListNotations.
Open Scope N_scope.
"""


def go_test_own_overlay(ctx, tag, pkg, run, files, timeout=1500):
    """ctx.go_test with a private overlay file, so that two packages can be tested concurrently"""
    src_dir = os.path.join(vlib.VERIF, "go", "inpkg", pkg.replace("/", "_"))
    repl = {os.path.join(vlib.REPO, pkg, f): os.path.join(src_dir, f) for f in list(files) + ["zz_verif_common_test.go"]}
    ov = os.path.join(ctx.work, "overlay_%s.json" % tag)
    json.dump({"Replace": repl}, open(ov, "w"), indent=1)
    e = vlib.go_env()
    e.update({"VERIF_SEED": str(ctx.seed), "VERIF_TIER": ctx.tier, "VERIF_OUT": ctx.work})
    cmd = [vlib.GOBIN, "test", "-tags", "verif", "-overlay", ov, "-vet=off", "-count=1", "-run", run,
           "-timeout", "%ds" % (timeout - 30), "./" + pkg + "/"]
    return vlib.sh(cmd, cwd=vlib.REPO, env=e, timeout=timeout)

KNOWN_SIGS = {
    "resolveSerializer:earlier-interface-entry-shadows-exact-type":
        "client.resolveSerializer let an interface entry registered earlier (the default proto.Message entry always is) shadow a serializer registered for the message's exact concrete type, contrary to the documented 'exact concrete type first' rule (repaired in /repo; reappears if the two-pass lookup is lost)",
    "serializerDispatch.Deserialize:cbor-json-cross-acceptance-single-digit-payload":
        "CBOR and JSON serializers share the frame layout and the global type registry: a one-digit JSON payload ('0'..'9') is a valid CBOR negative integer and vice versa, so with both registered the receiving dispatcher decodes e.g. int 5 (sent as JSON) as -22 through the earlier-registered CBOR entry",
}


def opt(n):
    return "None" if n is None or n < 0 else "(Some %d)" % n


def b(x):
    return "true" if x else "false"


def run(ctx):
    ctx.trusted += [
        "protobuf-go, fxamacker/cbor, bytedance/sonic, the global types registry: payload codecs are parameters of the model; their behaviour on each case is recorded from the real libraries",
        "reflect (Implements / type identity) decides which entries match a message",
    ]
    ctx.assumptions += [
        "dispatch_roundtrip: no earlier-registered serializer accepts the chosen serializer's frame (checked per case on the real serializers; the violations found are reported)",
        "value domain: proto messages, structs of scalars/strings/slices/maps/nested structs, built-in primitives, delivery commands (no any-typed fields: JSON cannot preserve their dynamic type)",
    ]
    p = os.path.join(ctx.work, "c25_cases.jsonl")
    pa = os.path.join(ctx.work, "c25a_cases.jsonl")
    for f in (p, pa):
        if os.path.exists(f):
            os.remove(f)
    res = {}
    th = threading.Thread(target=lambda: res.update(actor=go_test_own_overlay(ctx, "actor", "actor", "^TestVerifC25Actor$", ["zz_verif_C25_test.go"])))
    th.start()
    rc, out = go_test_own_overlay(ctx, "rc", "internal/remoteclient", "^TestVerifC25$", ["zz_verif_C25_test.go"], timeout=900)
    cases = read_jsonl(p)
    if rc != 0 or not cases:
        ctx.tie_broken("go-harness internal/remoteclient TestVerifC25", out)
    th.join()
    rca, outa = res.get("actor", (1, "not run"))
    acases = read_jsonl(pa)
    if rca != 0 or not acases:
        ctx.tie_broken("go-harness actor TestVerifC25Actor", outa)
    for c in acases:
        for msg in (c.get("Oracle") or [])[:1]:
            sig = "internal-serializers:" + ("panic" if "panicked" in msg else c["Kind"])
            if not any(f.signature == sig for f in ctx.findings):
                ctx.violation(sig, "actor Terminated/PoisonPill serializers: " + msg,
                              {"kind": c["Kind"], "decoder_or_type": c["Dec"], "frame_hex": c.get("Data"), "path_hex": c.get("Path"), "unix_nanos_u64": c.get("Nanos")})

    # ---------------------------------------------------------------- oracle
    per_sig = {}
    for c in cases:
        for msg, sig in zip(c.get("Oracle") or [], c.get("Sigs") or []):
            per_sig.setdefault(sig, []).append((c, msg))
    for sig, lst in sorted(per_sig.items()):
        c, msg = lst[0]
        what = msg if sig not in KNOWN_SIGS else KNOWN_SIGS[sig] + " — e.g. " + msg
        ctx.violation(sig, what, {"registration_order": c["Entries"], "entry_kinds": "0 proto.Message=>proto, 1 *S1=>cbor, 2 *S2=>json, 3 any=>json, 4 any=>cbor, 5 *Ack=>delivery, 6 *Toy=>toyA, 7 *Toy2=>toyB, 8 *testpb.Reply=>toyP, 9 *Coll=>toyC, 10 Marker=>json",
                                  "message": c["Msg"], "observed": msg, "frames_hex": c.get("FrameHex"), "occurrences_this_run": len(lst),
                                  "real": {"resolve": c["RResolve"], "dispatch_serialize_frame": c["RDSer"], "dispatch_deserialize_per_frame": c["RDDeser"]}})

    # ---------------------------------------------------------------- model vs implementation
    mism = None
    # the Coq evaluation costs ~40 ms per case: quick samples 1 case in 12, thorough 1 in 6 (all cases take > 15 min and overflow coqc's stack)
    step = 12
    sel = [c for c in cases if c["I"] % step == ctx.seed % step or (c.get("Oracle") and c["I"] % 2 == 0)]
    # absolute cap: beyond ~3000 cases coqc overflows its stack on the generated file (thorough generates many more cases)
    if len(sel) > 3000:
        sel = sel[::(len(sel) + 2999) // 3000]
    ok_eval, out_eval = ctx.coq_build(["theories/C25/Eval.vo"])
    if not ok_eval:
        ctx.tie_broken("C25/Model.v or C25/Eval.v does not compile", out_eval)
    elif sel:
        n_wire = 0
        lines = [HEADER]
        chunk = []
        names = []
        for c in sel:
            n = len(c["Entries"])
            # Go map iteration makes CBOR/JSON encodings of one message differ byte-wise between calls:
            # frames that every entry decodes identically are one frame for the comparison
            rows = c.get("Deser") or []
            fast = c.get("Fast") or []
            rep = {}
            canon = []
            for i, row in enumerate(rows):
                canon.append(rep.setdefault((tuple(row), fast[i]), i))
            cf = lambda f: f if f is None or f < 0 else canon[f]
            c = dict(c, Ser=[cf(x) for x in c["Ser"]], RDSer=cf(c["RDSer"]))
            ents = []
            for j in range(n):
                tbl = "[" + ";".join(opt(row[j]) for row in (c.get("Deser") or [])) + "]"
                ents.append("(%s,%s,%s,%s,%s)" % (b(c["Matches"][j]), b(c["IsIface"][j]), b(c["IsProto"][j]), opt(c["Ser"][j]), tbl))
            chunk.append("check_case [%s] [%s] %s %s [%s]" % (
                ";".join(ents), ";".join(b(x) for x in (c.get("Fast") or [])), opt(c["RResolve"]), opt(c["RDSer"]),
                ";".join(opt(x) for x in (c.get("RDDeser") or []))))
            if len(chunk) == 200:
                nm = "k%d" % len(names)
                names.append(nm)
                lines.append("Definition %s : list bool := [%s]." % (nm, ";\n ".join(chunk)))
                chunk = []
        if chunk:
            nm = "k%d" % len(names)
            names.append(nm)
            lines.append("Definition %s : list bool := [%s]." % (nm, ";\n ".join(chunk)))
        # byte-level cases of the actor package: Terminated / PoisonPill frames through the Coq frame models
        wl = []
        deccode = {"terminated": 1, "poison": 2, "proto": 3, "cbor": 3, "json": 3, "delivery": 4}
        for c in acases:
            if c["Kind"] in ("prod", "refuse") or c["Dec"] not in deccode:
                continue
            wl.append("check_wire %d %d (unpack %s%%uint63) (unpack %s%%uint63) %d %s %s" % (
                1 if c["Kind"] in ("term-rt", "poison-ser") else 0, deccode[c["Dec"]], pack(bytes.fromhex(c.get("Data") or "")),
                pack(bytes.fromhex(c.get("Path") or "")), c.get("Nanos") or 0, b(c["OK"]), b(c.get("ParseOK", False))))
        for k in range(0, len(wl), 100):
            nm = "w%d" % (k // 100)
            names.append(nm)
            lines.append("Definition %s : list bool := [%s]." % (nm, ";\n ".join(wl[k:k + 100])))
        n_wire = len(wl)
        lines.append("Definition res := %s." % " ++ ".join(names))
        lines.append("Definition bad := filter (fun p => negb (snd p)) (combine (seq 0 (length res)) res).")
        lines.append("Eval vm_compute in (length res, length bad, map fst (firstn 5 bad)).")
        rc2, o2 = ctx.coq_eval("cases_C25", "\n".join(lines) + "\n", timeout=1800)
        m = re.search(r"= \((\d+)%nat, (\d+)%nat, (\[.*?\])\)", " ".join(o2.split()))
        if rc2 != 0 or not m:
            ctx.tie_broken("model evaluation (cases_C25.v did not evaluate)", o2[-3000:])
        else:
            mism = int(m.group(2))
            if int(m.group(1)) != len(sel) + n_wire:
                ctx.tie_broken("model evaluation: case count differs", o2[-500:])
            if mism:
                idxs = [int(x) for x in re.findall(r"\d+", m.group(3))]
                detail = []
                wire_cases = [c for c in acases if c["Kind"] not in ("prod", "refuse") and c["Dec"] in deccode]
                for i in idxs[:4]:
                    if i >= len(sel):
                        detail.append({"wire_case": wire_cases[i - len(sel)]})
                        continue
                    c = sel[i]
                    detail.append({k: c[k] for k in ("Entries", "Msg", "Matches", "IsProto", "Ser", "Deser", "Fast", "RResolve", "RDSer", "RDDeser")})
                ctx.tie_broken("model-vs-implementation: dispatch cases (resolveSerializer/serializerDispatch) and wire cases (Terminated/PoisonPill frames): %d of %d differ" % (mism, len(sel) + n_wire), detail)

    if not ctx.coq_property():
        if not any(f.kind == "violation" for f in ctx.findings):
            ctx.proof_broken("Properties/C25.v (%s)" % getattr(ctx, "failed_at", "?"), getattr(ctx, "coq_log", ""))
        else:
            ctx.notes.append("Coq obligation broken at %s; concrete failing input reported" % getattr(ctx, "failed_at", "?"))

    msgs, sizes, notes = {}, {}, {}
    distinct = set()
    for c in cases:
        msgs[c["Msg"]] = msgs.get(c["Msg"], 0) + 1
        sizes[len(c["Entries"])] = sizes.get(len(c["Entries"]), 0) + 1
        for n in c.get("Notes") or []:
            notes[n] = notes.get(n, 0) + 1
        if any(s >= 0 for s in c["Ser"]):
            distinct.add(canon_hash([c["Entries"], c["Msg"]]))
    ctx.coverage.update({
        "evaluations": len(cases),
        "distinct_nontrivial": len(distinct),
        "rule": "(registration order of 1..4 of 11 entry kinds, message); non-trivial = at least one registered serializer accepts the message",
        "configurations_by_size": sizes, "messages": msgs, "harness_notes": notes,
        "oracle_signatures": {k: len(v) for k, v in per_sig.items()},
        "model_cases": len(sel), "model_mismatches": mism,
        "actor_package_cases": {k: sum(1 for c in acases if c["Kind"] == k) for k in sorted({c["Kind"] for c in acases})},
        "samples": [{k: c[k] for k in ("Entries", "Msg", "Ser", "RResolve", "RDSer", "RDDeser")} for c in cases[:3]],
        "theorems": ["C25_dispatch_roundtrip", "C25_send_receive_roundtrip", "C25_resolve_exact_type_first", "C25_resolve_then_first_interface", "C25_resolve_sound", "C25_unsupported_serialize_error",
                     "C25_unsupported_resolve_none", "C25_undecodable_error", "C25_order_independent_partial", "C25_cross_acceptance_refuted",
                     "C25_resolve_exact_beats_earlier_interface", "C25_shared_layout_roundtrip",
                     "C25_shared_cross_needs_common_name", "C25_shared_rejects_{poison,terminated,delivery}", "C25_{poison,terminated,delivery}_rejects_shared",
                     "C25_internal_formats_disjoint", "C25_terminated_roundtrip", "C25_delivery_roundtrip", "C25_frame_type_name"],
    })


META = {
    "ready": True,
    "category": "proof",
    "technique": "Rocq proof over an abstract dispatch model + byte-level frame models, instantiated per case with the recorded behaviour of the real serializers",
    "text": "Deserialize(Serialize m) = m for the composite dispatcher and for the real send/receive path under an explicit cross-acceptance condition, unsupported => error, and the chosen serializer is the first entry for the exact concrete type, else the first matching interface entry — proved for all entry lists and messages; the frame layouts of the proto/CBOR/JSON and internal serializers are proved to round-trip and to exclude each other. All registration orders of up to four of eleven entry kinds are run on the real serializers and dispatch; the model must predict every choice and result.",
    "design_ref": "DESIGN.md 7/C25",
    "level_note": "Trusted: Coq kernel, payload codecs (protobuf, CBOR, sonic JSON) as parameters recorded per case, reflect. Two literal violations are exhibited on the real code (see known findings).",
}
