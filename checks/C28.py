"""C28 — concurrent remote asks each get their own reply.

Proof:  Properties/C28.v over C28/Model.v (pool + one exchange per checked-out connection + sequential server
        loop over FIFO streams): own reply / batch order, exclusive checkout, every pooled connection clean,
        pool bound, error path closes, closed never pooled again — for every interleaving of any number of
        callers, any handler latency, failures at any point.
Tie:    (T) scripted scenarios on the REAL Client against the REAL ProtoServer over loopback: requests are
        parked inside the handler until the script releases them, deadlines expire while a request is parked,
        batches are cancelled between reads, raw Get/Put/Discard and stale eviction mixed in. A ConnWrapper
        tags connections and logs writes/closes; the pool is snapshotted after every op. The event log is
        expanded to the model's labels and replayed through the Coq `step`: every label must be enabled, the
        pool content must match after every op, the results of all calls and the closed flags at the end.
Oracle: reply id = request id in request order; failed call's connection closed and never seen in the pool
        again; no connection used by two callers at once nor pooled while in use; pool bound. Also on
        real-goroutine stress rounds (pool bound 1-4, 2-16 callers, handler delays beyond the deadline).
"""
import json
import os
import re

from vlib import canon_hash


def read_jsonl(path):
    """one JSON value per line; a harness that died mid-write leaves a truncated last line: skip it"""
    out = []
    if not os.path.exists(path):
        return out
    for line in open(path, errors="replace"):
        line = line.strip()
        if not line:
            continue
        try:
            out.append(json.loads(line))
        except ValueError:
            continue
    return out


def load_corpus_dir(pid):
    """minimised / interesting cases kept as files in corpus/<pid>/*.json, run first"""
    d = os.path.join(os.path.dirname(os.path.dirname(os.path.abspath(__file__))), "corpus", pid)
    out = []
    if os.path.isdir(d):
        for fn in sorted(os.listdir(d)):
            if fn.endswith(".json"):
                out.append(json.load(open(os.path.join(d, fn))))
    return out


# ------------------------------------------------------------------ scenario generation
class Gen:
    def __init__(self, rng, name, max_idle, ncallers):
        self.rng, self.name, self.max_idle = rng, name, max_idle
        self.ops = []
        self.callers = {t: None for t in range(ncallers)}
        self.late = []
        self.nrid = 0

    def rid(self):
        self.nrid += 1
        return "r%d" % self.nrid

    def start(self, t, n=1, batch=False, deadline=""):
        reqs = [self.rid() for _ in range(n)]
        self.ops.append({"op": "start", "t": t, "reqs": reqs, "batch": batch or n > 1, "deadline": deadline})
        self.callers[t] = {"reqs": reqs, "next": 0, "deadline": deadline, "cancelled": False}

    def reply(self, t):
        c = self.callers[t]
        o = {"op": "reply", "t": t}
        c["next"] += 1
        last = c["next"] >= len(c["reqs"])
        if c["cancelled"] and not last:
            o["rid"] = "cancelled"
            self.late.append(c["reqs"][c["next"]])
            self.callers[t] = None
        elif last:
            self.callers[t] = None
        self.ops.append(o)

    def expire(self, t):
        c = self.callers[t]
        self.ops.append({"op": "expire", "t": t})
        self.late.append(c["reqs"][c["next"]])
        self.callers[t] = None

    def drop(self, t):
        self.ops.append({"op": "drop", "t": t})
        self.callers[t] = None

    def cancel(self, t):
        self.ops.append({"op": "cancel", "t": t})
        self.callers[t]["cancelled"] = True

    def late_reply(self, rid=None):
        if not self.late:
            return
        rid = rid or self.late[self.rng.randrange(len(self.late))]
        self.late.remove(rid)
        self.ops.append({"op": "late", "t": 0, "rid": rid})

    def raw(self, t, op):
        self.ops.append({"op": op, "t": t})
        self.callers[t] = "raw" if op == "get" else None

    def scenario(self):
        return {"name": self.name, "max_idle": self.max_idle, "ops": self.ops}


def corpus(rng):
    out = []
    # handler slower than the deadline; the late response arrives after the next caller took the pool's connection
    for mi in (1, 2):
        g = Gen(rng, "corpus-timeout-late-reply-mi%d" % mi, mi, 2)
        g.start(0)
        g.reply(0)           # connection 0 pooled
        g.start(0, deadline="short")
        g.expire(0)          # deadline expires with r2 inside the handler
        g.start(1)           # must NOT get connection 0
        g.late_reply()       # r2's response is written now
        g.reply(1)
        g.start(0)
        g.reply(0)
        out.append(g.scenario())
    # batch cancelled between reads: one response still to come on that connection
    g = Gen(rng, "corpus-batch-cancel", 1, 2)
    g.start(0, n=3)
    g.reply(0)
    g.cancel(0)
    g.reply(0)
    g.start(1)
    g.late_reply()
    g.reply(1)
    g.start(0, n=2)
    g.reply(0)
    g.reply(0)
    out.append(g.scenario())
    # batch order with interleaved second caller on a pool of one
    g = Gen(rng, "corpus-batch-interleave", 1, 2)
    g.start(0, n=4)
    g.start(1, n=2)
    g.reply(1)
    g.reply(0)
    g.reply(0)
    g.reply(1)
    g.reply(0)
    g.reply(0)
    g.start(1)
    g.reply(1)
    out.append(g.scenario())
    # server closes the connection mid-batch; pool full on return; eviction of stale connections
    g = Gen(rng, "corpus-drop-evict", 2, 3)
    g.start(0, n=2)
    g.reply(0)
    g.drop(0)
    g.start(0)
    g.start(1)
    g.start(2)
    g.reply(2)
    g.reply(1)
    g.reply(0)               # third Put finds the pool full
    g.ops.append({"op": "age", "t": 0})
    g.start(0)
    g.reply(0)
    out.append(g.scenario())
    # raw pool operations, pool bound 0
    g = Gen(rng, "corpus-raw-mi0", 0, 2)
    g.raw(0, "get")
    g.raw(1, "get")
    g.raw(0, "put")
    g.raw(1, "discard")
    g.start(0)
    g.reply(0)
    out.append(g.scenario())
    return out


def gen_scenario(rng, idx):
    mi = rng.choice([0, 1, 1, 2, 2, 3, 4])
    nc = rng.choice([2, 3, 4])
    g = Gen(rng, "gen-%d" % idx, mi, nc)
    for _ in range(rng.randint(6, 28)):
        t = rng.randrange(nc)
        c = g.callers[t]
        r = rng.random()
        if g.late and r < 0.12:
            g.late_reply()
        elif r < 0.04:
            g.ops.append({"op": "age", "t": 0})
        elif c is None:
            if r < 0.15:
                g.raw(t, "get")
            else:
                n = 1 if rng.random() < 0.6 else rng.randint(2, 4)
                g.start(t, n=n, batch=(n > 1 or rng.random() < 0.2), deadline=rng.choice(["", "", "long", "short"]))
        elif c == "raw":
            g.raw(t, "put" if rng.random() < 0.7 else "discard")
        elif c["deadline"] == "short":
            g.expire(t)
        else:
            remaining = len(c["reqs"]) - c["next"]
            if r < 0.1:
                g.drop(t)
            elif r < 0.25 and remaining >= 2 and not c["cancelled"]:
                g.cancel(t)
            else:
                g.reply(t)
    return g.scenario()


# ------------------------------------------------------------------ oracle on a scenario trace
def rnum(rid):
    m = re.match(r"r(\d+)$", rid or "")
    return int(m.group(1)) if m else 999999


def scenario_oracle(tr):
    bad = []
    ev = tr["events"]
    conn_of_rid, user = {}, {}   # user: conn -> caller currently using it
    cur = {}                     # caller -> {"reqs":..., "conn":...}
    failed_conns = {}
    closed = set()
    for i, e in enumerate(ev):
        k = e["k"]
        if k == "end":
            break
        if k == "start":
            cur[e["t"]] = {"reqs": e["reqs"], "conn": None}
        elif k == "write":
            conn_of_rid[e["rid"]] = e["c"]
            owner = [t for t, c in cur.items() if e["rid"] in c["reqs"]]
            if owner:
                t = owner[0]
                cur[t]["conn"] = e["c"]
                if e["c"] in user and user[e["c"]] != t:
                    bad.append(("pool:shared-checkout", "connection %d is written by caller %d while caller %d is using it" % (e["c"], t, user[e["c"]])))
                user[e["c"]] = t
                if e["c"] in failed_conns:
                    bad.append(("pool:failed-connection-reused", "connection %d is used again after a call failed on it (%s)" % (e["c"], failed_conns[e["c"]])))
        elif k == "get":
            if e["c"] >= 0:
                if e["c"] in user:
                    bad.append(("pool:shared-checkout", "Get returned connection %d while caller %d is using it" % (e["c"], user[e["c"]])))
                user[e["c"]] = e["t"]
                if e["c"] in failed_conns or e["c"] in closed:
                    bad.append(("pool:failed-connection-reused", "Get returned connection %d which was discarded" % e["c"]))
        elif k in ("put", "discard"):
            user.pop(e["c"], None)
            if k == "discard":
                failed_conns[e["c"]] = "Discard"
        elif k == "close":
            closed.add(e["c"])
        elif k == "done":
            c = cur.pop(e["t"], {"conn": None})
            if c["conn"] is not None:
                user.pop(c["conn"], None)
            if e.get("err"):
                if c["conn"] is not None:
                    failed_conns[c["conn"]] = "caller %d: %s" % (e["t"], e["err"])
                    if c["conn"] not in closed:
                        bad.append(("pool:failed-connection-not-closed", "caller %d failed (%s) on connection %d but the connection was not closed" % (e["t"], e["err"], c["conn"])))
            else:
                if (e.get("res") or []) != e["reqs"]:
                    bad.append(("exchange:foreign-reply", "caller %d sent %s and received %s" % (e["t"], e["reqs"], e.get("res"))))
        elif k == "snap":
            idle = e.get("idle") or []
            if len(set(idle)) != len(idle):
                bad.append(("pool:duplicate-idle", "the pool holds a connection twice: %s" % idle))
            if len(idle) > tr["max_idle"]:
                bad.append(("pool:bound", "pool holds %d connections, bound %d" % (len(idle), tr["max_idle"])))
            for c in idle:
                if c in user:
                    bad.append(("pool:shared-checkout", "connection %d is pooled while caller %d is using it" % (c, user[c])))
                if c in failed_conns:
                    bad.append(("pool:failed-connection-pooled", "connection %d is in the pool after a failure on it (%s)" % (c, failed_conns[c])))
    bad.sort(key=lambda b: 0 if b[0] == "exchange:foreign-reply" else 1)  # the property's own words first
    seen = set()
    uniq = []
    for b in bad:
        if b not in seen:
            seen.add(b)
            uniq.append(b)
    return uniq


# ------------------------------------------------------------------ event log -> labels of the Coq model
def expand(tr):
    ev = tr["events"]
    items = []          # ("L", text) | ("S", [idle newest first])
    conn_of_rid = {}
    cur = {}            # caller -> {"reqs", "conn", "got"}
    raw = {}            # caller -> conn
    known = set()       # connections dialled before the current op
    dialled = set()
    idle = []           # last snapshot, oldest first
    completed = []      # (t, reqs, res | None)
    closed = set()
    for e in ev:
        k = e["k"]
        if k == "end":
            break
        if k == "dial":
            dialled.add(e["c"])
        elif k == "start":
            cur[e["t"]] = {"reqs": e["reqs"], "conn": None}
        elif k == "write":
            conn_of_rid[e["rid"]] = e["c"]
            owner = [t for t, c in cur.items() if e["rid"] in c["reqs"]]
            if not owner:
                items.append(("L", "LWrite 99"))
                continue
            t = owner[0]
            if cur[t]["conn"] is None:
                cur[t]["conn"] = e["c"]
                items.append(("L", "LGet %d [%s] %s" % (t, "; ".join(str(rnum(r)) for r in cur[t]["reqs"]), "true" if e["c"] in known else "false")))
                if e["c"] in idle:
                    idle.remove(e["c"])
            items.append(("L", "LWrite %d" % t))
        elif k == "srv_read":
            items.append(("L", "LSrvRead %d" % conn_of_rid.get(e["rid"], 99)))
        elif k == "srv_reply":
            items.append(("L", "LSrvReply %d" % conn_of_rid.get(e["rid"], 99)))
        elif k == "srv_drop":
            items.append(("L", "LSrvClose %d" % conn_of_rid.get(e["rid"], 99)))
        elif k == "close":
            closed.add(e["c"])
            held = [t for t, c in cur.items() if c["conn"] == e["c"]] + [t for t, c in raw.items() if c == e["c"]]
            if not held and e["c"] in idle:
                items.append(("L", "LEvict"))
                idle.remove(e["c"])
        elif k == "done":
            c = cur.pop(e["t"], None)
            if c is None or c["conn"] is None:
                continue  # failed before any connection was written to: nothing to replay
            if e.get("err"):
                items.append(("L", "LFail %d" % e["t"]))
                completed.append((e["t"], c["reqs"], None))
            else:
                items += [("L", "LRead %d" % e["t"])] * len(c["reqs"]) + [("L", "LPut %d" % e["t"])]
                completed.append((e["t"], c["reqs"], e.get("res") or []))
        elif k == "get":
            if e["c"] < 0:
                continue
            raw[e["t"]] = e["c"]
            items.append(("L", "LGet %d [] %s" % (e["t"], "true" if e["c"] in known else "false")))
            if e["c"] in idle:
                idle.remove(e["c"])
        elif k == "put":
            raw.pop(e["t"], None)
            items.append(("L", "LPut %d" % e["t"]))
            completed.append((e["t"], [], []))
        elif k == "discard":
            raw.pop(e["t"], None)
            items.append(("L", "LFail %d" % e["t"]))
            completed.append((e["t"], [], None))
        elif k == "snap":
            idle = list(e.get("idle") or [])
            known = set(dialled)
            items.append(("S", list(reversed(idle))))
    nconn = (max(dialled) + 1) if dialled else 0

    def nl(l):
        return "[" + "; ".join(str(rnum(x)) if isinstance(x, str) else str(x) for x in l) + "]"

    its = "; ".join(("IL (%s)" % x) if kk == "L" else ("IS %s" % nl(x)) for kk, x in items)
    comp = "; ".join("(%d, %s, %s)" % (t, nl(rq), "None" if rs is None else "Some %s" % nl(rs)) for t, rq, rs in completed)
    cl = "; ".join("true" if c in closed else "false" for c in range(nconn))
    return "(%d, [%s], [%s], [%s])" % (tr["max_idle"], its, comp, cl)


COQ_REPLAY = """From Coq Require Import List Arith Bool. Import ListNotations.
From GV Require Import C28.Model.
Inductive item := IL (l : label) | IS (idle : list nat).
Fixpoint nl_eqb (a b : list nat) : bool :=
  match a, b with [], [] => true | x :: a', y :: b' => Nat.eqb x y && nl_eqb a' b' | _, _ => false end.
Definition res_eqb (a b : option (list nat)) : bool :=
  match a, b with None, None => true | Some x, Some y => nl_eqb x y | _, _ => false end.
Fixpoint comp_eqb (a b : list (nat * list nat * option (list nat))) : bool :=
  match a, b with
  | [], [] => true
  | (t, q, r) :: a', (t', q', r') :: b' => Nat.eqb t t' && nl_eqb q q' && res_eqb r r' && comp_eqb a' b'
  | _, _ => false end.
Fixpoint run_items (mi : nat) (s : state) (its : list item) (i : nat) : state * option nat :=
  match its with
  | [] => (s, None)
  | IL l :: r => match step mi s l with Some s' => run_items mi s' r (S i) | None => (s, Some i) end
  | IS e :: r => if nl_eqb (idle s) e then run_items mi s r (S i) else (s, Some i)
  end.
Definition trace_t := (nat * list item * list (nat * list nat * option (list nat)) * list bool)%%type.
(* (0,0) ok | (1,i) item i: label not enabled or pool snapshot differs | (2,1) results of the calls | (2,2) closed flags | (2,3) number of connections *)
Definition check (t : trace_t) : nat * nat :=
  match t with (mi, its, comp, closed) =>
    match run_items mi init its 0 with
    | (_, Some i) => (1, i)
    | (s, None) =>
        if negb (comp_eqb (completed s) comp) then (2, 1)
        else if negb (Nat.eqb (nconn s) (length closed)) then (2, 3)
        else if negb (forallb (fun p => Bool.eqb (cclosed (conns s (fst p))) (snd p)) (combine (seq 0 (length closed)) closed)) then (2, 2)
        else (0, 0)
    end end.
%s
Definition traces : list trace_t := [%s].
Definition codes := map check traces.
Definition summary := (length traces, length (filter (fun n => negb (Nat.eqb (fst n) 0)) codes), codes).
Eval vm_compute in summary.
"""


def replay(ctx, traces):
    defs = "\n".join("Definition t%d : trace_t := %s." % (i, expand(t)) for i, t in enumerate(traces))
    body = COQ_REPLAY % (defs, "; ".join("t%d" % i for i in range(len(traces))))
    rc, out = ctx.coq_eval("cases_C28", body)
    flat = " ".join(out.split()).replace("%nat", "")
    m_ = re.search(r"= \((\d+), (\d+), \[(.*?)\]\)", flat)
    if rc != 0 or not m_:
        return None, out
    codes = [tuple(int(y) for y in re.findall(r"\d+", x)) for x in m_.group(3).split(";") if x.strip()]
    return codes, out


def stress_oracle(r):
    bad = []
    for c in r.get("calls") or []:
        if not c.get("err") and (c.get("res") or []) != c["reqs"]:
            bad.append(("exchange:foreign-reply", "stress round %d (pool bound %d, %d callers): caller %d sent %s and received %s" %
                        (r["round"], r["max_idle"], r["callers"], c["t"], c["reqs"], c.get("res"))))
            if len(bad) >= 3:
                break
    return bad


def run(ctx):
    ctx.trusted += ["loopback TCP as a FIFO byte stream per connection; frames as units (frame codec: C23)",
                    "label expansion of the harness event log (checks/C28.py expand) — a wrong expansion can only make the replay fail",
                    "ConnWrapper instrumentation (logs before writes/closes) and in-package pool snapshots"]
    ctx.assumptions += ["request/response handlers reply or close the connection (no production caller uses SendProtoNoReply/SendProtoManyNoReply; they are outside the model)",
                        "one Write call = one request frame (as in SendProtoWithMetadata / SendBatchProto)"]
    rng = ctx.rng
    scs = load_corpus_dir('C28') + corpus(rng) + [gen_scenario(rng, i) for i in range(120 if ctx.thorough else 26)]
    if ctx.replay_path and os.path.exists(ctx.replay_path):  # bin/check C28 --replay replays/C28-...json
        rp = json.load(open(ctx.replay_path)).get("replay", {})
        if isinstance(rp.get("scenario"), dict):
            scs.insert(0, dict(rp["scenario"], name="replay-" + rp["scenario"].get("name", "x")))
    for fn in ("c28_traces.jsonl", "c28_stress.jsonl"):
        p = os.path.join(ctx.work, fn)
        if os.path.exists(p):
            os.remove(p)
    with open(os.path.join(ctx.work, "c28_scenarios.jsonl"), "w") as f:
        for s in scs:
            f.write(json.dumps(s) + "\n")
    env = {"VERIF_C28_ROUNDS": "120" if ctx.thorough else "24"}
    rc, out = ctx.go_test("internal/net", "^TestVerifC28", ["zz_verif_C28_test.go"], env=env, timeout=800, race=ctx.thorough)
    traces = read_jsonl(os.path.join(ctx.work, "c28_traces.jsonl"))
    stress = read_jsonl(os.path.join(ctx.work, "c28_stress.jsonl"))
    if rc != 0 or len(traces) != len(scs):
        ctx.tie_broken("go-harness internal/net client pool", out)
    # end to end: RemoteAsk / RemoteBatchAsk through remoteclient to a real actor system
    e2e_p = os.path.join(ctx.work, "c28_e2e.jsonl")
    if os.path.exists(e2e_p):
        os.remove(e2e_p)
    rc_e, out_e = ctx.go_test("actor", "^TestVerifC28Actor", ["zz_verif_C28_test.go"],
                              env={"VERIF_C28_E2E_ROUNDS": "30" if ctx.thorough else "6", "CGO_ENABLED": "0"}, timeout=1200)
    e2e = read_jsonl(e2e_p)
    if rc_e != 0 or not e2e:
        ctx.tie_broken("go-harness actor RemoteAsk/RemoteBatchAsk", out_e)

    reported = {}
    n_viol = 0
    n_anom = 0
    by_name = {s["name"]: s for s in scs}

    def report(sig, what, rep):
        nonlocal n_viol
        n_viol += 1
        if reported.get(sig, 0) < 1 and len(reported) < 6:
            reported[sig] = reported.get(sig, 0) + 1
            ctx.violation(sig, what, rep)

    anomalies = ["%s: %s" % (tr["name"], a) for tr in traces for a in (tr.get("anomalies") or [])]
    for tr in traces:
        for sig, what in scenario_oracle(tr):
            report(sig, "%s: %s" % (tr["name"], what), {"object": "internal/net.Client + ProtoServer", "scenario": by_name.get(tr["name"]),
                                                         "events": [e for e in tr["events"] if e["k"] != "snap"][:80]})
    for r in stress:
        for sig, what in stress_oracle(r):
            report(sig, what, {"object": "internal/net.Client stress", "round": {k: v for k, v in r.items() if k != "calls"},
                               "rerun": "VERIF_SEED=%d bin/check C28 %s" % (ctx.seed, ctx.tier)})

    for c in e2e:
        if c.get("panic"):
            report("remote-ask:panic-on-foreign-reply",
                   "%s round %d (pool bound %d) caller %d sent %s and the client panicked: %s (a response carrying more messages than the call's requests is not this call's response)" %
                   ("RemoteBatchAsk" if c["batch"] else "RemoteAsk", c["round"], c["max_idle"], c["t"], c["reqs"], c["panic"]),
                   {"object": "remoteclient.RemoteAsk/RemoteBatchAsk -> actor.remoteAskHandler", "call": c})
        elif not c.get("err") and (c.get("res") or []) != c["reqs"]:
            report("remote-ask:foreign-reply" if not c["batch"] else "remote-batch-ask:order",
                   "%s round %d (pool bound %d) caller %d sent %s and received %s" %
                   ("RemoteBatchAsk" if c["batch"] else "RemoteAsk", c["round"], c["max_idle"], c["t"], c["reqs"], c.get("res")),
                   {"object": "remoteclient.RemoteAsk/RemoteBatchAsk -> actor.remoteAskHandler", "call": c,
                    "rerun": "VERIF_SEED=%d bin/check C28 %s" % (ctx.seed, ctx.tier)})

    if anomalies and n_viol == 0:
        for a in anomalies[:2]:
            ctx.tie_broken("harness anomaly", a)
    elif anomalies:
        ctx.notes.append("%d harness anomalies follow from the reported violations, e.g. %s" % (len(anomalies), anomalies[0]))

    codes = None
    if traces:
        codes, o = replay(ctx, traces)
        if codes is None:
            ctx.tie_broken("model replay (cases.v did not evaluate)", o)
        else:
            failing = [(traces[i]["name"], c) for i, c in enumerate(codes) if c != (0, 0)]
            if failing and n_viol == 0:
                ctx.tie_broken("model replay: real pool/exchange traces are not executions of the Coq model",
                               {"failures: name, (1,i) = item i of the expanded trace (label not enabled or pool snapshot differs) | (2,1) call results | (2,2) closed flags | (2,3) connections dialled": failing[:6]})
            elif failing:
                ctx.notes.append("model replay also diverges on %d trace(s): %s" % (len(failing), failing[:4]))

    if not ctx.coq_property():
        if not any(f.kind == "violation" for f in ctx.findings):
            ctx.proof_broken("Properties/C28.v (%s)" % getattr(ctx, "failed_at", "?"), getattr(ctx, "coq_log", ""))
        else:
            ctx.notes.append("Coq obligation broken at %s; concrete failing input reported" % getattr(ctx, "failed_at", "?"))

    def nontrivial(tr):
        ks = [e["k"] for e in tr["events"]]
        return any(e["k"] == "done" and e.get("err") for e in tr["events"]) or ks.count("start") >= 3

    op_hist = {}
    for s in scs:
        for o in s["ops"]:
            key = o["op"] + (":" + o["deadline"] if o.get("deadline") else "") + (":batch" if o.get("batch") else "")
            op_hist[key] = op_hist.get(key, 0) + 1
    calls = [c for r in stress for c in (r.get("calls") or [])]
    ctx.coverage.update({
        "evaluations": len(traces) + len(stress) + len(e2e),
        "distinct_nontrivial": len({canon_hash([e for e in tr["events"] if e["k"] != "snap"]) for tr in traces if nontrivial(tr)}) + sum(1 for r in stress if any(c.get("err") for c in r.get("calls") or [])),
        "rule": "scenarios: corpus (deadline expires while the request is inside the handler and the response arrives late; batch cancelled between reads; interleaved batches on a pool of one; server closes mid-batch; pool full; stale eviction; pool bound 0) + seeded random scripts (2-4 callers, pool bound 0-4); non-trivial = some call fails or >= 3 calls; distinct by event log. stress rounds: non-trivial = at least one call timed out",
        "samples": [scs[0], [e for e in traces[0]["events"] if e["k"] != "snap"][:14] if traces else None,
                    {k: v for k, v in (stress[0] if stress else {}).items() if k != "calls"}, calls[:2]],
        "scenario_ops": op_hist, "scenarios": len(traces), "stress_rounds": len(stress),
        "stress_calls": len(calls), "stress_calls_failed": sum(1 for c in calls if c.get("err")),
        "stress_batch_calls": sum(1 for c in calls if len(c["reqs"]) > 1),
        "e2e_calls": len(e2e), "e2e_failed": sum(1 for c in e2e if c.get("err")), "e2e_batch_ok": sum(1 for c in e2e if c["batch"] and not c.get("err")),
        "model_replay_failures": None if codes is None else sum(1 for c in codes if c != (0, 0)),
        "oracle_violations": n_viol,
        "theorems": ["C28_own_reply", "C28_exclusive_checkout", "C28_held_not_pooled", "C28_idle_clean", "C28_pool_bound",
                     "C28_fail_closes", "C28_discarded_never_pooled"],
    })


META = {
    "ready": True,
    "category": "proof",
    "technique": "Rocq proof (inductive invariant over a transition system of pool, exchanges and server loop) + event-log replay of the real client/server through the model + id oracle under scripted and real-goroutine schedules",
    "text": "For every interleaving of any number of callers over any pool bound, with handlers of any latency and failures at any point, a call that returns successfully returns the responses to its own requests in request order; checkout is exclusive; every pooled connection is clean; a connection on which anything failed is closed and never pooled again.",
    "design_ref": "DESIGN.md 7/C28",
    "level_note": "Trusted: Coq kernel, TCP as FIFO streams, frame codec (C23), the in-process harness. Not covered: TLS/compression wrappers, SendProtoNoReply family (no production caller).",
}
