"""C20 — event stream: every event once, in publish order.

Proof:  Properties/C20.v over C20/Model.v (internal/queue at atomic-step granularity, with and without
        node recycling) and C20/Stream.v (eventstream at critical-section granularity).
Tie:    (T) internal/queue/queue.go of the CURRENT tree is instrumented by tools/vinstr (a yield point
        before every atomic / pool / item-field statement) and run under a controlled scheduler on
        generated programs and schedules; kind of every step, queue contents and length counter after
        every step and all results are compared with the Coq model run on the same schedule
        (cases file + vm_compute).  (S) sequential op sequences on the real EventsStream compared with
        the Coq stream model after every op.
Oracle: independent of the model — every enqueued value / published event exactly once, per-producer
        order, nothing delivered that was published after a completed Unsubscribe/Shutdown, length
        counter back to zero, no panic — on the controlled runs (queue level and stream level) and on
        real-goroutine stress runs.
"""
import json
import os
import re

import vlib
from vlib import read_jsonl, canon_hash
import sched_util

KIND2LABEL = {"call": "LCall", "pool.Get": "LGet", "pool.Put": "LPut", "field": "LField",
              "LoadPointer": "LLoad", "LoadInt64": "LLoad", "CompareAndSwapPointer": "LCas", "AddInt64": "LAdd"}
RULES = r"^atomic\.(\w+)$=$1;\.pool\.(Get|Put)$=pool.$1"
FIELDS = "v,next"
SIG_POOL = "queue:node-recycling-stale-pointer"

# ---------------------------------------------------------------------------------- queue level


def corpus_queue_cases():
    """witness schedules (replayed first, every run)"""
    cs = []
    # W1: producer preempted between linking its node and swinging the tail; a dequeuer removes the node
    # and releases the old sentinel (next reset to nil) which the tail still designates; the next
    # Enqueue links onto that released sentinel: its value is lost.
    cs.append({"name": "W1-tail-on-released-sentinel",
               "progs": [[[0, 1]], [[1]], [[0, 2]], [[1]]],
               "sched": [0] * 6 + [1] * 9 + [2] * 8 + [0] * 2 + [3] * 3, "sticky": 50})
    # W2: dequeuer 1 wins the head CAS and is preempted before reading the value; dequeuer 2 removes the
    # next element and releases dequeuer 1's node (v reset to nil): dequeuer 1 returns nil.
    cs.append({"name": "W2-value-cleared-before-read",
               "progs": [[[0, 1], [0, 2]], [[1]], [[1]]],
               "sched": [0] * 16 + [1] * 4 + [2] * 9 + [1] * 6, "sticky": 50})
    # the same shapes on the repaired code take fewer steps; scripted prefixes are only prefixes
    # S1: stale tail local: E1 reads tail and next==nil, E2 enqueues fully, consumer dequeues E2's value,
    # E1's link CAS must fail and retry.
    cs.append({"name": "S1-stale-tail-link-cas",
               "progs": [[[0, 1]], [[0, 2]], [[1], [1]], [[1]]],
               "sched": [0] * 5 + [1] * 8 + [2] * 9 + [0] * 8 + [2] * 9 + [3] * 4, "sticky": 50})
    return cs


def gen_queue_cases(ctx, n):
    rng = ctx.rng
    cs = []
    for _ in range(n):
        nth = rng.choice([2, 2, 3, 3, 4])
        progs = []
        for t in range(nth):
            role = rng.choice(["prod", "cons", "mixed", "mixed"])
            k = rng.randint(1, 4)
            prog = []
            seq = 0
            for _ in range(k):
                r = rng.random()
                if role == "prod":
                    op = 0 if r < 0.9 else 2
                elif role == "cons":
                    op = 1 if r < 0.85 else 2
                else:
                    op = 0 if r < 0.5 else (1 if r < 0.92 else 2)
                if op == 0:
                    seq += 1
                    prog.append([0, t * 5 + seq])
                else:
                    prog.append([op])
            progs.append(prog)
        if not any(o[0] == 0 for p in progs for o in p):
            progs[0].insert(0, [0, 5])
        cs.append({"name": "gen", "progs": progs, "sched": [], "sticky": rng.choice([0, 30, 60, 85, 95])})
    return cs


def queue_oracle(case, out):
    """the property's own predicate on one controlled run; returns list of (kind, text)"""
    bad = []
    if out.get("aborted"):
        return [("abort", "run aborted: %s" % out["aborted"])]
    if out.get("panic"):
        bad.append(("panic", "a queue operation panicked"))
    enq = {}
    for t, prog in enumerate(case["progs"]):
        for op in prog:
            if op[0] == 0:
                enq[op[1]] = t
    seqs = []
    for t, prog in enumerate(case["progs"]):
        r = [x for x in out["results"][t] if x < 1000000 - 10]
        seqs.append(("thread %d" % t, [x for x in r if x != -1]))
    seqs.append(("final drain", list(out["drained"])))
    seen = {}
    for who, vals in seqs:
        last = {}
        for v in vals:
            if v not in enq:
                bad.append(("phantom", "%s dequeued %r which was never enqueued" % (who, v)))
                continue
            if v in seen:
                bad.append(("dup", "value %d dequeued twice (%s and %s)" % (v, seen[v], who)))
            seen[v] = who
            p = enq[v]
            if p in last and last[p] > v:
                bad.append(("order", "%s dequeued %d after %d (same producer, enqueued in the other order)" % (who, v, last[p])))
            last[p] = v
    lost = sorted(set(enq) - set(seen))
    if lost:
        bad.append(("lost", "enqueued values never dequeued although the queue was drained at quiescence: %s" % lost))
    # FIFO between thread results and the final drain: a value still in the queue at the end cannot
    # precede (same producer) a value some thread already dequeued
    for v in out["drained"]:
        for who, vals in seqs[:-1]:
            for w in vals:
                if w in enq and v in enq and enq[w] == enq[v] and w > v:
                    bad.append(("order", "%d was still queued at the end although the later %d of the same producer had been dequeued by %s" % (v, w, who)))
    if out["final_len"] != 0:
        bad.append(("len", "length counter is %d after the queue was drained at quiescence" % out["final_len"]))
    return bad


def coq_qop(op):
    return "OEnq %d" % op[1] if op[0] == 0 else ("ODeq" if op[0] == 1 else "OLen")


LABEL_IDX = {"LCall": 0, "LGet": 1, "LField": 2, "LLoad": 3, "LCas": 4, "LAdd": 5, "LPut": 6, "LStuck": 7}


def enc_obs(kind, contents, ln):
    """same packing as C20/Tie.v enc_obs"""
    c = 1
    for v in contents:
        c = c * 64 + (0 if v < 0 else v + 1)
    return LABEL_IDX[KIND2LABEL.get(kind, "LStuck")] + 8 * ((ln + 8) + 64 * c)


def coq_optnat(v):
    return "None" if v < 0 else "Some %d" % v


def coq_res(x):
    if x >= 1000000 - 10:
        z = x - 1000000
        return "RLen (%d)%%Z" % z
    return "RNil 0" if x == -1 else "RVal 0 %d" % x


def coq_qcase(cid, case, out):
    n = min(len(out.get("sched") or []), len(out.get("contents") or []), len(out.get("lens") or []))
    out = dict(out, sched=(out.get("sched") or [])[:n], kinds=(out.get("kinds") or [])[:n])
    progs = "[" + "; ".join("[" + "; ".join(coq_qop(o) for o in p) + "]" for p in case["progs"]) + "]"
    sc = "[" + "; ".join(str(t) for t in out["sched"]) + "]"
    es = "[" + "; ".join(str(enc_obs(k, c, ln)) for k, c, ln in zip(out["kinds"], out["contents"], out["lens"])) + "]%Z"
    er = "[" + "; ".join("[" + "; ".join(coq_res(x) for x in r) + "]" for r in out["results"]) + "]"
    return "(%d, %s, %s, %s, %s)" % (cid, progs, sc, es, er)


# ---------------------------------------------------------------------------------- stream level

def gen_stream_seq_cases(ctx, n):
    rng = ctx.rng
    cs = []
    for i in range(n):
        nt = rng.randint(1, 3)
        ops = []
        nsub = 0
        ev = 0
        length = rng.randint(6, 40)
        malformed = (i % 7 == 6)  # ops on handles that do not exist / were removed, repeated close
        for _ in range(length):
            r = rng.random()
            hi = nsub + (2 if malformed else 0)
            s = rng.randrange(hi) if hi else 0
            t = rng.randrange(nt)
            if nsub == 0 or r < 0.08:
                ops.append([0]); nsub += 1
            elif r < 0.28:
                ops.append([1, s, t])
            elif r < 0.36:
                ops.append([2, s, t])
            elif r < 0.62:
                ev += 1; ops.append([3, t, ev])
            elif r < 0.68:
                ev += 1
                ts = [rng.randrange(nt) for _ in range(rng.randint(0, 3))]
                ops.append([4, ev] + ts)
            elif r < 0.72:
                ops.append([5, s])
            elif r < 0.76:
                ops.append([6, s])
            elif r < 0.92:
                ops.append([7, s])
            elif r < 0.94:
                ops.append([8])
            else:
                ops.append([9, t])
        for s in range(nsub):
            ops.append([7, s])
        cs.append({"ntopics": nt, "ops": ops})
    return cs


def coq_sop(op):
    k = op[0]
    if k == 0:
        return "OAdd"
    if k == 1:
        return "OSub %d %d" % (op[1], op[2])
    if k == 2:
        return "OUnsub %d %d" % (op[1], op[2])
    if k == 3:
        return "OPub %d %d" % (op[1], op[2])
    if k == 4:
        return "OBcast %d [%s]" % (op[1], "; ".join(str(t) for t in op[2:]))
    if k == 5:
        return "ORemove %d" % op[1]
    if k == 6:
        return "OShutdown %d" % op[1]
    if k == 7:
        return "OIter %d" % op[1]
    if k == 8:
        return "OClose"
    return "OCount %d" % op[1]


def coq_sobs(op, o):
    if op[0] == 9:
        res = "[(%d, 0)]" % o["result"][0][0]
    else:
        res = "[" + "; ".join("(%d, %d)" % (m[0], m[1]) for m in (o["result"] or [])) + "]"
    act = "[" + "; ".join("true" if a else "false" for a in o["active"]) + "]"
    tops = "[" + "; ".join("[" + "; ".join(str(t) for t in ts) + "]" for ts in o["topics"]) + "]"
    cnt = "[" + "; ".join(str(c) for c in o["counts"]) + "]"
    return "mkSObs %s %s %s %s" % (res, act, tops, cnt)


def stream_seq_oracle(case, out):
    """exactly-once / order / no delivery to a non-subscriber, from the op sequence alone"""
    bad = []
    if out.get("panic"):
        return [("panic", "stream operation panicked: %s" % out["panic"])]
    nsub = 0
    active, member, buf = {}, {}, {}
    for op, o in zip(case["ops"], out["obs"]):
        k = op[0]
        if k == 0:
            active[nsub] = True; buf[nsub] = []; nsub += 1
        elif k == 1 and op[1] < nsub and active[op[1]]:
            member[(op[1], op[2])] = True
        elif k == 2 and op[1] < nsub:
            member[(op[1], op[2])] = False
        elif k in (3, 4):
            topics = [op[1]] if k == 3 else op[2:]
            e = op[2] if k == 3 else op[1]
            for t in topics:
                for s in range(nsub):
                    if active[s] and member.get((s, t)):
                        buf[s].append([t, e])
        elif k == 5 and op[1] < nsub:
            active[op[1]] = False
            for key in list(member):
                if key[0] == op[1]:
                    member[key] = False
        elif k == 6 and op[1] < nsub:
            active[op[1]] = False
        elif k == 7 and op[1] < nsub:
            got = o["result"] or []
            if got != buf[op[1]]:
                bad.append(("seq-delivery", "Iterator of subscriber %d returned %s, the events published to it while subscribed and active are %s" % (op[1], got, buf[op[1]])))
            buf[op[1]] = []
        elif k == 8:
            for s in range(nsub):
                active[s] = False
            member = {}
    return bad


def gen_stream_sched_cases(ctx, n):
    rng = ctx.rng
    cs = []
    for _ in range(n):
        nsubs = rng.randint(1, 3)
        nt = rng.randint(1, 2)
        init = []
        for s in range(nsubs):
            for t in range(nt):
                if rng.random() < 0.75:
                    init.append([1, s, t])
        progs = []
        npub = rng.randint(1, 3)
        for p in range(npub):
            prog = []
            for i in range(rng.randint(1, 4)):
                e = (p + 1) * 1000 + i + 1
                if rng.random() < 0.85 or nt == 1:
                    prog.append([3, rng.randrange(nt), e])
                else:
                    prog.append([4, e] + list(range(nt)))
            progs.append(prog)
        # one controller thread per run: its ops on a given subscriber are sequential
        if rng.random() < 0.6:
            prog = []
            for i in range(rng.randint(1, 4)):
                s, t = rng.randrange(nsubs), rng.randrange(nt)
                r = rng.random()
                prog.append([2, s, t] if r < 0.4 else [1, s, t] if r < 0.75 else [6, s] if r < 0.88 else [5, s])
            progs.append(prog)
        ndr = rng.choice([0, 1, 1, 2, 2])
        for d in range(ndr):
            s = rng.randrange(nsubs)
            progs.append([[7, s] for _ in range(rng.randint(1, 3))])
        post = []
        for t in range(nt):
            post += [[3, t, 9001 + t], [9, t]]
        cs.append({"name": "gen", "nsubs": nsubs, "ntopics": nt, "init": init, "progs": progs, "post": post, "sched": [],
                   "sticky": rng.choice([0, 40, 70, 90, 96])})
    return cs


def corpus_stream_sched_cases():
    cs = []
    # hand-over: the only subscriber of a topic unsubscribes while a newcomer subscribes; an event published
    # after both calls returned must reach the newcomer (and only it); the topic has exactly one subscriber
    for k, sticky in enumerate([0, 30, 50, 50, 70, 70, 85, 85, 95, 95]):
        cs.append({"name": "T3-hand-over-%d" % k, "nsubs": 2, "ntopics": 1, "init": [[1, 0, 0]],
                   "progs": [[[2, 0, 0]], [[1, 1, 0]]] if k % 2 == 0 else [[[1, 1, 0]], [[2, 0, 0]]],
                   "post": [[3, 0, 9001], [9, 0]], "sched": [], "sticky": sticky})
    # the same with a publisher running and the leaver coming back
    for k, sticky in enumerate([40, 80]):
        cs.append({"name": "T4-hand-over-and-back-%d" % k, "nsubs": 2, "ntopics": 1, "init": [[1, 0, 0]],
                   "progs": [[[2, 0, 0], [1, 0, 0]], [[1, 1, 0], [2, 1, 0], [1, 1, 0]], [[3, 0, 1001]]],
                   "post": [[3, 0, 9001], [9, 0]], "sched": [], "sticky": sticky})
    # two drainers race on one subscriber while a publisher sits between link and counter update
    cs.append({"name": "T1-two-drainers-negative-length", "nsubs": 1, "ntopics": 1, "init": [[1, 0, 0]],
               "progs": [[[3, 0, 1001], [3, 0, 1002]], [[7, 0]], [[7, 0]], [[7, 0]]],
               "post": [], "sched": [], "sticky": 90})
    # unsubscribe completes while a publisher holds a snapshot: allowed to deliver; a later publish is not
    cs.append({"name": "T2-unsubscribe-vs-snapshot", "nsubs": 2, "ntopics": 1, "init": [[1, 0, 0], [1, 1, 0]],
               "progs": [[[3, 0, 1001], [3, 0, 1002]], [[2, 0, 0]], [[3, 0, 2001]]], "post": [[3, 0, 9001], [9, 0]], "sched": [], "sticky": 60})
    return cs


def stream_sched_oracle(case, out):
    bad = []
    if out.get("aborted"):
        if "yield point" in out["aborted"]:
            # a thread blocked on a lock held by a parked thread (the scheduler cannot run nested stream locks)
            return [("blocked", "run abandoned: %s" % out["aborted"])], False
        return [("abort", "run aborted: %s" % out["aborted"])], False
    ops = out["ops"]
    nsubs = case["nsubs"]
    INF = 10 ** 9
    overlap_iter = False
    pubs = []   # (thread, index, topic, e, start, end)
    for o in ops:
        if o.get("panic"):
            bad.append(("panic", "op %s of thread %d panicked: %s" % (o["op"], o["thread"], o["panic"])))
        k = o["op"][0]
        if k == 3:
            pubs.append((o["thread"], o["index"], o["op"][1], o["op"][2], o["start"], o["end"]))
        elif k == 4:
            for t in o["op"][2:]:
                pubs.append((o["thread"], o["index"], t, o["op"][1], o["start"], o["end"]))
    published = {(p[2], p[3]): p for p in pubs}
    # membership-affecting ops per subscriber
    mops = {s: [] for s in range(nsubs)}
    for o in ops:
        k = o["op"][0]
        if k in (1, 2):
            mops[o["op"][1]].append(o)
        elif k in (5, 6):
            mops[o["op"][1]].append(o)
        elif k == 8:
            for s in range(nsubs):
                mops[s].append(o)
    delivered = {s: [] for s in range(nsubs)}  # (topic, e, iter_start, iter_end, pos)
    iters = [o for o in ops if o["op"][0] == 7]
    for o in iters:
        s = o["op"][1]
        for pos, m in enumerate(o["result"] or []):
            delivered[s].append((m[0], m[1], o["start"], o["end"], pos))
        for q in ops:
            if q is o:
                continue
            touches = (q["op"][0] == 7 and q["op"][1] == s) or q["op"][0] in (3, 4)
            if touches and not (q["end"] < o["start"] or o["end"] < q["start"]):
                overlap_iter = True
    for s in range(nsubs):
        for pos, m in enumerate(out["final"][s]):
            if m[0] == -9:
                bad.append(("panic", "Iterator of subscriber %d panicked during the final drain" % s))
                continue
            delivered[s].append((m[0], m[1], INF, INF, pos))
        if out["final_len"][s] != 0:
            bad.append(("len", "subscriber %d: Length() = %d after its queue was drained at quiescence" % (s, out["final_len"][s])))
    for s in range(nsubs):
        seen = {}
        for d in delivered[s]:
            key = (d[0], d[1])
            if key not in published:
                bad.append(("phantom", "subscriber %d received %s which was never published" % (s, list(key))))
                continue
            if key in seen:
                bad.append(("dup", "subscriber %d received event %d on topic %d twice" % (s, d[1], d[0])))
            seen[key] = d
        # per-publisher order
        by_pub = {}
        for key, d in seen.items():
            p = published[key]
            by_pub.setdefault(p[0], []).append((p[1], key[0], d))
        for pth, lst in by_pub.items():
            lst.sort(key=lambda x: (x[0], x[1]))
            for a in lst:
                for b in lst:
                    if a[0] < b[0]:  # a published (whole op) before b by the same thread
                        da, db = a[2], b[2]
                        if (da[2], da[3]) == (db[2], db[3]):
                            if db[4] < da[4]:
                                bad.append(("order", "subscriber %d got event %d before event %d of the same publisher (published in the other order)" % (s, db[1], da[1])))
                        elif db[3] < da[2]:
                            bad.append(("order", "subscriber %d: event %d was drained by an Iterator call that ended before the call that drained the earlier event %d began" % (s, db[1], da[1])))
        # must / must-not deliver
        ms = sorted(mops[s], key=lambda o: o["start"])
        serial = all(ms[i]["end"] < ms[i + 1]["start"] for i in range(len(ms) - 1))
        for key, p in published.items():
            t, e, ps, pe = p[2], p[3], p[4], p[5]
            if not serial or any(not (m["end"] < ps or pe < m["start"]) for m in ms):
                continue  # a membership change is concurrent with this publish: either outcome is allowed
            member = [1, s, t] in case["init"]
            active = True
            for m in ms:
                if m["end"] < ps:
                    k = m["op"][0]
                    if k == 1 and m["op"][2] == t and active:
                        member = True
                    elif k == 2 and m["op"][2] == t:
                        member = False
                    elif k in (5, 6, 8):
                        active = False
                        if k in (5, 8):
                            member = False
            if member and active and key not in seen:
                bad.append(("lost", "event %d published on topic %d while subscriber %d was subscribed and active was never delivered to it" % (e, t, s)))
            if (not member or not active) and key in seen:
                bad.append(("stray", "event %d on topic %d was delivered to subscriber %d although it was %s before the publish began" % (e, t, s, "not subscribed" if not member else "shut down")))
    # SubscribersCount asked after everything had returned
    for o in ops:
        if o["op"][0] != 9 or o["thread"] != -1 or not o.get("result"):
            continue
        t = o["op"][1]
        expect, known = 0, True
        for s in range(nsubs):
            ms = sorted(mops[s], key=lambda m: m["start"])
            if not all(ms[i]["end"] < ms[i + 1]["start"] for i in range(len(ms) - 1)):
                known = False
                break
            member = [1, s, t] in case["init"]
            active = True
            for m in ms:
                k = m["op"][0]
                if k == 1 and m["op"][2] == t and active:
                    member = True
                elif k == 2 and m["op"][2] == t:
                    member = False
                elif k in (5, 8):
                    member, active = False, False
                elif k == 6:
                    active = False
            expect += 1 if member else 0
        if known and o["result"][0][0] != expect:
            bad.append(("count", "SubscribersCount(topic %d) = %d after all Subscribe/Unsubscribe calls had returned; %d subscribers are subscribed" % (t, o["result"][0][0], expect)))
    return bad, overlap_iter


def stress_stream_oracle(rnd):
    bad = []
    if rnd.get("hang"):
        return [("hang", "a Publish or Iterator call never returned (goroutine spinning inside the subscriber's queue)")]
    if rnd.get("panic"):
        bad.append(("panic", "panic during stress: %s" % rnd["panic"]))
    evs = rnd["events"]
    pubs = {e["ev"]: e for e in evs if e["kind"] == "pub"}
    nsub = len(rnd["final"])
    for s in range(nsub):
        if rnd["final_len"][s] != 0:
            bad.append(("len", "subscriber %d: Length() = %d after drain at quiescence" % (s, rnd["final_len"][s])))
        its = [e for e in evs if e["kind"] == "iter" and e["who"] == s]
        mem = sorted([e for e in evs if e["kind"] in ("sub", "unsub") and e["who"] == s], key=lambda e: e["t0"])
        seen = {}
        seqs = [(e["t0"], e["t1"], [m[1] for m in e["got"]]) for e in its] + [(10 ** 18, 10 ** 18, [m[1] for m in rnd["final"][s]])]
        for t0, t1, got in seqs:
            last = {}
            for pos, ev in enumerate(got):
                if ev not in pubs:
                    bad.append(("phantom", "subscriber %d received %r never published" % (s, ev)))
                    continue
                if ev in seen:
                    bad.append(("dup", "subscriber %d received event %d twice" % (s, ev)))
                seen[ev] = (t0, t1, pos)
                p = ev // 1000000
                if p in last and last[p] > ev:
                    bad.append(("order", "subscriber %d: one Iterator returned event %d after the later event %d of the same publisher" % (s, ev, last[p])))
                last[p] = ev
        # order across Iterator calls of the same drainer / sequential calls
        bypub = {}
        for ev, w in seen.items():
            bypub.setdefault(ev // 1000000, []).append((ev, w))
        for p, lst in bypub.items():
            lst.sort()
            for (a, wa), (b, wb) in zip(lst, lst[1:]):
                if wb[1] < wa[0]:
                    bad.append(("order", "subscriber %d: event %d drained by a call that ended before the call draining the earlier event %d began" % (s, b, a)))
        for ev, pe in pubs.items():
            # membership at publish time: initial subscribe to topic 0, then the toggles
            overl = [m for m in mem if not (m["t1"] < pe["t0"] or pe["t1"] < m["t0"])]
            if overl:
                continue
            before = [m for m in mem if m["t1"] < pe["t0"]]
            member = (before[-1]["kind"] == "sub") if before else True
            if member and ev not in seen:
                bad.append(("lost", "event %d published while subscriber %d was subscribed was never delivered" % (ev, s)))
            if not member and ev in seen:
                bad.append(("stray", "event %d delivered to subscriber %d although it had unsubscribed before the publish began" % (ev, s)))
        if len(bad) > 20:
            break
    return bad


def stress_queue_oracle(r):
    bad = []
    if r.get("hang"):
        return [("hang", "an Enqueue or Dequeue call never returned (goroutine spinning inside the queue)")]
    seen = {}
    np_, per = r["producers"], r["per_producer"]
    for who, vals in [("consumer %d" % i, g or []) for i, g in enumerate(r["got"])] + [("final drain", r["drained"] or [])]:
        last = {}
        for v in vals:
            p, i = v // 1000000, v % 1000000
            if v < 0 or p >= np_ or i >= per:
                bad.append(("phantom", "%s dequeued %r" % (who, v)))
                continue
            if v in seen:
                bad.append(("dup", "value %d dequeued twice" % v))
            seen[v] = who
            if p in last and last[p] > v:
                bad.append(("order", "%s dequeued %d after %d of the same producer" % (who, v, last[p])))
            last[p] = v
    missing = np_ * per - len(seen)
    if missing > 0:
        bad.append(("lost", "%d of %d enqueued values were never dequeued" % (missing, np_ * per)))
    if r["final_len"] != 0:
        bad.append(("len", "length counter %d at quiescence after drain" % r["final_len"]))
    return bad[:10]


# ---------------------------------------------------------------------------------- the check

def coq_eval_noglob(ctx, name, body, timeout=900):
    d = os.path.join(ctx.work, "coq")
    os.makedirs(d, exist_ok=True)
    p = os.path.join(d, name + ".v")
    open(p, "w").write(body)
    return vlib.sh(["coqc", "-noglob", "-Q", os.path.join(vlib.COQ, "theories"), "GV", "-Q", d, "Scratch", p], cwd=d, timeout=timeout)


def run(ctx):
    ctx.trusted += ["tools/vinstr (inserts yield points before atomic/pool/item-field statements of the current queue.go; compiled in through go test -overlay)",
                    "the controlled scheduler in go/inpkg/*/zz_verif_C20_test.go (one logical thread runs at a time)",
                    "Go memory model: sync/atomic operations are sequentially consistent; sync.Pool.Get may return any pooled or a new item",
                    "sync.RWMutex / sync.Mutex critical sections of eventstream are atomic steps of the stream model"]
    ctx.assumptions += ["item fields are only accessed by the statements of queue.go (the instrumenter places a yield point before each)",
                        "stream-level theorems treat a subscriber's queue as an atomic FIFO; that is what the queue-level theorem proves for the non-recycling queue"]
    thorough = ctx.thorough
    n_q = 3000 if thorough else 400
    n_seq = 1500 if thorough else 200
    n_t = 2500 if thorough else 300
    rounds = 150 if thorough else 40

    inst, msg = sched_util.instrument(ctx, "internal/queue/queue.go", "queue_instr.go", RULES, FIELDS)
    if inst is None:
        ctx.tie_broken("vinstr internal/queue/queue.go", msg)
        ctx.coverage.update({"evaluations": 0, "distinct_nontrivial": 0})
        return
    npoints = int(re.search(r"(\d+) points", msg).group(1)) if re.search(r"(\d+) points", msg) else 0
    # eventstream.go: a yield point before every acquisition of a stream lock (a parked thread holds none)
    inst_es, msg_es = sched_util.instrument(ctx, "eventstream/eventstream.go", "eventstream_instr.go",
                                            r"Mu\.(Lock|RLock)$=$1", hook="verifESPoint")
    if inst_es is None:
        ctx.tie_broken("vinstr eventstream/eventstream.go", msg_es)
        ctx.coverage.update({"evaluations": 0, "distinct_nontrivial": 0})
        return

    qcases = corpus_queue_cases() + gen_queue_cases(ctx, n_q)
    for i, c in enumerate(qcases):
        c.update({"id": i, "seed": ctx.rng.getrandbits(32), "maxsteps": 600})
    scases = gen_stream_seq_cases(ctx, n_seq)
    for i, c in enumerate(scases):
        c.update({"id": i})
    tcases = corpus_stream_sched_cases() + gen_stream_sched_cases(ctx, n_t)
    for i, c in enumerate(tcases):
        c.update({"id": i, "seed": ctx.rng.getrandbits(32), "maxsteps": 1500})

    def dump(name, rows):
        with open(os.path.join(ctx.work, name), "w") as f:
            for r in rows:
                f.write(json.dumps(r) + "\n")
    dump("c20_q_in.jsonl", qcases)
    dump("c20_s_in.jsonl", scases)
    dump("c20_t_in.jsonl", tcases)
    for fn in ("c20_q_out.jsonl", "c20_s_out.jsonl", "c20_t_out.jsonl", "c20_q_stress.jsonl", "c20_stress.jsonl", "c20_handover.jsonl"):
        p = os.path.join(ctx.work, fn)
        if os.path.exists(p):
            os.remove(p)

    rc_go, out_go = sched_util.go_test_overlay(
        ctx, ["internal/queue", "eventstream"], "^TestVerifC20",
        {"internal/queue": ["zz_verif_hook.go", "zz_verif_C20_test.go"], "eventstream": ["zz_verif_hook.go", "zz_verif_C20_test.go"]},
        {"internal/queue/queue.go": inst, "eventstream/eventstream.go": inst_es}, env={"VERIF_C20_ROUNDS": str(rounds), "VERIF_C20_HANDOVER": "20000" if thorough else "3000"}, timeout=1200 if thorough else 420)
    ctx.log("go harness done rc=%d" % rc_go)
    qouts = read_jsonl(os.path.join(ctx.work, "c20_q_out.jsonl"))
    souts = read_jsonl(os.path.join(ctx.work, "c20_s_out.jsonl"))
    touts = read_jsonl(os.path.join(ctx.work, "c20_t_out.jsonl"))
    qstress = read_jsonl(os.path.join(ctx.work, "c20_q_stress.jsonl"))
    sstress = read_jsonl(os.path.join(ctx.work, "c20_stress.jsonl"))
    handover = read_jsonl(os.path.join(ctx.work, "c20_handover.jsonl"))
    if rc_go != 0 or len(qouts) != len(qcases) or len(souts) != len(scases) or len(touts) != len(tcases):
        ctx.tie_broken("go-harness internal/queue + eventstream (instrumented build or run failed)", out_go)
    if thorough:
        os.makedirs(os.path.join(ctx.work, "race"), exist_ok=True)
        rc_r, out_r = sched_util.go_test_overlay(
            ctx, ["internal/queue", "eventstream"], "^TestVerifC20.*Stress",
            {"internal/queue": ["zz_verif_hook.go", "zz_verif_C20_test.go"], "eventstream": ["zz_verif_hook.go", "zz_verif_C20_test.go"]},
            {"internal/queue/queue.go": inst, "eventstream/eventstream.go": inst_es}, env={"VERIF_C20_ROUNDS": "40", "VERIF_OUT": os.path.join(ctx.work, "race")},
            timeout=900, race=True, name="overlay_race.json")
        if rc_r != 0 and "DATA RACE" in out_r:
            ctx.notes.append("-race reports a data race in the stress run (supporting evidence only): " + out_r[out_r.find("DATA RACE"):][:600])

    # which shape of the queue is this tree? (decided by behaviour: does a dequeue hand its node to a pool)
    recycles = any("pool.Put" in o["kinds"] or "pool.Get" in o["kinds"] for o in qouts)
    ctx.notes.append("queue shape detected from the run: %s" % ("nodes recycled through sync.Pool" if recycles else "no node recycling"))

    # ---------------- model conformance (queue level) ----------------
    hazard_ids, bad_steps, bad_res = set(), [], []
    coq_ok = False
    good = [(c, o) for c, o in zip(qcases, qouts)]
    aborted_ids = {c["id"] for c, o in good if o.get("aborted")}
    if good:
        body = ["From Coq Require Import List ZArith Bool. Import ListNotations.",
                "From GV Require Import C20.Model C20.Stream C20.Tie.",
                "Definition qcs : list qcase := ["]
        body.append(";\n".join(coq_qcase(c["id"], c, o) for c, o in good))
        body.append("].")
        body.append("Definition scs : list scase := [")
        srows = []
        for c, o in zip(scases, souts):
            if o.get("panic") or len(o["obs"]) != len(c["ops"]):
                continue
            srows.append("(%d, %d, [%s], [%s])" % (c["id"], c["ntopics"], "; ".join(coq_sop(op) for op in c["ops"]),
                                                    "; ".join(coq_sobs(op, ob) for op, ob in zip(c["ops"], o["obs"]))))
        body.append(";\n".join(srows))
        body.append("].")
        body.append("Eval vm_compute in (check_cases %s qcs, check_scases scs)." % ("true" if recycles else "false"))
        ctx.log("evaluating the Coq model on %d queue schedules and %d stream sequences" % (len(good), len(srows)))
        rc2, o2 = coq_eval_noglob(ctx, "cases_C20", "\n".join(body))
        ctx.log("coq eval done rc=%d" % rc2)
        flat = " ".join(o2.split())
        m = re.search(r"= \((\d+), (\[.*?\]), (\[.*?\]), (\[.*?\]), \((\d+), (\[.*?\])\)\)", flat)
        if rc2 != 0 or not m:
            ctx.tie_broken("cases_C20.v did not evaluate", o2[-3000:])
        else:
            coq_ok = True
            bad_steps = [(int(a), int(b)) for a, b in re.findall(r"\((\d+), (\d+)\)", m.group(2))]
            hazard_ids = {int(x) for x in re.findall(r"\d+", m.group(3))}
            bad_res = [int(x) for x in re.findall(r"\d+", m.group(4)) if int(x) not in aborted_ids]
            sbad = [(int(a), int(b)) for a, b in re.findall(r"\((\d+), (\d+)\)", m.group(6))]
            n_s_eval = int(m.group(5))
            if bad_steps or bad_res:
                first = bad_steps[0] if bad_steps else (bad_res[0], -1)
                c, o = qcases[first[0]], qouts[first[0]]
                ctx.tie_broken("queue model vs implementation (atomic-step trace)",
                               {"case": c, "diverges_at_step": first[1], "impl_kinds": o["kinds"][max(0, first[1] - 3):first[1] + 2],
                                "impl_contents": o["contents"][max(0, first[1] - 1):first[1] + 1], "impl_results": o["results"],
                                "n_step_mismatch_cases": len(bad_steps), "n_result_mismatch_cases": len(bad_res)})
            if sbad:
                cid, idx = sbad[0]
                ctx.tie_broken("stream model vs implementation (sequential ops)",
                               {"ops": scases[cid]["ops"][:idx + 1], "impl_obs_at_divergence": souts[cid]["obs"][idx], "n_cases": len(sbad)})

    # ---------------- property oracle ----------------
    n_known = 0
    reported = set()

    def report(sig, what, replay, attributable):
        nonlocal n_known
        if attributable and recycles:
            n_known += 1
            if SIG_POOL not in reported:
                reported.add(SIG_POOL)
                ctx.violation(SIG_POOL, what, replay)
            return
        if sig in reported or len(reported) >= 6:
            return
        reported.add(sig)
        ctx.violation(sig, what, replay)

    q_viol = 0
    for c, o in zip(qcases, qouts):
        bad = queue_oracle(c, o)
        if not bad:
            continue
        q_viol += 1
        kind, text = bad[0]
        attributable = c["id"] in hazard_ids and kind in ("lost", "dup", "order", "len", "phantom", "abort")
        sch = o.get("sched") or []
        report("queue:%s" % kind, "internal/queue under schedule %s%s of programs %s: %s" % (sch[:80], "..." if len(sch) > 80 else "", c["progs"], text),
               {"level": "internal/queue controlled schedule", "programs([0,v]=Enqueue v,[1]=Dequeue,[2]=Length)": c["progs"],
                "schedule(thread ids, one atomic step each)": o.get("sched"), "step_kinds": o.get("kinds"), "results": o.get("results"),
                "drained_at_end": o.get("drained"), "final_len": o.get("final_len"), "all_findings": bad[:5],
                "model_says_recycled_node_was_used": c["id"] in hazard_ids}, attributable)
    for c, o in zip(scases, souts):
        for kind, text in stream_seq_oracle(c, o)[:1]:
            report("stream-seq:%s" % kind, text, {"level": "eventstream sequential", "ops": c["ops"]}, False)
    t_viol = 0
    n_blocked = 0
    lock_shape = {}
    for c, o in zip(tcases, touts):
        for op in o.get("ops") or []:
            if op["op"][0] in (1, 2) and op["thread"] >= 0 and not op.get("panic"):
                lock_shape.setdefault(op["op"][0], {}).setdefault(tuple(op.get("locks") or []), op)
        bad, overl = stream_sched_oracle(c, o)
        if not bad:
            continue
        if bad[0][0] == "blocked":
            n_blocked += 1
            continue
        t_viol += 1
        kind, text = bad[0]
        attributable = overl and kind in ("lost", "dup", "order", "len", "panic")
        report("stream:%s" % kind, "eventstream under a controlled schedule: %s" % text,
               {"level": "eventstream controlled schedule", "subscribers": c["nsubs"], "initial_subscriptions": c["init"],
                "programs(1 sub s t,2 unsub s t,3 pub t e,4 bcast e ts,5 remove s,6 shutdown s,7 iter s)": c["progs"],
                "schedule": o.get("sched"), "ops": o.get("ops"), "final": o.get("final"), "all_findings": bad[:5]}, attributable)
    if n_blocked:
        ctx.notes.append("%d controlled eventstream runs were abandoned because a thread blocked on a stream lock held by a parked thread (nested stream locks cannot be scheduled); not counted" % n_blocked)
        if n_blocked > len(touts) // 3:
            ctx.tie_broken("eventstream controlled scheduler: most runs blocked on nested stream locks", {"blocked": n_blocked, "of": len(touts)})
    # the stream model takes Subscribe's / Unsubscribe's update of the topic map as ONE atomic step:
    # an active subscriber's call must enter exactly one critical section of topicsMu
    for kind_no, name in ((1, "Subscribe"), (2, "Unsubscribe")):
        shapes = {k: v for k, v in lock_shape.get(kind_no, {}).items() if len(k) != 1}
        # Subscribe on an inactive subscriber returns before touching the map (no lock): allowed
        shapes = {k: v for k, v in shapes.items() if not (kind_no == 1 and len(k) == 0)}
        if shapes:
            k, op = next(iter(shapes.items()))
            ctx.tie_broken("stream model vs implementation: %s is not one critical section" % name,
                           {"lock_acquisitions_of_one_call": list(k), "op": op["op"],
                            "model": "C20/Stream.v takes the topic-map update of %s as the single atomic step %s" % (name, "SMapAdd" if kind_no == 1 else "SMapDel")})
    for h in handover:
        if h["lost"] or h["stray"] or h["bad_count"] or h["dup"]:
            report("stream-handover", "eventstream hand-over (real goroutines): the only subscriber of a topic unsubscribes while a newcomer subscribes, then one event is published: in %d of %d rounds the newcomer did not receive it, %d strays, %d wrong SubscribersCount (first bad round %d)" %
                   (h["lost"], h["rounds"], h["stray"], h["bad_count"], h["first_bad"]), {"level": "eventstream hand-over stress", "result": h}, False)
    for r in qstress:
        for kind, text in stress_queue_oracle(r)[:1]:
            report("queue-stress:%s" % kind, "internal/queue with %d producers and %d consumers (real goroutines): %s" % (r["producers"], r["consumers"], text),
                   {"level": "internal/queue stress", "producers": r["producers"], "consumers": r["consumers"], "per_producer": r["per_producer"]}, True)
    for r in sstress:
        for kind, text in stress_stream_oracle(r)[:1]:
            report("stream-stress:%s" % kind, "eventstream stress (real goroutines): %s" % text, {"level": "eventstream stress", "round": r["round"]}, kind != "stray")

    # the witness schedules must keep their documented outcome on a recycling queue (else the finding is stale)
    if recycles and qouts:
        w1 = queue_oracle(qcases[0], qouts[0])
        if not any(k == "lost" for k, _ in w1):
            ctx.notes.append("W1 no longer loses a value on this tree although nodes are still pooled")

    # ---------------- the theorems ----------------
    ctx.log("oracles done; building Properties/C20.vo")
    if not ctx.coq_property():
        if not any(f.kind == "violation" for f in ctx.findings):
            ctx.proof_broken("Properties/C20.v (%s)" % getattr(ctx, "failed_at", "?"), getattr(ctx, "coq_log", ""))
        else:
            ctx.notes.append("Coq obligation broken at %s; concrete failing input reported" % getattr(ctx, "failed_at", "?"))

    # ---------------- coverage ----------------
    def nontrivial_q(c, o):
        ths = {t for t in o.get("sched", [])}
        switches = sum(1 for a, b in zip(o.get("sched", []), o.get("sched", [])[1:]) if a != b)
        return len(ths) >= 2 and switches >= 2
    dq = {canon_hash([c["progs"], o.get("sched")]) for c, o in zip(qcases, qouts) if nontrivial_q(c, o)}
    dt = {canon_hash([c["progs"], o.get("sched")]) for c, o in zip(tcases, touts) if nontrivial_q(c, o)}
    ds = {canon_hash(c["ops"]) for c in scases if any(op[0] in (3, 4) for op in c["ops"]) and any(op[0] == 7 for op in c["ops"])}
    steps = sum(len(o.get("sched", [])) for o in qouts) + sum(len(o.get("sched", [])) for o in touts)
    kinds = {}
    for o in qouts:
        for k in o.get("kinds", []):
            kinds[k] = kinds.get(k, 0) + 1
    ctx.coverage.update({
        "evaluations": len(qouts) + len(souts) + len(touts) + len(qstress) + len(sstress),
        "distinct_nontrivial": len(dq) + len(dt) + len(ds),
        "rule": "queue/stream controlled runs: seeded random programs (2-4 threads, 1-4 ops) x seeded schedules with stickiness 0..96% plus scripted witness schedules; non-trivial = at least two threads interleave with >= 2 context switches, distinct by (programs, schedule actually taken). sequential stream cases: seeded op sequences incl. a malformed stream (unknown handles, ops after remove/close); non-trivial = publishes and drains present, distinct by op list",
        "samples": [{"queue_case": qcases[0]["progs"], "sched": qouts[0]["sched"] if qouts else None},
                    {"queue_case": qcases[-1]["progs"], "sched": qouts[-1]["sched"][:40] if qouts else None},
                    {"stream_seq_ops": scases[0]["ops"][:12]}, {"stream_sched_progs": tcases[-1]["progs"]}],
        "atomic_steps_replayed_through_model": sum(len(o.get("sched", [])) for _, o in good) if coq_ok else 0,
        "atomic_steps_total": steps, "yield_points_in_queue_go": npoints, "step_kind_histogram": kinds,
        "queue_cases": len(qouts), "queue_cases_where_model_flags_recycled_node_use": len(hazard_ids),
        "queue_cases_violating": q_viol, "stream_seq_cases": len(souts), "stream_sched_cases": len(touts),
        "stream_sched_cases_violating": t_viol, "stream_sched_cases_blocked": n_blocked, "stress_rounds": len(qstress) + len(sstress),
        "handover_rounds": sum(h["rounds"] for h in handover), "yield_points_in_eventstream_go": int(re.search(r"(\d+) points", msg_es).group(1)) if re.search(r"(\d+) points", msg_es) else 0,
        "violations_attributed_to_node_recycling": n_known, "queue_recycles_nodes": recycles,
        "theorems": THEOREMS,
    })


THEOREMS = ["C20_pool_aba_refuted", "C20_pool_value_cleared_refuted", "C20_queue_fifo_partial", "C20_queue_results_partial",
            "C20_queue_exactly_once_partial", "C20_queue_empty_partial", "C20_queue_producer_order_partial",
            "C20_stream_publish_order", "C20_stream_at_most_once", "C20_stream_delivered", "C20_stream_only_subscribers",
            "C20_stream_unsubscribed_stays_out"]

META = {
    "ready": True,
    "category": "proof",
    "technique": "Rocq proof over a hand-written atomic-step model + trace conformance of the instrumented real code under a controlled scheduler + independent oracle",
    "text": "internal/queue (Michael-Scott queue) modelled at atomic-step granularity with and without sync.Pool node recycling; event stream modelled at critical-section granularity.",
    "design_ref": "DESIGN.md 7/C20",
    "level_note": "Trusted: Coq kernel, vinstr instrumenter + controlled scheduler, Go memory model for sync/atomic, mutex critical sections as atomic steps.",
}
