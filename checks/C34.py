"""C34 — membership events are emitted once and only after rebalancing settles.

Proof: Properties/C34.v over the hand-written model C34/Model.v (the eventsLock-guarded tracker of
       internal/cluster/cluster.go as step : st -> ev -> st * list emitted).
Tie:   the real handleClusterEvent is fed the JSON payloads olric publishes (and emitOverdueNodeLeft is called
       for the safety-net timer) in-package; after EVERY notification all tracker fields (both filters, both
       timestamp maps, both epoch maps, latest epochs, start/complete seen sets) and the drained event channel
       are compared with the Coq model evaluated by vm_compute on the same histories.
Oracle (independent of the model): the property's sentence executed over the flattened trace of notifications
       and emitted events.
The model has a flag for the self-filter on node-left notifications; a probe history decides which variant
the tree implements (the unfiltered one reports the local node's own departure: see the finding).
"""
import json
import os
import re

from vlib import read_jsonl, canon_hash
from chunk_eval import coq_eval_chunks

JOIN, LEFT, RSTART, RCOMP, TIMEOUT, JUNK = 0, 1, 2, 3, 4, 5
EVN = ["Join", "Left", "RebStart", "RebComplete", "LeftTimeout", "Junk"]
RLEFT, RJOIN, ROTHER = 0, 1, 2
SELF = 1


def pretty(e):
    code, n, ep, r, t = e
    if code == JOIN:
        return "Join node%d t=%d" % (n, t)
    if code == LEFT:
        return "Left node%d t=%d" % (n, t)
    if code == RSTART:
        return "RebStart epoch=%d reason=%s node%d" % (ep, ["node-left", "node-join", "other"][r], n)
    if code == RCOMP:
        return "RebComplete epoch=%d" % ep
    if code == TIMEOUT:
        return "LeftTimeout node%d" % n
    return "Junk payload #%d" % ep


def gen_structured(rng, n_nodes, n_epochs, length):
    """mostly-valid stream: departures/arrivals each followed (eventually) by their rebalance start/complete,
    with duplicates, local reorderings and timeouts sprinkled in"""
    evs = []
    t = [1_000_000]
    epoch = [0]
    pendq = []

    def ts():
        t[0] += rng.choice([1, 1000, 1_000_000, 2_500_000])
        return t[0]

    nodes = list(range(1, n_nodes + 1))
    while len(evs) + len(pendq) < length:
        n = rng.choice(nodes)
        kind = rng.random()
        if epoch[0] >= n_epochs:
            epoch[0] = rng.randint(0, n_epochs)
        if kind < 0.45:
            epoch[0] += 1
            e = epoch[0]
            block = [[LEFT, n, 0, 0, ts()], [RSTART, n, e, RLEFT, ts()], [RCOMP, 0, e, 0, ts()]]
        elif kind < 0.85:
            epoch[0] += 1
            e = epoch[0]
            block = [[JOIN, n, 0, 0, ts()], [RSTART, n, e, RJOIN, ts()], [RCOMP, 0, e, 0, ts()]]
        elif kind < 0.93:
            block = [[LEFT, n, 0, 0, ts()], [TIMEOUT, n, 0, 0, 0]]
        else:
            block = [[RSTART, n, rng.randint(0, n_epochs), ROTHER, ts()], [JUNK, 0, rng.randint(0, 5), 0, 0]]
        r = rng.random()
        if r < 0.25:
            block = block + [list(rng.choice(block))]          # duplicate delivery
        if r > 0.7 and len(block) > 1:
            i = rng.randrange(len(block) - 1)
            block[i], block[i + 1] = block[i + 1], block[i]    # local reordering
        if rng.random() < 0.2 and len(block) > 2:
            pendq.append(block.pop())                           # completion arrives much later (or never)
        evs += block
        if pendq and rng.random() < 0.3:
            evs.append(pendq.pop(0))
        if rng.random() < 0.1:
            evs.append([TIMEOUT, rng.choice(nodes), 0, 0, 0])
    evs += pendq
    return evs[:length + 5]


def gen_random(rng, n_nodes, n_epochs, length):
    evs = []
    t = 1_000_000
    for _ in range(length):
        t += rng.choice([1, 999, 1_000_000, 3_000_001])
        c = rng.choice([JOIN, JOIN, LEFT, LEFT, RSTART, RSTART, RCOMP, RCOMP, TIMEOUT, JUNK])
        n = rng.randint(1, n_nodes)
        e = rng.randint(0, n_epochs)
        r = rng.choice([RLEFT, RLEFT, RJOIN, RJOIN, ROTHER])
        evs.append([c, n if c != RCOMP else 0, e if c in (RSTART, RCOMP, JUNK) else 0, r if c == RSTART else 0, t if c not in (TIMEOUT, JUNK) else 0])
    return evs


def corpus_cases():
    L, J, S, C, T = LEFT, JOIN, RSTART, RCOMP, TIMEOUT
    ms = 1_000_000
    out = []
    # leave -> join -> leave again -> join again of one peer, each with its epoch
    out.append([[J, 2, 0, 0, 1 * ms], [S, 2, 1, RJOIN, 2 * ms], [C, 0, 1, 0, 3 * ms], [L, 2, 0, 0, 4 * ms], [S, 2, 2, RLEFT, 5 * ms], [C, 0, 2, 0, 6 * ms],
                [J, 2, 0, 0, 7 * ms], [S, 2, 3, RJOIN, 8 * ms], [C, 0, 3, 0, 9 * ms], [L, 2, 0, 0, 10 * ms], [S, 2, 4, RLEFT, 11 * ms], [C, 0, 4, 0, 12 * ms],
                [J, 2, 0, 0, 13 * ms], [S, 2, 5, RJOIN, 14 * ms], [C, 0, 5, 0, 15 * ms]])
    # complete before start; start before the notification; duplicates of everything
    out.append([[C, 0, 1, 0, 1 * ms], [S, 3, 1, RLEFT, 2 * ms], [L, 3, 0, 0, 3 * ms], [L, 3, 0, 0, 4 * ms], [C, 0, 1, 0, 5 * ms], [S, 3, 1, RLEFT, 6 * ms], [T, 3, 0, 0, 0]])
    # superseded epoch: departure assigned to epoch 1, epoch 2 starts, epoch 1 completes (must not emit), then 2 completes
    out.append([[L, 2, 0, 0, 1 * ms], [S, 2, 1, RLEFT, 2 * ms], [L, 3, 0, 0, 3 * ms], [S, 3, 2, RLEFT, 4 * ms], [C, 0, 1, 0, 5 * ms], [C, 0, 2, 0, 6 * ms]])
    # timeout first, then the epoch completes: no second NodeLeft
    out.append([[L, 2, 0, 0, 1 * ms], [S, 2, 1, RLEFT, 2 * ms], [T, 2, 0, 0, 0], [C, 0, 1, 0, 3 * ms], [T, 2, 0, 0, 0], [L, 2, 0, 0, 4 * ms], [T, 2, 0, 0, 0]])
    # pending join overtaken by a departure of the same node; both settle in one completion
    out.append([[J, 2, 0, 0, 1 * ms], [L, 2, 0, 0, 2 * ms], [S, 2, 7, RLEFT, 3 * ms], [S, 2, 7, RJOIN, 4 * ms], [S, 2, 8, RJOIN, 5 * ms], [C, 0, 7, 0, 6 * ms], [C, 0, 8, 0, 7 * ms], [J, 2, 0, 0, 8 * ms]])
    # the local node: join notifications and join-reason rebalances about itself are ignored
    out.append([[J, SELF, 0, 0, 1 * ms], [S, SELF, 1, RJOIN, 2 * ms], [C, 0, 1, 0, 3 * ms], [J, 2, 0, 0, 4 * ms], [S, SELF, 2, RJOIN, 5 * ms], [S, 2, 2, RJOIN, 6 * ms], [C, 0, 2, 0, 7 * ms]])
    # epoch 0 is the "none yet" sentinel of the latest-epoch fields
    out.append([[L, 2, 0, 0, 1 * ms], [S, 2, 0, RLEFT, 2 * ms], [C, 0, 0, 0, 3 * ms], [L, 3, 0, 0, 4 * ms], [J, 4, 0, 0, 5 * ms], [S, 4, 0, RJOIN, 6 * ms], [T, 3, 0, 0, 0]])
    return out


PROBE = [[LEFT, SELF, 0, 0, 5_000_000], [TIMEOUT, SELF, 0, 0, 0]]


def gen_cases(ctx):
    rng = ctx.rng
    cases = [{"evs": PROBE, "profile": "probe"}]
    cases += [{"evs": e, "profile": "corpus"} for e in corpus_cases()]
    plan = [("structured", 110, 60), ("random", 90, 50), ("selfheavy", 30, 40)]
    if ctx.thorough:
        plan = [(p, n * 9, l) for p, n, l in plan]
    for profile, n, length in plan:
        for _ in range(n):
            nn, ne = rng.randint(2, 4), rng.randint(1, 4)
            ln = rng.randint(length // 3, length)
            if profile == "structured":
                evs = gen_structured(rng, nn, ne + 2, ln)
            elif profile == "random":
                evs = gen_random(rng, nn, ne, ln)
            else:
                evs = gen_random(rng, 2, ne, ln)  # two nodes: half of everything is about the local node
            cases.append({"evs": evs, "profile": profile})
    for i, c in enumerate(cases):
        c["id"] = i
        c["self"] = SELF
    return cases


def oracle_case(c, o):
    """the property's sentence over the flattened trace. returns list of (signature, step, message)"""
    found = []
    joined_armed, left_armed = {}, {}
    left_seen, join_seen = {}, {}
    started, completed = set(), set()
    latest_left = None
    k = -1
    for e, st in zip(c["evs"], o["steps"]):
        k += 1
        code, n, ep, r, t = e
        if st.get("bad"):
            found.append(("handler:payload", k, st["bad"]))
        if code == JUNK:
            continue
        if code == JOIN:
            left_armed[n] = False
            join_seen.setdefault(n, []).append(t // 1_000_000)
        elif code == LEFT:
            joined_armed[n] = False
            left_seen.setdefault(n, []).append(t // 1_000_000)
        elif code == RSTART:
            if r in (RLEFT, RJOIN) and not (r == RJOIN and n == SELF) and ep not in started:
                started.add(ep)
                if r == RLEFT:
                    latest_left = ep
        elif code == RCOMP:
            completed.add(ep)
        for em in st["out"]:
            m = em["node"]
            if em["type"] == "joined":
                if m == SELF:
                    found.append(("self-reported:NodeJoined", k, "NodeJoined emitted for the local node"))
                if joined_armed.get(m):
                    found.append(("duplicate:NodeJoined", k, "second NodeJoined for node%d with no departure notification or NodeLeft in between" % m))
                if em["ms"] not in join_seen.get(m, []):
                    found.append(("spurious:NodeJoined", k, "NodeJoined for node%d (timestamp %d ms) without such a join notification" % (m, em["ms"])))
                joined_armed[m] = True
                left_armed[m] = False
            elif em["type"] == "left":
                if m == SELF:
                    found.append(("trackNodeLeftEvent:self-departure-reported", k, "NodeLeft emitted for the local node itself"))
                if left_armed.get(m):
                    found.append(("duplicate:NodeLeft", k, "second NodeLeft for node%d with no arrival notification or NodeJoined in between" % m))
                if em["ms"] not in left_seen.get(m, []):
                    found.append(("spurious:NodeLeft", k, "NodeLeft for node%d (timestamp %d ms) without such a departure notification" % (m, em["ms"])))
                settled = latest_left is not None and latest_left in completed
                if not ((code == TIMEOUT and n == m) or settled):
                    found.append(("unsettled:NodeLeft", k, "NodeLeft for node%d emitted by %s although the rebalance epoch covering it (%s) has not completed and its timeout has not fired" % (
                        m, pretty(e), latest_left)))
                left_armed[m] = True
                joined_armed[m] = False
            else:
                found.append(("emitted:unexpected", k, "unexpected event %s on the channel" % em["type"]))
    return found


def pack(e):
    code, n, ep, r, t = e
    return code + 8 * (n + 64 * (ep + 64 * (r + 4 * t)))


def coq_cases(cases, outs, filt):
    defs, names = [], []
    for c, o in zip(cases, outs):
        keep = [(e, st) for e, st in zip(c["evs"], o["steps"]) if e[0] != JUNK]
        ev = "; ".join(str(pack(e)) for e, _ in keep)
        ob = "; ".join(str(x) for _, st in keep for x in st["obs"])
        defs.append("Definition e%d : list int := [%s]%%list.\nDefinition o%d : list int := [%s]%%list." % (c["id"], ev, c["id"], ob))
        names.append("(%d%%nat, e%d, o%d)" % (c["id"], c["id"], c["id"]))
    return "\n".join(defs), "; ".join(names), "true" if filt else "false"


COQ_TMPL = """From Coq Require Import ZArith Uint63.
From stdpp Require Import gmap.
From GV Require Import C34.Model.
Open Scope uint63_scope.
%s
Definition cases : list (nat * list int * list int) := [%s]%%list.
Definition bad := omap (fun c => match c with (id, ev, ob) =>
   match first_mismatch 1%%positive %s 0 (map Uint63.to_Z ev) (map Uint63.to_Z ob) init with Some i => Some (id, i) | None => None end end) cases.
Definition summary := (length cases, length bad, firstn 5 bad).
Eval vm_compute in summary.
"""


def run(ctx):
    ctx.trusted += ["one notification = one atomic step: every tracker method holds eventsLock for its whole body (the harness delivers notifications sequentially, as the single consume goroutine does)",
                    "the 30 s time.AfterFunc safety net is modelled as the event LeftTimeout n delivered at an arbitrary later point; the harness calls emitOverdueNodeLeft directly",
                    "olric's JSON event encoding (the harness marshals olric's own event structs)", "Go map iteration order only permutes the events emitted within one step"]
    ctx.assumptions += ["events channel (capacity 256) is not full: sendEventLocked drops when full"]
    cases = gen_cases(ctx)
    with open(os.path.join(ctx.work, "c34_in.jsonl"), "w") as f:
        for c in cases:
            f.write(json.dumps({"id": c["id"], "self": c["self"], "evs": c["evs"]}) + "\n")
    outp = os.path.join(ctx.work, "c34_out.jsonl")
    if os.path.exists(outp):
        os.remove(outp)
    rc, out = ctx.go_test("internal/cluster", "^TestVerifC34History", ["zz_verif_C34_test.go"])
    outs = read_jsonl(outp)
    if rc != 0 or len(outs) != len(cases):
        ctx.tie_broken("go-harness internal/cluster event tracker", out)
        outs = outs if len(outs) == len(cases) else []

    # which variant does this tree implement? (probe history: Left self; LeftTimeout self)
    filt = None
    if outs and outs[0].get("steps") and len(outs[0]["steps"]) == 2:
        filt = not any(em["type"] == "left" and em["node"] == SELF for em in outs[0]["steps"][1]["out"])

    sigs = {}
    hist = {n: 0 for n in EVN}
    emitted = {"joined": 0, "left": 0}
    nontrivial = set()
    immediate = [0, None]
    for c, o in zip(cases, outs):
        if o.get("panic"):
            sigs.setdefault("handler:panic", []).append((c, o, len(o.get("steps") or []), "the event handler panics: %s" % o["panic"]))
            continue
        for e in c["evs"]:
            hist[EVN[e[0]]] += 1
        kinds = set()
        for st in o["steps"]:
            for em in st["out"]:
                if em["type"] in emitted:
                    emitted[em["type"]] += 1
                    kinds.add(em["type"])
        if len(kinds) == 2:
            nontrivial.add(canon_hash(c["evs"]))
        for e, st in zip(c["evs"], o["steps"]):
            if e[0] == LEFT and any(em["type"] == "left" and em["node"] == e[1] for em in st["out"]):
                immediate[0] += 1
                if immediate[1] is None or len(c["evs"]) < len(immediate[1]):
                    immediate[1] = [pretty(x) for x in c["evs"][:c["evs"].index(e) + 1]]
        for sig, k, msg in oracle_case(c, o):
            sigs.setdefault(sig, []).append((c, o, k, msg))
    n_viol = 0
    for sig, lst in sorted(sigs.items()):
        lst.sort(key=lambda x: (len(x[0]["evs"][:x[2] + 1]), x[0]["id"]))
        c, o, k, msg = lst[0]
        if sig != "trackNodeLeftEvent:self-departure-reported":
            n_viol += 1
        ctx.violation(sig, msg + " (notification %d: %s; local node = node%d; %d histories show it)" % (k, pretty(c["evs"][k]) if k < len(c["evs"]) else "?", SELF, len(lst)),
                      {"self": "node%d" % SELF, "history": [pretty(e) for e in c["evs"][:k + 1]],
                       "emitted_per_step": [[(em["type"], "node%d" % em["node"], em["ms"]) for em in st["out"]] for st in o["steps"][:k + 1]]})

    # ---- the Coq model on the same histories
    mism = None
    okm, mout = ctx.coq_build(["theories/C34/Model.vo"])
    if not okm:
        ctx.tie_broken("C34/Model.v does not compile", mout)
    elif outs and filt is not None:
        good = [(c, o) for c, o in zip(cases, outs) if o.get("steps") and not o.get("panic") and len(o["steps"]) == len(c["evs"])]
        okc, _, mism, first, o2 = coq_eval_chunks(ctx, "cases_C34", good, lambda ch: COQ_TMPL % coq_cases([c for c, _ in ch], [o for _, o in ch], filt))
        if not okc:
            mism = None
            ctx.tie_broken("model-vs-implementation (cases.v did not evaluate)", o2)
        elif mism and n_viol == 0:
            det = []
            for cid, i in first[:3]:
                c, o = cases[cid], outs[cid]
                keep = [(e, st) for e, st in zip(c["evs"], o["steps"]) if e[0] != JUNK]
                det.append({"history": [pretty(e) for e, _ in keep[:i + 1]], "first_diverging_notification": i,
                            "implementation_after_it": {k: keep[i][1][k] for k in ("jf", "lf", "jt", "lt", "je", "le", "jl", "ll", "cs", "out")}})
            ctx.tie_broken("tracker fields and emitted events after every notification vs C34/Model.v (self filter on node-left: %s)" % filt, {"mismatching_histories": mism, "first": det})
        elif mism:
            ctx.notes.append("model and implementation also disagree on %d histories (the oracle already reported a concrete failing history)" % mism)
    elif outs:
        ctx.tie_broken("probe history did not run", outs[0])

    # ---- theorems
    if not ctx.coq_property():
        if not any(f.kind == "violation" for f in ctx.findings):
            ctx.proof_broken("Properties/C34.v (%s)" % getattr(ctx, "failed_at", "?"), getattr(ctx, "coq_log", ""))
        else:
            ctx.notes.append("Coq obligation broken at %s; concrete failing input reported" % getattr(ctx, "failed_at", "?"))

    ctx.notes.append("node-left self filter present in this tree: %s" % filt)
    nsteps = sum(len(o.get("steps") or []) for o in outs)
    ctx.coverage.update({
        "evaluations": nsteps, "histories": len(outs),
        "distinct_nontrivial": len(nontrivial),
        "rule": "a history is non-trivial when it made the tracker emit at least one NodeJoined and one NodeLeft; distinct by the notification list",
        "notification_histogram": hist, "emitted": emitted,
        "self_left_filter_in_tree": filt,
        "nodeleft_emitted_in_the_step_of_its_own_departure_notification": immediate[0],
        "shortest_such_history": immediate[1],
        "model_mismatching_histories": mism,
        "samples": [[pretty(e) for e in c["evs"][:8]] for c in cases[1:3] + cases[len(cases) // 2: len(cases) // 2 + 2]],
        "theorems": THEOREMS,
    })


THEOREMS = ["C34_joined_at_most_once", "C34_left_at_most_once", "C34_left_at_most_once_ever", "C34_never_reports_self", "C34_never_reports_self_refuted",
            "C34_never_reports_self_partial", "C34_left_only_when_settled"]

META = {
    "ready": True,
    "category": "proof",
    "technique": "Rocq invariant proofs over an executable model of the event tracker + differential execution against the real handler fed olric's JSON payloads",
    "text": "The tracker (both filters, timestamp maps, epoch maps, latest epochs, seen sets; join/left notifications, rebalance start/complete, the overdue emitter) is modelled as written; proved for every history with any peers, epochs, duplicates and orders: between two NodeJoined n there is a departure notification or NodeLeft n; NodeLeft n is emitted at most once (ever); NodeJoined self is never emitted, and with the self filter on departures neither is NodeLeft self (refuted by a two-notification witness for the tree without the filter); every NodeLeft n is emitted by n's timeout or by a step after which the latest left-reason epoch is started and complete within the history.",
    "design_ref": "DESIGN.md 7/C34",
    "level_note": "Trusted: Coq kernel, hand-written model tied by per-notification comparison of every tracker field and the emitted channel. The 30 s timer is an event of the model; a full events channel (drops) and the leader-change detection are outside the model.",
}
