"""C02 — accepted messages to a live actor are processed exactly once; no lost wake-up.

Proof:  Properties/C02.v over M-DISPATCH (C01/Model.v) and the mailbox contract (C02/Contract.v):
        ghost accounting invariant (never twice, never invented, never dropped by the protocol),
        the wake-up invariant WakeInv (PID and grain), ticket-at-quiescence, no deadlock; refutation
        witness for the fair mailbox.
Tie:    (a) dispatchState conformance and (b) the source-order tie are shared with C01 (same model);
        (a') real mailboxes run sequentially against the contract instance fifo2 (vm_compute);
        (c) real-goroutine stress through real actors and grains (per-message ledger, quiescence detector);
        (d) scripted emulated-preemption scenarios S1..S6 (gate mailbox) — the races WakeInv is about —
            whose outcome is also computed from the Coq model on the corresponding label sequences;
            the fair-mailbox stall replayed on a real actor.
Oracle: exactly-once ledger per message id, stall detector (accepted but unhandled at quiescence).
"""
import collections
import json
import os
import re

from vlib import read_jsonl, canon_hash
import dispatch_util as du
import checks.C01 as c01

FAIR_SIG = "UnboundedFairMailbox:sender-deactivated-while-producer-mid-link"
ZOMBIE_SIG = "BoundedMailbox:disposed-nonempty:worker-spins-after-self-shutdown"


def mb_cases(ctx):
    rng = ctx.rng
    cases = []
    nid = [0]

    def fresh():
        nid[0] += 1
        return nid[0] % 900 + 1

    for kind, cap in [("unbounded", 0), ("segmented", 0), ("nonblocking-bounded", 8), ("nonblocking-bounded", 2)]:
        # corpus: fill / drain / interleave; for the segmented mailbox cross a segment boundary
        n_fill = 200 if kind == "segmented" else 12
        ops = [{"op": "empty"}, {"op": "deq"}]
        ops += [{"op": "enq", "id": fresh()} for _ in range(n_fill)]
        ops += [{"op": "empty"}] + [{"op": "deq"} for _ in range(n_fill // 2)] + [{"op": "enq", "id": fresh()} for _ in range(5)]
        ops += [{"op": "deq"} for _ in range(n_fill)] + [{"op": "empty"}, {"op": "deq"}]
        cases.append({"kind": kind, "cap": cap, "ops": ops})
        for _ in range(8 if ctx.thorough else 3):
            ops = []
            for _ in range(rng.randint(20, 120)):
                r = rng.random()
                ops.append({"op": "enq", "id": fresh()} if r < 0.5 else ({"op": "deq"} if r < 0.85 else {"op": "empty"}))
            cases.append({"kind": kind, "cap": cap, "ops": ops})
    # boundaries of every real mailbox: exactly B messages consumed (segment size 256 and its multiples, ring
    # capacities), then one more enqueue: IsEmpty must be false, Len 1, and the message must come out
    probe = [{"op": "empty"}, {"op": "deq"}, {"op": "enq", "id": 0}, {"op": "empty"}, {"op": "deq"}, {"op": "empty"}, {"op": "deq"}]
    def with_ids(ops):
        return [dict(o, id=fresh()) if o["op"] == "enq" else o for o in ops]
    for kind, cap, bounds in [("unbounded", 0, [256, 512]), ("segmented", 0, [255, 256, 257, 512, 768]), ("nonblocking-bounded", 8, [8, 16, 24]),
                              ("nonblocking-bounded", 2, [2, 4]), ("nonblocking-bounded", 256, [256, 512]), ("bounded", 8, [8, 16]),
                              ("priority", 0, [256]), ("bstable", 0, [256]), ("upriority", 0, [256]), ("bpriority", 0, [256])]:
        for b in bounds:
            inter = []
            for _ in range(b):
                inter += [{"op": "enq", "id": 0}, {"op": "deq"}]
            cases.append({"kind": kind, "cap": cap, "ops": with_ids(inter + probe)})
            if cap == 0 or b < cap:
                cases.append({"kind": kind, "cap": cap, "ops": with_ids([{"op": "enq", "id": 0}] * b + [{"op": "deq"}] * b + probe)})
            if kind == "segmented":  # a successor segment already linked when the head segment is drained
                cases.append({"kind": kind, "cap": cap, "ops": with_ids([{"op": "enq", "id": 0}] * (b + 1) + [{"op": "deq"}] * b + [{"op": "empty"}, {"op": "deq"}, {"op": "empty"}])})
    return cases


FIFO_KINDS = {"unbounded", "segmented", "nonblocking-bounded", "bounded", "priority", "bstable"}


def mb_conformance(ctx, cases, outs):
    """the contract instance fifo2 (reserve+publish fused = a complete Enqueue) vs the real mailboxes"""
    items = []
    for c, o in zip(cases, outs):
        if c["kind"] not in FIFO_KINDS:
            continue
        ops = "; ".join({"enq": "(0, %d)" % op.get("id", 0), "deq": "(1, 0)", "empty": "(2, 0)"}[op["op"]] for op in c["ops"])
        exp = "; ".join("(%s)" % ("None" if x < 0 else "Some %d" % x) for x in o["outs"])
        items.append("(%d, [%s], [%s])" % (c["cap"], ops, exp))
    body = """From Coq Require Import List Arith Bool. Import ListNotations.
From GV Require Import C01.Model.
(* op: (0,x) enqueue x -> Some 1 accepted / Some 0 rejected ; (1,_) dequeue -> Some x / None ; (2,_) isEmpty -> Some 1 / Some 0 *)
Definition ap (cap : nat) (m : fifo_t) (o : nat * nat) : option nat * fifo_t :=
  let M := fifo2 cap in
  match o with
  | (0, x) => match mb_reserve M m x with Some m' => (Some 1, mb_publish M m' x) | None => (Some 0, m) end
  | (1, _) => mb_deq M m
  | (_, _) => (Some (if mb_empty M m then 1 else 0), m)
  end.
Fixpoint runm (cap : nat) (m : fifo_t) (ops : list (nat * nat)) : list (option nat) :=
  match ops with [] => [] | o :: r => let (out, m') := ap cap m o in out :: runm cap m' r end.
Definition oeq (a b : option nat) := match a, b with Some x, Some y => x =? y | None, None => true | _, _ => false end.
Fixpoint same (a b : list (option nat)) := match a, b with [] , [] => true | x :: r, y :: s => oeq x y && same r s | _, _ => false end.
Definition cases : list (nat * list (nat * nat) * list (option nat)) := [%s].
Definition bad := filter (fun c => match c with (cap, ops, exp) => negb (same (runm cap [] ops) exp) end) cases.
Eval vm_compute in (length cases, length bad, map (fun c => match c with (cap, ops, exp) => (cap, length ops) end) (firstn 3 bad)).
""" % ";\n ".join(items)
    rc, out = ctx.coq_eval("cases_C02", body)
    flat = " ".join(out.split())
    m = re.search(r"= \((\d+), (\d+), (\[.*?\])\)", flat)
    if rc != 0 or not m:
        ctx.tie_broken("mailbox contract conformance (cases_C02.v did not evaluate)", out[-3000:])
        return None
    if int(m.group(2)):
        ctx.tie_broken("real mailboxes (sequential) vs the contract instance fifo2", {"mismatching_cases": int(m.group(2)), "first": m.group(3)})
    return int(m.group(1)), int(m.group(2))


def mb_oracle(ctx, cases, outs):
    """independent FIFO oracle with the documented capacity"""
    bad = 0
    for c, o in zip(cases, outs):
        q = []
        cap = c["cap"]
        for k, (op, r, ln) in enumerate(zip(c["ops"], o["outs"], o["lens"])):
            if op["op"] == "enq":
                want = 1 if (cap == 0 or len(q) < cap) else 0
                if want:
                    q.append(op["id"])
            elif op["op"] == "deq":
                if c["kind"] not in FIFO_KINDS and q and r in q:
                    q.remove(r)
                    want = r
                else:
                    want = q.pop(0) if q else -1
            else:
                want = 1 if not q else 0
            if r != want or ln != len(q):
                bad += 1
                if bad <= 2:
                    ctx.violation("mailbox:sequential:" + c["kind"],
                                  "%s mailbox (cap %d) step %d %s returned %d (Len %d); a FIFO that hands out each accepted message once requires %d (Len %d)" %
                                  (c["kind"], cap, k, op["op"], r, ln, want, len(q)), {"case": c, "step": k})
                break
    return bad


# model label sequences corresponding to the scripted scenarios (threads: 0,1 producers; 2,3 workers)
SCEN_MODEL = {
    "S1": "[LSend 0 false; LStep 0; LStep 0; LStep 0; LStep 0; LStep 2; LStep 2; LStep 2; LStep 2; LStep 2; LStep 2; LStep 2; "
          "LSend 1 false; LStep 1; LStep 1; "                      # told during the turn: Load sees Processing
          "LStep 2; LStep 2; LStep 2; LStep 2; LStep 2; LStep 2; LStep 2; LStep 2; LStep 2; LStep 2; LStep 2; LStep 2; LStep 2]",
    "S3": "[LSend 0 false; LStep 0; "                              # P1 enqueued, preempted before TrySchedule
          "LSend 1 false; LStep 1; LStep 1; LStep 1; LStep 1; "
          "LStep 2; LStep 2; LStep 2; LStep 2; LStep 2; LStep 2; LStep 2; LStep 2; LStep 2; LStep 2; LStep 2; LStep 2; LStep 2; LStep 2; "
          "LStep 0; LStep 0; LStep 0; "                            # P1 resumes: wins the CAS on an empty mailbox, pushes a ticket
          "LStep 3; LStep 3; LStep 3; LStep 3; LStep 3; LStep 3; LStep 3; LStep 3]",
    "S5": "[LSend 0 false; LStep 0; LStep 0; LStep 0; LStep 0; LStep 2; LStep 2; LStep 2; LStep 2; LStep 2; LStep 2; LStep 2; LStep 2; LStep 2; "
          "LSend 1 false; LStep 1; LStep 1; LStep 1; LStep 1; "    # arrives after the re-check saw empty: producer wins
          "LStep 3; LStep 3; LStep 3; LStep 3; LStep 3; LStep 3; LStep 3; LStep 3; LStep 3; LStep 3; LStep 2; LStep 2]",
}


def scen_model(ctx):
    defs = "; ".join("(fin %s)" % SCEN_MODEL[k] for k in sorted(SCEN_MODEL))
    body = """From Coq Require Import List Arith Bool. Import ListNotations.
From GV Require Import C01.Model.
Definition pre := [LSpawn KProducer; LSpawn KProducer; LSpawn KWorker; LSpawn KWorker].
Definition c := MkCfg 32 false false.
Fixpoint runskip (s : state F F) (ls : list label) : state F F :=
  match ls with [] => s | l :: r => match step F F c s l with Some s' => runskip s' r | None => runskip s r end end.
Definition stn (v : sched) := match v with Idle => 0 | Scheduled => 1 | Processing => 2 end.
Definition fin ls := let s := runskip (init_state F F) (pre ++ ls) in
  (handled s, accepted s, stn (st s), tickets s, length (mb_pend F (usrq s)), cnt owns (ths s)).
Eval vm_compute in [%s].
""" % defs
    rc, out = ctx.coq_eval("scen_C02", body)
    flat = " ".join(out.split())
    res = re.findall(r"\((\[[^\]]*\]), (\[[^\]]*\]), (\d+), (\d+), (\d+), (\d+)\)", flat)
    if rc != 0 or len(res) != len(SCEN_MODEL):
        ctx.tie_broken("scenario model runs (scen_C02.v did not evaluate)", out[-2000:])
        return None
    return {k: {"handled": r[0], "accepted": r[1], "st": int(r[2]), "tickets": int(r[3]), "pending": int(r[4]), "owners": int(r[5])}
            for k, r in zip(sorted(SCEN_MODEL), res)}


def run(ctx):
    ctx.trusted += ["hand-written model C01/Model.v and mailbox contract C02/Contract.v (tied by: dispatchState conformance, source-order extractor, sequential mailbox conformance, scenario replays)",
                    "the mailbox contract for the lock-free mailboxes under concurrency is C04's subject; here it is an explicit hypothesis (mbox_ok), proved for the two-phase FIFO instance and refuted for the fair mailbox",
                    "Go runtime scheduler fairness for 'eventually' (the theorems are safety: invariant + enabledness)"]
    ctx.assumptions += ["the actor stays running until the message is dequeued (property statement)",
                        "message identities are distinct (fresh ids in the model, unique ids in the harness)"]
    okm, outm = ctx.coq_build(["theories/C01/Model.vo"])
    if not okm:
        ctx.tie_broken("C01/Model.v does not compile", outm)
    fh = {}
    tie = c01.source_tie(ctx, fh) if okm else None
    ctx.log("source tie done")

    dsc = c01.ds_cases(ctx)
    with open(os.path.join(ctx.work, "c01_ds_in.jsonl"), "w") as f:
        for c in dsc:
            f.write(json.dumps(c) + "\n")
    mbc = mb_cases(ctx)
    with open(os.path.join(ctx.work, "c02_mb_in.jsonl"), "w") as f:
        for c in mbc:
            f.write(json.dumps(c) + "\n")
    for fn in ("c01_ds_out.jsonl", "c02_mb_out.jsonl", "c02_stress_out.jsonl", "c02_scen_out.jsonl", "c02_grain_out.jsonl", "c02_fair_out.jsonl", "c02_zombie_out.jsonl", "c02_grain_reclaim_out.jsonl", "c02_stash_out.jsonl"):
        p = os.path.join(ctx.work, fn)
        if os.path.exists(p):
            os.remove(p)
    files = ["zz_verif_C02_test.go", "zz_verif_C01_test.go", "zz_verif_dispatchlib_test.go"]
    rc, out = ctx.go_test("actor", "^TestVerif(C02|C01DispatchStateSeq)", files, env={"VERIF_THOROUGH": "1" if ctx.thorough else "0"}, timeout=1500)
    ctx.log("go harness done rc=%d" % rc)
    ds = read_jsonl(os.path.join(ctx.work, "c01_ds_out.jsonl"))
    mbo = read_jsonl(os.path.join(ctx.work, "c02_mb_out.jsonl"))
    stress = read_jsonl(os.path.join(ctx.work, "c02_stress_out.jsonl"))
    scen = read_jsonl(os.path.join(ctx.work, "c02_scen_out.jsonl"))
    grain = read_jsonl(os.path.join(ctx.work, "c02_grain_out.jsonl"))
    fair = read_jsonl(os.path.join(ctx.work, "c02_fair_out.jsonl"))
    zombie = read_jsonl(os.path.join(ctx.work, "c02_zombie_out.jsonl"))
    greclaim = read_jsonl(os.path.join(ctx.work, "c02_grain_reclaim_out.jsonl"))
    stash = read_jsonl(os.path.join(ctx.work, "c02_stash_out.jsonl"))
    if rc != 0 or len(ds) != len(dsc) or len(mbo) != len(mbc) or not stress or not scen or not grain or not fair or not zombie or not greclaim or not stash:
        ctx.tie_broken("go-harness TestVerifC02*", out[-4000:])
    if ctx.thorough:
        os.makedirs(os.path.join(ctx.work, "race"), exist_ok=True)
        rc2, out2 = ctx.go_test("actor", "^TestVerifC02(Stress|Scenarios|Grain)", files, env={"VERIF_THOROUGH": "0", "VERIF_OUT": os.path.join(ctx.work, "race")}, race=True, timeout=1500)
        if "DATA RACE" in out2:
            ctx.notes.append("-race reported a data race (supporting evidence only): " + out2[-1500:])

    if ds:
        c01.ds_oracle(ctx, ds)
        c01.ds_conformance(ctx, ds)
    mb_bad = mb_oracle(ctx, mbc, mbo) if len(mbo) == len(mbc) else 0
    mb_conf = mb_conformance(ctx, mbc, mbo) if okm and len(mbo) == len(mbc) else None

    n_bad = 0
    for o in stress:
        if o.get("err"):
            ctx.tie_broken("stress harness could not run", o)
            continue
        what = None
        if o["duplicates"]:
            what = ("duplicate", "%d accepted messages were handled more than once" % o["duplicates"])
        elif o["stalled"] or o["lost"]:
            what = ("lost-or-stalled", "%d accepted messages were never handled (stalled=%s, final state %s, %d/%d handled)" %
                    (o["lost"], o["stalled"], o["final_state"], o["handled"], o["accepted"]))
        if what:
            n_bad += 1
            if n_bad <= 3:
                ctx.violation("exactly-once:stress:%s:%s" % (what[0], o["cfg"]["Mailbox"]), "%s mailbox, %d senders, budget %d: %s" %
                              (o["cfg"]["Mailbox"], o["cfg"]["Senders"], o["cfg"]["Budget"], what[1]), o)
    for o in grain:
        if o.get("err"):
            ctx.tie_broken("grain stress could not run", o)
        elif o["duplicates"] or o["lost"] or o["overlaps"]:
            n_bad += 1
            ctx.violation("exactly-once:grain-stress", "grain: %d duplicates, %d answered-but-never-handled, %d handler overlaps" % (o["duplicates"], o["lost"], o["overlaps"]), o)
        elif o["failed"]:
            n_bad += 1
            ctx.violation("exactly-once:grain-stress:unanswered", "grain: %d of %d TellGrain/AskGrain calls to an active grain failed (%s): the message was enqueued but its turn never ran or never answered" %
                          (o["failed"], o["failed"] + o["accepted"], o["first_err"]), o)
    for o in scen:
        if not o["completed"] and not o["stalled"]:
            ctx.tie_broken("scenario %s could not be driven to its preemption point" % o["name"], o)
            continue
        if o["stalled"] or o["lost"] or o["duplicates"]:
            n_bad += 1
            ctx.violation("exactly-once:scenario:" + o["name"].split()[0],
                          "emulated preemption %r (%s mailbox): %d accepted messages lost/stalled (stalled=%s, final state %s), %d duplicates" %
                          (o["name"], o["mailbox"], o["lost"], o["stalled"], o["final_state"], o["duplicates"]), o)
    # model outcome of the same schedules
    sm = scen_model(ctx) if okm else None
    if sm:
        for key, m in sm.items():
            model_ok = m["handled"] == m["accepted"] and m["st"] == 0 and m["tickets"] == 0 and m["pending"] == 0 and m["owners"] == 0
            gos = [o for o in scen if o["name"].startswith(key + " ") and o["completed"]]
            impl_ok = all(not o["stalled"] and o["lost"] == 0 and o["duplicates"] == 0 and o["final_state"] == "Idle" for o in gos)
            if gos and model_ok != impl_ok:
                ctx.tie_broken("scenario %s: model and implementation disagree" % key, {"model": m, "go": gos})
    # the fair mailbox
    fo = fair[0] if fair else None
    if fo is not None:
        if not fo["completed"]:
            ctx.tie_broken("fair-mailbox witness could not be replayed", fo)
        elif fo["stalled"]:
            ctx.violation(FAIR_SIG, "UnboundedFairMailbox on a real actor: two accepted messages from one sender are never handled (Len=%d, IsEmpty=%s, sender active=%s pending=%d); a later message from that sender handled: %s" %
                          (fo["mailbox_len"], fo["mailbox_is_empty"], fo["sender_active_flag"], fo["sender_pending"], fo["later_message_from_same_sender_handled"]),
                          {"witness": "Coq C02_fair_stall_refuted / fair_witness", "go": fo})

    for o in stash:
        if o.get("err"):
            ctx.tie_broken("stash stress could not run", o)
        elif o["duplicates"] or o["lost"] or o["stalled"]:
            n_bad += 1
            ctx.violation("exactly-once:stash-unstash", "stash/unstash (%s mailbox): %d accepted messages never processed after UnstashAll, %d processed twice (stalled=%s)" %
                          (o["mailbox"], o["lost"], o["duplicates"], o["stalled"]), o)
    # grain: enqueue between the empty dequeue and the reset, worker emulated with the grain's own methods
    gr = greclaim[0] if greclaim else None
    if gr is not None:
        if not gr["completed"] or not gr["dequeue_was_nil"]:
            ctx.tie_broken("grain reclaim scenario could not be driven", gr)
        elif gr["message_stranded_idle_nonempty"] or not gr["handled"]:
            ctx.violation("exactly-once:grain:enqueue-between-empty-dequeue-and-reset",
                          "grain: a message enqueued while the turn owner was between its last empty dequeue and reset() is never handled (finishOrReclaim said exit=%s, state %s, mailbox non-empty)" % (gr["finishOrReclaim_said_exit"], gr["state_after"]), gr)
    # stopped actors with a disposed, non-empty bounded mailbox
    zo = zombie[0] if zombie else None
    if zo is not None:
        if not zo["completed"]:
            ctx.tie_broken("stopped-actor scenario could not be driven", zo)
        elif zo["worker_spins_on_stopped_actor"] or not zo["message_to_live_actor_handled"]:
            ctx.violation(ZOMBIE_SIG,
                          "%d actors stopped themselves (ctx.Shutdown in the handler) with messages left in their BoundedMailbox: the disposed mailbox reports Len=%s IsEmpty=%s while Dequeue returns nil, the dispatcher worker reclaims for ever (%s Dequeue calls in 100 ms); with %d workers a message accepted by a LIVE actor was %s" %
                          (zo["stopped_actors_with_leftover_messages"], zo["mailbox_len_after_stop"], zo["mailbox_is_empty_after_stop"], zo["dequeue_calls_in_100ms_after_stop"],
                           zo["dispatcher_workers"], "handled" if zo["message_to_live_actor_handled"] else "never handled (waited %d ms)" % zo["live_actor_wait_ms"]),
                          {"witness": "Coq C02_disposed_bounded_refuted", "go": zo})

    if not ctx.coq_property():
        if not any(f.kind == "violation" for f in ctx.findings):
            ctx.proof_broken("Properties/C02.v (%s)" % getattr(ctx, "failed_at", "?"), getattr(ctx, "coq_log", ""))
        else:
            ctx.notes.append("Coq obligation broken at %s; concrete failing input reported" % getattr(ctx, "failed_at", "?"))

    idle_tr = sum((o.get("gate_hits") or [0] * 7)[3] for o in stress)
    distinct = {canon_hash(c) for c in mbc if len({op["op"] for op in c["ops"]}) == 3}
    distinct |= {canon_hash(o["cfg"]) for o in stress if o.get("handled", 0) > 0}
    distinct |= {canon_hash([o["name"], o["mailbox"]]) for o in scen if o["completed"]}
    ctx.coverage.update({
        "evaluations": len(mbc) + len(ds) + len(stress) + len(scen) + len(grain) + len(fair) + len(zombie),
        "distinct_nontrivial": len(distinct),
        "rule": "sequential mailbox op sequences (corpus fill/drain per mailbox kind and capacity + seeded random; non-trivial = all three op kinds), stress configurations with handled messages, scenarios that reached their preemption point; distinct by canonical hash",
        "samples": [{"kind": mbc[0]["kind"], "ops": mbc[0]["ops"][:10], "outs": mbo[0]["outs"][:10]} if mbo else None,
                    stress[0] if stress else None, scen[0] if scen else None, fo],
        "mailbox_cases": len(mbc), "mailbox_oracle_failures": mb_bad, "mailbox_model_mismatches": mb_conf[1] if mb_conf else None,
        "stress_runs": len(stress), "stress_messages": sum(o.get("handled", 0) for o in stress), "stress_idle_transitions_observed": idle_tr,
        "grain_runs": [{k: o.get(k) for k in ("senders", "budget", "accepted", "handled", "failed", "first_err")} for o in grain],
        "scenarios": [{"name": o["name"], "mailbox": o["mailbox"], "completed": o["completed"], "stalled": o["stalled"]} for o in scen],
        "scenario_model_outcomes": sm, "exactly_once_findings": n_bad,
        "source_tie": {"embeddings_checked": tie["embeddings_checked"] if tie else None, "problems": tie["problems"] if tie else None},
        "fair_mailbox_witness": fo, "stopped_actor_witness": zo, "grain_reclaim_witness": gr, "stash_runs": stash,
        "theorems": ["C02_contract_instance", "C02_no_duplicate", "C02_handled_was_accepted", "C02_accepted_accounted", "C02_single_consumer",
                     "C02_wake_invariant", "C02_no_lost_wakeup", "C02_no_deadlock", "C02_progress", "C02_fair_stall_refuted", "C02_disposed_bounded_refuted"],
    })


META = {
    "ready": True,
    "category": "proof",
    "technique": "Rocq inductive invariants (ghost accounting + wake-up invariant) over the M-DISPATCH transition system with an abstract mailbox contract + source-order tie + stress, gate-mailbox preemption scenarios and a real-actor replay of the fair-mailbox stall",
    "text": "For every mailbox pair satisfying the stated contract, PID and grain, any number of producers/workers/restarters and any interleaving: no accepted message is handled twice or invented, every accepted message is at all times handled or held by exactly one mailbox, mailboxes are dequeued only by the unique turn owner; the wake-up invariant (pending message and Idle state imply a producer between enqueue and TrySchedule or an owner between reset and re-check) is inductive, hence at quiescence a pending message implies Scheduled with its ticket queued, and some producer/worker step is always enabled (C02_no_deadlock), and from every quiescent state a finite worker-only continuation handles everything pending (C02_progress). The fair mailbox is shown not to satisfy the contract (machine-checked witness, replayed on a real actor).",
    "design_ref": "DESIGN.md 6 (M-DISPATCH), 7/C02",
    "level_note": "Trusted: Coq kernel, hand-written model and contract (tied as described), Go memory model. Liveness is proved only as enabledness (fair scheduling assumed for 'eventually').",
}
