"""C47 — the circuit breaker follows its state machine.

Proof: Properties/C47.v over the hand-written model C47/Model.v (bucketWindow ring, tryAcquire, record,
       transitionTo, the half-open semaphore as a counter) and C47/Conc.v (callers interleaved at the
       granularity of the breaker's atomic operations).
Tie:   the real breaker is driven through Execute (each call in its own goroutine, the protected function
       blocks until the script finishes it) with the options clock scripted; after EVERY event state,
       openUntil, len(semCh), cursor, lastUpdate, all buckets, lastFailure/lastSuccess and the event's result
       are compared with the Coq model evaluated by vm_compute on the same concrete events.
Oracle (independent of the model): the state machine of the property's sentence with the window known only
       at bucket granularity; concurrent bursts with real goroutines: probes running at once <= cap.
"""
import json
import os
import re

from vlib import read_jsonl, canon_hash
from chunk_eval import coq_eval_chunks

CLOSED, OPEN, HALF = 0, 1, 2
SN = ["closed", "open", "half-open"]


def mk_bn(window, n):
    n = 1 if n < 1 else n
    d = window // n
    return 1 if d <= 0 else d


def gen_case(rng, profile):
    buckets = rng.choice([1, 2, 3, 4, 4, 6])
    bn = rng.choice([5, 10, 25])
    window = bn * buckets + (rng.randint(0, buckets - 1) if rng.random() < 0.3 else 0)
    cfg = {"window": window, "buckets": buckets, "minreq": rng.choice([1, 2, 3, 5]), "opentimeout": rng.choice([20, 50, 100]),
           "cap": rng.choice([1, 1, 2, 3]), "start": rng.choice([0, 1000, 123456])}
    cfg["ratep"], cfg["rateq"] = rng.choice([(1, 2), (1, 2), (1, 4), (3, 10), (1, 10), (1, 1), (0, 1), (2, 3), (3, 4)])
    pfail = {"mixed": 0.5, "failing": 0.8, "healthy": 0.15}.get(profile, 0.5)
    n = rng.randint(40, 120)
    now = cfg["start"]
    intents = []
    inflight_guess = 0
    for _ in range(n):
        r = rng.random()
        if profile == "nonmono" and r < 0.1:
            now = max(0, now - rng.randint(1, 2 * bn))
        elif r < 0.40:
            pass
        elif r < 0.78:
            now += rng.randint(1, bn)
        elif r < 0.93:
            now += rng.randint(bn, max(bn, window))
        else:
            now += rng.choice([window, window + 1, cfg["opentimeout"], cfg["opentimeout"] - 1, cfg["opentimeout"] + window + 3, bn * buckets, bn * buckets - 1])
        r = rng.random()
        if r < 0.08:
            kind = 1
        elif r < 0.10:
            kind = 3
        elif r < 0.10 + (0.30 if inflight_guess >= 4 else 0.45):
            kind = 0
            inflight_guess += 1
        else:
            kind = 2
            inflight_guess = max(0, inflight_guess - 1)
        r = rng.random()
        if r < 0.07:
            outcome = 2
        elif r < 0.11:
            outcome = 3
        elif r < 0.15:
            outcome = 4
        else:
            outcome = 1 if rng.random() < pfail else 0
        intents.append([kind, now, rng.randint(0, 7), outcome])
    cfg["intents"] = intents
    cfg["profile"] = profile
    return cfg


def corpus_cases():
    out = []
    S, M, D = 0, 1, 2
    # trip with exactly minRequests at exactly the rate; reject until the timeout; probe; close
    out.append({"window": 40, "buckets": 4, "minreq": 4, "opentimeout": 50, "cap": 1, "ratep": 1, "rateq": 2, "start": 1000, "profile": "corpus", "intents": [
        [S, 1000, 0, 0], [D, 1000, 0, 0], [S, 1001, 0, 0], [D, 1001, 0, 1], [S, 1002, 0, 0], [D, 1002, 0, 0], [S, 1003, 0, 0], [D, 1003, 0, 1],
        [S, 1004, 0, 0], [S, 1052, 0, 0], [S, 1053, 0, 0], [S, 1053, 0, 0], [M, 1053, 0, 0], [D, 1054, 0, 0], [S, 1054, 0, 0], [D, 1055, 0, 0], [S, 1055, 0, 0], [D, 1056, 0, 0],
        [S, 1056, 0, 0], [D, 1057, 0, 0], [S, 1057, 0, 0], [D, 1057, 0, 0], [M, 1058, 0, 0], [S, 1058, 0, 0]]})
    # failures age out of the window bucket by bucket; whole window stale; failing probe reopens
    out.append({"window": 30, "buckets": 3, "minreq": 2, "opentimeout": 20, "cap": 2, "ratep": 1, "rateq": 2, "start": 0, "profile": "corpus", "intents": [
        [S, 0, 0, 0], [D, 0, 0, 1], [M, 9, 0, 0], [M, 10, 0, 0], [M, 20, 0, 0], [M, 29, 0, 0], [M, 30, 0, 0], [S, 31, 0, 0], [D, 31, 0, 1], [S, 32, 0, 0], [D, 45, 0, 0],
        [S, 46, 0, 0], [D, 46, 0, 1], [S, 47, 0, 0], [D, 47, 0, 1], [S, 60, 0, 0], [S, 67, 0, 0], [S, 67, 0, 0], [S, 67, 0, 0], [D, 68, 0, 1], [D, 68, 0, 1], [S, 68, 0, 0], [S, 88, 0, 0], [D, 200, 0, 0], [M, 200, 0, 0]]})
    # stale call admitted while closed finishes during half-open; cancelled probe returns its token
    out.append({"window": 20, "buckets": 2, "minreq": 1, "opentimeout": 20, "cap": 1, "ratep": 1, "rateq": 1, "start": 5, "profile": "corpus", "intents": [
        [S, 5, 0, 0], [S, 5, 0, 0], [D, 6, 0, 1], [S, 7, 0, 0], [S, 26, 0, 0], [S, 26, 0, 0], [D, 27, 1, 2], [S, 27, 0, 0], [D, 28, 0, 0], [D, 29, 0, 0], [S, 29, 0, 0], [D, 30, 0, 3], [S, 31, 0, 0]]})
    return out


def gen_cases(ctx):
    rng = ctx.rng
    cases = corpus_cases()
    plan = [("mixed", 55), ("failing", 40), ("healthy", 20), ("nonmono", 12)]
    if ctx.thorough:
        plan = [(p, n * 10) for p, n in plan]
    for profile, n in plan:
        for _ in range(n):
            cases.append(gen_case(rng, profile))
    for i, c in enumerate(cases):
        c["id"] = i
    return cases


def reached(c, fail, total):
    return c["ratep"] * total <= c["rateq"] * fail


def candidates(c, outcomes, now):
    """possible (succ, fail) window totals when only the bucket granularity is known: everything within the last
    (num-1) buckets is counted, nothing older than num buckets is, the cut in between is a suffix in time"""
    bn, num = mk_bn(c["window"], c["buckets"]), max(1, c["buckets"])
    sure = [(t, ok) for t, ok in outcomes if t >= now - (num - 1) * bn]
    maybe = sorted([(t, ok) for t, ok in outcomes if now - num * bn < t < now - (num - 1) * bn], reverse=True)
    res = set()
    for k in range(len(maybe) + 1):
        if 0 < k < len(maybe) and maybe[k][0] == maybe[k - 1][0]:
            continue  # same timestamp: counted together
        sel = sure + maybe[:k]
        res.add((sum(1 for _, ok in sel if ok), sum(1 for _, ok in sel if not ok)))
    return res


def oracle_case(c, out):
    """returns (signature, step index, message) or None"""
    cap, minreq, ot = c["cap"], c["minreq"], c["opentimeout"]
    outcomes = []
    probes = set()
    open_until = None
    for i, s in enumerate(out["steps"]):
        pre, post, now = s["pre"], s["state"], s["now"]
        if s["kind"] == "start":
            if pre == CLOSED:
                if not s["allowed"] or post != CLOSED:
                    return "closed-admits", i, "call started while closed at %d was %s, state after: %s" % (now, "admitted" if s["allowed"] else "rejected", SN[post])
            elif pre == OPEN and open_until is not None and now < open_until:
                if s["allowed"] or post != OPEN:
                    return "open-rejects", i, "breaker opened until %d, call at %d was %s (state after: %s)" % (open_until, now, "ADMITTED" if s["allowed"] else "rejected", SN[post])
            else:
                if pre == OPEN:
                    if open_until is None:
                        return None  # cannot happen: we saw every transition
                    outcomes = []
                    if post != HALF:
                        return "open-timeout-halfopen", i, "open timeout passed at %d (open until %d) but the state after the call is %s" % (now, open_until, SN[post])
                elif post != HALF:
                    return "halfopen-start-state", i, "a call start changed half-open into %s" % SN[post]
                want = len(probes) < cap
                if s["allowed"] != want:
                    return "halfopen-cap", i, "half-open with %d probe(s) in flight and cap %d: call at %d was %s" % (len(probes), cap, now, "admitted" if s["allowed"] else "rejected")
                if s["allowed"]:
                    probes.add(s["call"])
            if len(probes) > cap:
                return "halfopen-cap", i, "%d probes in flight, halfOpenMaxCalls=%d" % (len(probes), cap)
        elif s["kind"] == "done":
            probes.discard(s["call"])
            if s["outcome"] == 2:
                if post != pre:
                    return "cancel-changes-state", i, "a caller-cancelled call changed the state %s -> %s" % (SN[pre], SN[post])
                continue
            outcomes.append((now, s["outcome"] == 0))
            decisions = set()
            for (su, fa) in candidates(c, outcomes, now):
                total = su + fa
                if pre == OPEN:
                    d = OPEN
                elif total >= minreq and reached(c, fa, total):
                    d = OPEN
                elif pre == HALF and total >= minreq:
                    d = CLOSED
                else:
                    d = pre
                decisions.add(d)
            if len(decisions) == 1:
                d = decisions.pop()
                if post != d:
                    return "record-transition", i, "after the %s outcome at %d in state %s the breaker is %s; windowed outcomes (at bucket granularity) %s with minRequests=%d rate=%d/%d demand %s" % (
                        "success" if s["outcome"] == 0 else "failure", now, SN[pre], SN[post], sorted(candidates(c, outcomes, now)), minreq, c["ratep"], c["rateq"], SN[d])
            if post == OPEN and pre != OPEN:
                open_until = now + ot
            if post != pre and post in (CLOSED, HALF):
                outcomes = []
        elif s["kind"] == "metrics":
            if post != pre:
                return "metrics-changes-state", i, "Metrics changed the state"
            if (s["succ"], s["fail"]) not in candidates(c, outcomes, now):
                return "window-totals", i, "Metrics at %d reports succ=%d fail=%d; outcomes since the last reset within the window at bucket granularity allow only %s" % (
                    now, s["succ"], s["fail"], sorted(candidates(c, outcomes, now)))
    return None


def coq_cases(cases, outs):
    defs, names = [], []
    for c, o in zip(cases, outs):
        ev = "; ".join(str(s["ev"]) for s in o["steps"])
        ob = "; ".join(str(x) for s in o["steps"] for x in s["obs"])
        defs.append("Definition e%d : list int := [%s]%%list.\nDefinition o%d : list int := [%s]%%list." % (c["id"], ev, c["id"], ob))
        names.append("(%d%%nat, (%d%%Z, %d%%nat, %d%%Z, %d%%Z, %d%%nat), (%d%%Z, %d%%Z, %d%%Z), e%d, o%d)" % (
            c["id"], mk_bn(c["window"], c["buckets"]), max(1, c["buckets"]), c["minreq"], c["opentimeout"], c["cap"], c["ratep"], c["rateq"], c["start"], c["id"], c["id"]))
    return "\n".join(defs), "; ".join(names)


COQ_TMPL = """From Coq Require Import ZArith Uint63.
From stdpp Require Import list.
From GV Require Import C47.Model.
Open Scope uint63_scope.
%s
Definition cases : list (nat * (Z * nat * Z * Z * nat) * (Z * Z * Z) * list int * list int) := [%s]%%list.
Definition bad := omap (fun c => match c with (id, (bn, num, minreq, ot, cap), (p, q, start), ev, ob) =>
   match first_mismatch bn num minreq ot cap (reached_q p q) 0 (map Uint63.to_Z ev) (map Uint63.to_Z ob) (new_breaker num start)
   with Some i => Some (id, i) | None => None end end) cases.
Definition summary := (length cases, length bad, firstn 5 bad).
Eval vm_compute in summary.
"""


def run(ctx):
    ctx.trusted += ["the float64 rate test float64(fail)/float64(total) >= failureRate is a parameter `reached` of the model; for execution it is the exact rational comparison fail*q >= p*total, "
                    "equal to the float test for rates p/q with small p,q and totals < 2^20 (IEEE division and the decimal literal both round the rational to nearest, and two distinct rationals "
                    "with denominators < 2^26 differ by more than an ulp) — this argument is not machine-checked",
                    "goroutine-per-call harness: an event is complete when the call is blocked inside the protected function or Execute has returned",
                    "uint64 bucket counters do not overflow"]
    ctx.assumptions += ["window-total theorem: clock readings non-decreasing", "events of the sequential model are atomic (Execute's tryAcquire and record+release); the semaphore bound is also proved for callers interleaved at every atomic operation (C47/Conc.v)"]
    cases = gen_cases(ctx)
    with open(os.path.join(ctx.work, "c47_in.jsonl"), "w") as f:
        for c in cases:
            f.write(json.dumps({k: v for k, v in c.items() if k != "profile"}) + "\n")
    for fn in ("c47_out.jsonl", "c47_burst.jsonl", "c47_publish.jsonl"):
        p = os.path.join(ctx.work, fn)
        if os.path.exists(p):
            os.remove(p)
    rc, out = ctx.go_test("breaker", "^TestVerifC47History", ["zz_verif_C47_test.go"])
    outs = read_jsonl(os.path.join(ctx.work, "c47_out.jsonl"))
    if rc != 0 or len(outs) != len(cases):
        ctx.tie_broken("go-harness breaker history", out)
        outs = outs if len(outs) == len(cases) else []

    n_viol = 0
    hist = {"start": 0, "done": 0, "metrics": 0}
    trans = {}
    nontrivial = set()
    for c, o in zip(cases, outs):
        if o.get("err"):
            n_viol += 1
            if n_viol <= 3:
                ctx.violation("breaker:harness-observed", "breaker misbehaves: %s" % o["err"], {"config": {k: v for k, v in c.items() if k != "intents"}, "intents": c["intents"], "steps_done": len(o.get("steps") or [])})
            continue
        seen = set()
        for s in o["steps"]:
            hist[s["kind"]] += 1
            if s["pre"] != s["state"]:
                k = "%s->%s" % (SN[s["pre"]], SN[s["state"]])
                trans[k] = trans.get(k, 0) + 1
                seen.add(k)
        if {"closed->open", "open->half-open"} <= seen and ("half-open->closed" in seen or "half-open->open" in seen):
            nontrivial.add(canon_hash([c[k] for k in ("window", "buckets", "minreq", "opentimeout", "cap", "ratep", "rateq", "intents")]))
        if c["profile"] == "nonmono":
            continue
        bad = oracle_case(c, o)
        if bad:
            n_viol += 1
            if n_viol <= 3:
                sig, i, msg = bad
                ctx.violation("breaker:" + sig, msg, {"config": {k: v for k, v in c.items() if k not in ("intents", "profile", "id")},
                                                      "events": [{k: s[k] for k in ("kind", "now", "call", "allowed", "tok", "outcome", "pre", "state", "succ", "fail")} for s in o["steps"][:i + 1]]})

    # ---- the Coq model on the same concrete events
    mism = None
    okm, mout = ctx.coq_build(["theories/C47/Model.vo"])
    if not okm:
        ctx.tie_broken("C47/Model.v does not compile", mout)
    elif outs:
        good = [(c, o) for c, o in zip(cases, outs) if o.get("steps")]
        okc, _, mism, first, o2 = coq_eval_chunks(ctx, "cases_C47", good, lambda ch: COQ_TMPL % coq_cases([c for c, _ in ch], [o for _, o in ch]))
        if not okc:
            mism = None
            ctx.tie_broken("model-vs-implementation (cases.v did not evaluate)", o2)
        elif mism and n_viol == 0:
            det = []
            for cid, idx in first[:3]:
                c, o = cases[cid], outs[cid]
                det.append({"config": {k: v for k, v in c.items() if k not in ("intents", "profile", "id")}, "first_diverging_event": idx,
                            "events": [{k: s[k] for k in ("kind", "now", "call", "allowed", "tok", "outcome", "pre", "state")} for s in o["steps"][:idx + 1]],
                            "implementation_obs": o["steps"][idx]["obs"]})
            ctx.tie_broken("breaker state after every event vs C47/Model.v", {"mismatching_histories": mism, "first": det})
        elif mism:
            ctx.notes.append("model and implementation also disagree on %d histories (the oracle already reported a concrete failing history)" % mism)

    # ---- concurrent probe bursts, real goroutines
    rc3, out3 = ctx.go_test("breaker", "^TestVerifC47(Burst|PublishOrder)", ["zz_verif_C47_test.go"], race=ctx.thorough,
                            env={"VERIF_C47_ROUNDS": "600" if ctx.thorough else "80"})
    bursts = read_jsonl(os.path.join(ctx.work, "c47_burst.jsonl"))
    if rc3 != 0 and "DATA RACE" in out3:
        ctx.violation("breaker:data-race", "the race detector reports a data race in concurrent Execute", {"output_tail": out3[-2000:]})
    elif rc3 != 0:
        ctx.tie_broken("go-harness breaker burst", out3)
    worst = None
    for bu in bursts:
        if bu["MaxConcurrent"] > bu["Cap"] and (worst is None or bu["MaxConcurrent"] - bu["Cap"] > worst["MaxConcurrent"] - worst["Cap"]):
            worst = bu
    if worst:
        ctx.violation("breaker:halfopen-cap-concurrent", "%d probes ran concurrently while half-open with halfOpenMaxCalls=%d (%d callers)" % (worst["MaxConcurrent"], worst["Cap"], worst["Callers"]), worst)

    # ---- publication order of Open vs its deadline (deterministic pause points inside the tripping caller)
    pubs = read_jsonl(os.path.join(ctx.work, "c47_publish.jsonl"))
    for pb in pubs:
        bad = pb["Admitted"] or pb["NotErrOpen"] or any(x != OPEN for x in (pb["StateAfter"] or [])) or pb["FinalState"] != OPEN
        if bad:
            ctx.violation("breaker:open-visible-before-deadline",
                          "%s at clock %d (open timeout %d, the clock never advances): a caller that saw State()==Open while the tripping caller was still inside the transition "
                          "called Execute and was %s; state afterwards: %s (must stay open until %d)" % (
                              pb["Scenario"], pb["Now"], pb["Timeout"], "ADMITTED" if pb["Admitted"] else ("not answered with ErrOpen" if pb["NotErrOpen"] else "rejected"),
                              SN[pb["FinalState"]], pb["Now"] + pb["Timeout"]), pb)
            break
    if rc3 == 0 and len(pubs) < 2:
        ctx.tie_broken("go-harness breaker publication-order scenario produced no result", pubs)

    # ---- theorems
    if not ctx.coq_property():
        if not any(f.kind == "violation" for f in ctx.findings):
            ctx.proof_broken("Properties/C47.v (%s)" % getattr(ctx, "failed_at", "?"), getattr(ctx, "coq_log", ""))
        else:
            ctx.notes.append("Coq obligation broken at %s; concrete failing input reported" % getattr(ctx, "failed_at", "?"))

    nsteps = sum(len(o.get("steps") or []) for o in outs)
    ctx.coverage.update({
        "evaluations": nsteps + len(bursts),
        "histories": len(outs),
        "distinct_nontrivial": len(nontrivial),
        "rule": "a history is non-trivial when it walks closed->open, open->half-open and a half-open exit (to closed or back to open); distinct by (config, intents)",
        "event_histogram": hist, "transitions_seen": trans,
        "publication_order_scenarios": [{k: pb[k] for k in ("Scenario", "Pauses", "ProbesWhileOpen")} for pb in pubs], "burst_rounds": len(bursts), "churn_probe_admissions": sum(b["Admitted"] for b in bursts if b["Phase"] == "half-open-churn"), "burst_max_concurrent_over_cap": max([b["MaxConcurrent"] - b["Cap"] for b in bursts] or [None]),
        "model_mismatching_histories": mism,
        "samples": [{k: v for k, v in c.items() if k != "intents"} | {"intents": c["intents"][:6]} for c in cases[:2] + cases[len(cases) // 2: len(cases) // 2 + 2]],
        "theorems": THEOREMS,
    })


THEOREMS = ["C47_window_totals", "C47_window_alignment", "C47_state_machine", "C47_opens_exactly_when", "C47_open_rejects", "C47_halfopen_exits",
            "C47_sem_bounded", "C47_sem_counts_probes", "C47_admitted_without_token_only_when_closed", "C47_concurrent_probes_bounded",
            "C47_deadline_armed_before_open_visible", "C47_state_first_refuted"]

META = {
    "ready": True,
    "category": "proof",
    "technique": "Rocq proof over an executable model of the breaker + differential execution against the real breaker through Execute with a scripted clock + concurrent probe bursts",
    "text": "The bucket ring (advance/hard reset/add/totals), tryAcquire, record, transitionTo and the half-open semaphore are modelled as written; proved for all histories: the ring's totals are the outcomes since the last reset within the last window at bucket granularity; the state follows the state-machine table (closed->open exactly when total>=minRequests and the rate is reached; open rejects everything before openUntil; half-open closes on enough good samples, reopens on a reached rate); the semaphore never exceeds halfOpenMaxCalls and equals the probes in flight; for any number of callers interleaved at the breaker's atomic operations at most cap probes run concurrently.",
    "design_ref": "DESIGN.md 7/C47",
    "level_note": "Trusted: Coq kernel, hand-written model tied by per-event state comparison through Execute, scripted options clock. The float64 rate test is a parameter of the model (exact rational comparison for execution); the non-atomicity of record() (add, then transition) is covered only by the over-approximating interleaving model of the semaphore, not by the window/transition theorems.",
}
