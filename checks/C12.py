"""C12 — passivation only removes actors that are truly idle.

Proof: Properties/C12.v over C12/Model.v (hand model of actor/passivation_manager.go, pid.markActivity and
       pid.tryPassivation; logical clock).
Tie:   (A) the real passivationManager, with the harness playing its loop goroutine, driven by generated
           operation sequences (register/unregister/pause/resume/touch/message-processed/next/trigger/
           process, with operations interleaved *inside* passivation attempts) — entries, heap head,
           trigger channel and every decision compared with the Coq model after every operation;
       (B) the real pid.markActivity coalescing against the real manager (deadline after every stamp);
       (C) the real pid.tryPassivation under every combination of guard flags;
       (D) real actors with the real loop and real timers: steady traffic, a burst of slow handlers,
           paused / suspended / long-lived / message-count actors, with the decision instants captured
           through the manager's passivateFn seam.
"""
import json
import os
import re

from vlib import read_jsonl, canon_hash

SEC = 10 ** 9
MIN = 60 * SEC
MS = 10 ** 6
OFFSET = 10 ** 15
TOUCH = 100 * MS
NF, NP = 3, 2
SIG_TURN = "runTurn:activity-stamp-read-once-per-turn"
SIG_STALE = "processMessageEntry:stale-trigger-after-in-place-reregistration"


def z(n):
    return "(%d)" % n if n < 0 else "%d" % n


def coq_list(items):
    return "[" + "; ".join(items) + "]"


# ------------------------------------------------------------------ (A) manager op sequences

ACT_MINUTES = [-12, -9, -7, -5, -3, -1, 1, 3, 5]


def next_activity(rng, hi, i):
    """activity stamps of a participant never go back (0 = reset() is always possible)"""
    if rng.random() < 0.15:
        return 0
    choices = [m for m in ACT_MINUTES if m >= hi.get(i, -99)] or [hi[i]]
    m = rng.choice(choices)
    hi[i] = m
    return OFFSET + m * MIN


def gen_simple_op(rng, ids, allow_register=True, avoid=None, hi=None):
    """one primitive operation on a participant; times are logical (OFFSET + minutes), distinct per id"""
    hi = hi if hi is not None else {}
    i = rng.choice(ids)
    r = rng.random()
    if r < 0.22 and allow_register and i != avoid:
        s = rng.choice([0, 0, 0, 1, 1, 2])
        if i < NF and s == 1 and rng.random() < 0.5:
            s = 0
        t = rng.choice([2, 4, 6, 10]) * MIN + (i + 1) * SEC
        return {"K": "register", "Id": i, "S": s, "T": t, "N": rng.choice([0, 1, 2, 3])}
    if r < 0.40:
        return {"K": "setlatest", "Id": i, "L": next_activity(rng, hi, i)}
    if r < 0.52:
        return {"K": "touch", "Id": i}
    if r < 0.62:
        return {"K": "pause", "Id": i}
    if r < 0.72:
        return {"K": "resume", "Id": i}
    if r < 0.78:
        return {"K": "unregister", "Id": i}
    if r < 0.90 and i >= NF:
        return {"K": "setprocessed", "Id": i, "N": rng.choice([0, 1, 2, 3, 4, 5, 8])}
    if i >= NF:
        return {"K": "msgprocessed", "Id": i}
    return {"K": "touch", "Id": i}


def gen_mgr_case(rng, cid, thorough):
    ids = list(range(NF + NP))
    ops = []
    hi = {}
    n = rng.randint(10, 40 if thorough else 26)
    # start with a few registrations so that something happens
    for i in rng.sample(ids, rng.randint(2, 4)):
        s = rng.choice([0, 0, 1]) if i >= NF else 0
        m0 = rng.choice([-12, -9, -5, -1, 3])
        hi[i] = m0
        ops.append({"K": "setlatest", "Id": i, "L": OFFSET + m0 * MIN})
        ops.append({"K": "register", "Id": i, "S": s, "T": rng.choice([2, 4, 6, 10]) * MIN + (i + 1) * SEC, "N": rng.choice([1, 2, 3])})
    nobj_guess = len(ops) // 2
    for _ in range(n):
        r = rng.random()
        if r < 0.14:
            ops.append({"K": "next"})
        elif r < 0.34:
            # trigger with a script: what happens while passivate runs, and its result.  A failed attempt
            # must leave the entry not due (activity in the future), paused or gone, otherwise the real loop spins.
            target = rng.choice(ids)
            script = []
            for _k in range(rng.randint(1, 2)):
                inner = []
                res = rng.random() < 0.4
                for _j in range(rng.randint(0, 2)):
                    inner.append(gen_simple_op(rng, ids, allow_register=True, avoid=target, hi=hi))
                if not res:
                    fix = rng.random()
                    if fix < 0.5:
                        mfix = rng.choice([7, 9, 11])
                        hi[target] = max(hi.get(target, -99), mfix)
                        inner.append({"K": "setlatest", "Id": target, "L": OFFSET + hi[target] * MIN})
                    elif fix < 0.75:
                        inner.append({"K": "pause", "Id": target})
                    else:
                        inner.append({"K": "unregister", "Id": target})
                script.append({"Inner": inner, "Res": res})
            # the last scripted call succeeds or makes the entry not due, so the loop ends within the script
            ops.append({"K": "trigger", "Id": target, "Obj": -1, "Script": script})
        elif r < 0.42:
            inner = [gen_simple_op(rng, ids, allow_register=False, hi=hi) for _ in range(rng.randint(0, 2))]
            ops.append({"K": "process", "Script": [{"Inner": inner, "Res": rng.random() < 0.5}]})
        elif r < 0.50:
            # activity while paused, reported to the manager, then resumed: the resume must honour it
            i = rng.choice(ids[:NF + 1])
            ops.append({"K": "pause", "Id": i})
            ops.append({"K": "setlatest", "Id": i, "L": next_activity(rng, hi, i)})
            ops.append({"K": "touch", "Id": i})
            ops.append({"K": "resume", "Id": i})
            ops.append({"K": "trigger", "Id": i, "Obj": -1, "Script": [{"Inner": [], "Res": True}]})
        else:
            ops.append(gen_simple_op(rng, ids, hi=hi))
    return {"Id": cid, "Ops": ops}


def coq_op(o):
    """manager sequences are given to Coq in seconds (every value is a whole number of seconds; the
    operations used there only add and compare times, the 100 ms constant is not involved)"""
    k = o["K"]
    now = z(OFFSET // SEC)
    if k == "setlatest":
        return "OSetLatest %d%%nat %s" % (o["Id"], z(o["L"] // SEC))
    if k == "setprocessed":
        return "OSetProcessed %d%%nat %s" % (o["Id"], z(o["N"]))
    if k == "register":
        s = ["STime %s" % z(o["T"] // SEC), "SCount %s" % z(o["N"]), "SOther"][o["S"]]
        return "ORegister %d%%nat (%s) %s %s" % (o["Id"], s, "true" if o["Id"] >= NF else "false", now)
    if k == "unregister":
        return "OUnregister %d%%nat" % o["Id"]
    if k == "pause":
        return "OPause %d%%nat" % o["Id"]
    if k == "resume":
        return "OResume %d%%nat %s" % (o["Id"], now)
    if k == "touch":
        return "OTouch %d%%nat %s" % (o["Id"], now)
    if k == "msgprocessed":
        return "OMsgProcessed %d%%nat" % o["Id"]
    if k == "next":
        return "ONext %s" % now
    raise ValueError(k)


def coq_hop(o):
    if o["K"] == "trigger":
        script = coq_list("(%s, %s)" % (coq_list(coq_op(x) for x in c["Inner"]), "true" if c["Res"] else "false") for c in o["Script"])
        return "HTrigger %d%%nat %d%%nat %s %s" % (o["Id"], max(o["Obj"], 0) if o["Obj"] >= 0 else 999, z(OFFSET // SEC), script)
    if o["K"] == "process":
        c = o["Script"][0]
        return "HProcess %s %s" % (coq_list(coq_op(x) for x in c["Inner"]), "true" if c["Res"] else "false")
    return "HOp (%s)" % coq_op(o)


def rnd_sec(v):
    return int(round(v / SEC)) * SEC


def run(ctx):
    ctx.trusted += ["hand-written model C12/Model.v (validated each run against the real manager, markActivity and tryPassivation)",
                    "real clock readings of the manager (time.Now) are not substituted: the step-by-step sequences keep every comparison at least a second away from a tie; live runs use tolerances"]
    ctx.assumptions += ["activity stamps of an actor never go back and are not in the future (valid_op)",
                        "an entry is not re-registered in place as a message-count entry while its passivation attempt is in flight (guard of valid_op; the Go code would then push a message-count entry onto the deadline heap)",
                        "PostStop-once is observed on live runs only (C06 owns the ordering proof)"]
    rng = ctx.rng
    work = ctx.work

    # ---- inputs
    n_mgr = 400 if ctx.thorough else 90
    mgr_cases = []
    corpus = [
        # the stale message-count trigger (witness of C12_count_threshold_refuted)
        {"Ops": [{"K": "register", "Id": NF, "S": 1, "N": 2, "T": 0}, {"K": "setprocessed", "Id": NF, "N": 3}, {"K": "msgprocessed", "Id": NF},
                 {"K": "register", "Id": NF, "S": 1, "N": 2, "T": 0}, {"K": "process", "Script": [{"Inner": [], "Res": False}]}]},
        # pause between decision and completion; resume; trigger again
        {"Ops": [{"K": "setlatest", "Id": 0, "L": OFFSET - 9 * MIN}, {"K": "register", "Id": 0, "S": 0, "T": 2 * MIN + SEC, "N": 0}, {"K": "next"},
                 {"K": "trigger", "Id": 0, "Obj": 0, "Script": [{"Inner": [{"K": "pause", "Id": 0}], "Res": False}]},
                 {"K": "resume", "Id": 0}, {"K": "next"}, {"K": "trigger", "Id": 0, "Obj": 0, "Script": [{"Inner": [], "Res": True}]}, {"K": "next"}]},
        # touch with fresh activity just before the trigger: must not be decided
        {"Ops": [{"K": "setlatest", "Id": 1, "L": OFFSET - 9 * MIN}, {"K": "register", "Id": 1, "S": 0, "T": 4 * MIN + 2 * SEC, "N": 0}, {"K": "next"},
                 {"K": "setlatest", "Id": 1, "L": OFFSET - 1 * MIN}, {"K": "touch", "Id": 1},
                 {"K": "trigger", "Id": 1, "Obj": 0, "Script": [{"Inner": [], "Res": True}]}, {"K": "next"}]},
    ]
    corpus.append(
        # a message handled (and reported) while paused, then resume: the pre-pause deadline must not be used
        {"Ops": [{"K": "setlatest", "Id": 0, "L": OFFSET - 9 * MIN}, {"K": "register", "Id": 0, "S": 0, "T": 4 * MIN + SEC, "N": 0}, {"K": "pause", "Id": 0},
                 {"K": "setlatest", "Id": 0, "L": OFFSET - 1 * MIN}, {"K": "touch", "Id": 0}, {"K": "resume", "Id": 0}, {"K": "next"},
                 {"K": "trigger", "Id": 0, "Obj": -1, "Script": [{"Inner": [], "Res": True}]}, {"K": "next"}]})
    for c in corpus:
        c["Id"] = len(mgr_cases)
        mgr_cases.append(c)
    while len(mgr_cases) < n_mgr:
        mgr_cases.append(gen_mgr_case(rng, len(mgr_cases), ctx.thorough))
    mark_cases = []
    incs = [0, 1, 50 * MS, 99 * MS, TOUCH - 1, TOUCH, TOUCH + 1, 101 * MS, 150 * MS, 199 * MS, 200 * MS, 250 * MS, 999 * MS]
    for i in range(60 if ctx.thorough else 24):
        mark_cases.append({"Id": i, "Timeout": rng.choice([150 * MS, 300 * MS, 2 * SEC, 120 * SEC]),
                           "Steps": [rng.choice(incs) if rng.random() < 0.85 else rng.randint(0, 300 * MS) for _ in range(rng.randint(8, 30))]})
    guard_cases = []
    gid = 0
    for ll in (False, True):
        for skip in (False, True):
            for stopping in (False, True):
                for susp in (False, True):
                    for paused in (False, True):
                        if ll and (stopping or susp):
                            continue
                        guard_cases.append({"Id": gid, "LongLived": ll, "SkipNext": skip, "Stopping": stopping, "Suspended": susp, "Paused": paused, "Mid": False})
                        gid += 1
    guard_cases.append({"Id": gid, "LongLived": False, "SkipNext": False, "Stopping": False, "Suspended": False, "Paused": False, "Mid": True})
    for name, data in (("c12_mgr_in.jsonl", mgr_cases), ("c12_mark_in.jsonl", mark_cases), ("c12_guard_in.jsonl", guard_cases)):
        with open(os.path.join(work, name), "w") as f:
            for x in data:
                f.write(json.dumps(x) + "\n")
    for fn in ("c12_mgr_out.jsonl", "c12_mark_out.jsonl", "c12_guard_out.jsonl", "c12_live_out.jsonl"):
        p = os.path.join(work, fn)
        if os.path.exists(p):
            os.remove(p)

    rc, out = ctx.go_test("actor", "^TestVerifC12", ["zz_verif_C12_test.go"], timeout=1500)
    ctx.log("go harness done rc=%d" % rc)
    mgr_outs = read_jsonl(os.path.join(work, "c12_mgr_out.jsonl"))
    mark_outs = read_jsonl(os.path.join(work, "c12_mark_out.jsonl"))
    guard_outs = read_jsonl(os.path.join(work, "c12_guard_out.jsonl"))
    live_outs = read_jsonl(os.path.join(work, "c12_live_out.jsonl"))
    if rc != 0 or len(mgr_outs) != len(mgr_cases) or len(mark_outs) != len(mark_cases) or len(guard_outs) != len(guard_cases) or not live_outs:
        ctx.tie_broken("go-harness actor passivation (TestVerifC12*)", out)
        if len(mgr_outs) != len(mgr_cases):
            mgr_outs = []
        if len(mark_outs) != len(mark_cases):
            mark_outs = []
        if len(guard_outs) != len(guard_cases):
            guard_outs = []

    budget = {"n": 0}

    def viol(sig, what, replay):
        if budget["n"] < 6:
            budget["n"] += 1
            ctx.violation(sig, what, replay)

    # ---- (A) property oracle on the manager runs: every decision must be justified
    op_hist = {}
    n_decisions = n_steps = 0
    stale_seen = 0
    n_cut = 0
    coq_mgr = []
    nontrivial = set()
    for cs, res in zip(mgr_cases, mgr_outs):
        if res.get("Err"):
            ctx.tie_broken("go-harness manager script", {"case": cs["Id"], "err": res["Err"]})
            continue
        latest = {}
        processed = {}
        reported = {}
        timeouts = {}
        prev_entries = {}
        hops, obs = [], []
        decided_any = False
        cut_case = False
        for o, st in zip(cs["Ops"], res["Steps"]):
            if cut_case:
                n_cut += 1
                break
            n_steps += 1
            op_hist[o["K"]] = op_hist.get(o["K"], 0) + 1

            def track(x):
                if x["K"] == "setlatest":
                    latest[x["Id"]] = x["L"]
                if x["K"] == "setprocessed":
                    processed[x["Id"]] = x["N"]
                if x["K"] in ("touch", "register"):
                    # the activity the manager has been told about: a Touch attempt (markActivity -> Touch; the
                    # manager must honour it at once or, if the entry is paused / popped / re-registered, when
                    # it next recomputes the deadline) or the reading Register itself makes.  Resume is NOT a
                    # report: on an entry that is not paused it reads nothing.  Stamps never go back in these
                    # sequences, so every later recomputation sees at least this value.
                    reported[x["Id"]] = latest.get(x["Id"], 0)
                if x["K"] == "register":
                    timeouts[x["Id"]] = x["T"] if x["S"] == 0 else None
            decision_reported = dict(reported)
            decision_timeouts = dict(timeouts)
            track(o)
            if o["K"] == "trigger":
                # the expected pointer: the object currently (or last) known for that participant
                obj = o["Obj"]
                if obj < 0:
                    e = prev_entries.get(o["Id"])
                    obj = e["Obj"] if e else 999
                o = dict(o, Obj=obj)
            ents = {e["Id"]: e for e in (st["Entries"] or [])}
            for k, d in enumerate(st.get("Decided") or []):
                n_decisions += 1
                decided_any = True
                pid_idx = d[0]
                e = prev_entries.get(pid_idx)
                if o["K"] == "trigger":
                    # time based: not paused, in the heap, deadline passed, and activity older than T - slack
                    # (k > 0: the state before that call is not recorded; the model comparison covers it)
                    if k == 0:
                        l = latest.get(pid_idx, 0)
                        if e is None or e["Strat"] != 0 or e["Paused"] or not e["InHeap"]:
                            viol("trigger:decision-without-eligible-entry", "manager case %d: passivate called for participant %d whose entry before the call was %s" % (cs["Id"], pid_idx, e),
                                 {"case": cs, "op": o, "before": e})
                        elif e["Deadline"] > OFFSET + 30 * SEC:
                            viol("trigger:deadline-not-reached", "manager case %d: passivate called for participant %d although its deadline is %.0f s in the future" %
                                 (cs["Id"], pid_idx, (e["Deadline"] - OFFSET) / SEC), {"case": cs, "op": o, "before": e})
                        else:
                            rep, tmo = decision_reported.get(pid_idx, 0), decision_timeouts.get(pid_idx)
                            if rep and tmo and (OFFSET - rep) + 30 * SEC < tmo - TOUCH:
                                viol("trigger:activity-reported-to-the-manager-ignored", "manager case %d: passivate called for participant %d (timeout %.0f s) although the activity it last reported to the manager (Touch / Register) is only %.0f s old; deadline in use: %.0f s ago" %
                                     (cs["Id"], pid_idx, tmo / SEC, (OFFSET - rep) / SEC, (OFFSET - e["Deadline"]) / SEC), {"case": cs, "op": o, "before": e, "reported_activity_age_s": (OFFSET - rep) / SEC})
                elif o["K"] == "process":
                    if e is None or e["Paused"]:
                        viol("processMessageEntry:decision-without-eligible-entry", "manager case %d: passivate called for participant %d whose entry before the call was %s" % (cs["Id"], pid_idx, e),
                             {"case": cs, "op": o, "before": e})
                    elif e["Strat"] == 0:
                        # the same defect, entry re-registered in place as TIME-based: the stale message-count trigger
                        # passivates it and (when the attempt succeeds) drops it from the map while its slot stays in the
                        # deadline heap.  The model has no such dangling slot: the rest of the case is outside its validity.
                        stale_seen += 1
                        cut_case = True
                        if stale_seen == 1:
                            viol(SIG_STALE, "manager case %d: a message-count trigger queued before the entry was re-registered (now time based) still leads to a passivation attempt" % cs["Id"],
                                 {"case": cs, "op": o, "before": e})
                    elif e["Strat"] == 1 and not e["Pending"]:
                        # the threshold was not reached for the current registration
                        stale_seen += 1
                        if stale_seen == 1:
                            viol(SIG_STALE, "manager case %d: a message-count trigger queued before the entry was re-registered leads to a passivation attempt although the counter (%s) is below baseline %d + maxMessages" %
                                 (cs["Id"], processed.get(pid_idx), e["Base"]), {"case": cs, "op": o, "before": e})
            # only the scripted calls of passivate that actually happened ran their inner operations
            for c in (o.get("Script") or [])[:(st.get("Calls") or 0)]:
                for x in c["Inner"]:
                    track(x)
            prev_entries = ents
            hops.append(coq_hop(o))
            ent_l = coq_list(coq_list([z(e["Id"]), z(e["Strat"]), z(rnd_sec(e["Deadline"]) // SEC if e["Strat"] == 0 else 0), z(int(e["InHeap"])), z(int(e["Paused"])),
                                       z(int(e["Pending"])), z(int(e["Enq"])), z(e["Base"] if e["Strat"] == 1 else 0)]) for e in (st["Entries"] or []))
            outk = st.get("Out") or ""
            if outk == "next":
                outc = "RNext (Some (%d%%nat, %d%%nat, %s))" % (st["OutId"], max(st["OutObj"], 0), z(rnd_sec(st["OutWait"]) // SEC))
            elif outk == "next:none":
                outc = "RNext None"
            elif outk.startswith("bool:"):
                outc = "RBool %s" % outk[5:]
            else:
                outc = "RNone"
            obs.append("((%s, %s), (%s, %d%%nat))" % (ent_l, z(st["Chan"]), outc, st.get("Calls") or 0))
        coq_mgr.append((cs["Id"], hops, obs))
        if decided_any and len(cs["Ops"]) >= 8:
            nontrivial.add(canon_hash(cs["Ops"]))

    # ---- (B) coalescing: the deadline never lags the latest stamp by more than the touch interval
    n_marks = 0
    coq_mark = []
    for cs, res in zip(mark_cases, mark_outs):
        T = cs["Timeout"]
        items = []
        for o in res["Steps"]:
            n_marks += 1
            if o["Latest"] != o["At"]:
                viol("markActivity:latest-stamp", "markActivity(at=%d ns) left latestReceiveTimeNano=%d" % (o["At"], o["Latest"]), {"case": cs, "obs": o})
            if o["Deadline"] < o["Latest"] + T - TOUCH + 1:
                viol("markActivity:deadline-lags-activity", "timeout %d ms: after a message stamped at +%.1f ms the manager deadline is +%.1f ms, i.e. the actor could be passivated %.1f ms after that message (allowed slack: 100 ms)" %
                     (T // MS, o["At"] / MS, o["Deadline"] / MS, (o["Deadline"] - o["At"]) / MS), {"case": cs, "obs": o, "steps_so_far": res["Steps"][:res["Steps"].index(o) + 1]})
            items.append("(%s, %s, %s)" % (z(o["At"] + OFFSET), z(o["Touch"] + OFFSET), z(o["Deadline"] + OFFSET)))
        coq_mark.append("(%s, %s)" % (z(T), coq_list(items)))

    # ---- (C) guards
    n_guard_pass = 0
    coq_guard = []
    for cs, res in zip(guard_cases, guard_outs):
        blocked = cs["LongLived"] or cs["SkipNext"] or cs["Stopping"] or cs["Suspended"] or cs["Paused"] or cs["Mid"]
        if res["Passivated"] and blocked:
            viol("tryPassivation:guard", "tryPassivation stopped an actor with flags %s" % {k: v for k, v in cs.items() if v is True}, {"case": cs, "result": res})
        if res["Passivated"]:
            n_guard_pass += 1
            if res["RunningAfter"] or res["PostStops"] != 1:
                viol("tryPassivation:stop", "passivated actor: still running=%s, PostStop ran %d times" % (res["RunningAfter"], res["PostStops"]), {"case": cs, "result": res})
        elif res["PostStops"] != 0 or not res["RunningAfter"]:
            viol("tryPassivation:refused-but-stopped", "tryPassivation returned false but PostStop ran %d times / running=%s" % (res["PostStops"], res["RunningAfter"]), {"case": cs, "result": res})
        b = lambda x: "true" if x else "false"
        coq_guard.append("(mkF false %s false %s %s %s %s %s, (%s, %s))" % (b(cs["LongLived"]), b(cs["SkipNext"]), b(cs["Stopping"]), b(cs["Suspended"]), b(cs["Paused"]), b(cs["Mid"]),
                                                                            b(res["Passivated"]), b(res["SkipAfter"])))

    # ---- (D) live actors
    live_stats = {}
    turn_findings = 0
    for o in live_outs:
        kind, T = o["Kind"], o["TimeoutNs"]
        decs = o.get("Decisions") or []
        ress = o.get("Results") or []
        starts = o.get("Starts") or []
        stamps = o.get("Stamps") or []
        posts = o.get("Posts") or []
        live_stats[o["Name"]] = {"decisions": len(decs), "handled": len(starts), "poststops": len(posts)}
        passivated = [d for d, r in zip(decs, ress) if r]
        if len(posts) > 1:
            viol("passivation:PostStop-more-than-once", "%s: PostStop ran %d times" % (o["Name"], len(posts)), o)
        if passivated and (o["Running"] or len(posts) != 1):
            viol("passivation:passivated-but-running", "%s: passivation reported success, running=%s PostStop count=%d" % (o["Name"], o["Running"], len(posts)), o)
        if kind in ("steady", "burst", "pausedbusy"):
            for d, r in zip(decs, ress):
                if not r:
                    continue
                # messages whose handling began at least 3 ms before the decision
                recent = [(h, s) for h, s in zip(starts, stamps) if h <= d - 3 * MS]
                if not recent:
                    continue
                h, s = max(recent)
                if d - h < T - TOUCH - 5 * MS:
                    by_stamp_ok = d - max(x[1] for x in recent) >= T - TOUCH - 5 * MS
                    if by_stamp_ok:
                        turn_findings += 1
                        if turn_findings == 1:
                            viol(SIG_TURN, "%s (timeout %d ms): passivated %.0f ms after it began handling a message; that message carried the activity stamp of its dispatcher turn's start (%.0f ms earlier), so the deadline was not refreshed; %d of %d sent messages were handled" %
                                 (o["Name"], T // MS, (d - h) / MS, (h - s) / MS, len(starts), o["Sent"]), o)
                    else:
                        viol("passivation:early", "%s (timeout %d ms): passivated %.0f ms after it began handling a message (allowed: not before %d ms)" %
                             (o["Name"], T // MS, (d - h) / MS, (T - TOUCH) // MS), o)
        if kind in ("paused", "pausedbusy"):
            lo, hi = o["PhaseMarks"]["paused"] + 30 * MS, o["PhaseMarks"]["resume"]
            if any(lo <= d <= hi and r for d, r in zip(decs, ress)) or any(lo <= p <= hi for p in posts):
                viol("passivation:while-paused", "%s: passivated while passivation was paused" % o["Name"], o)
        if kind == "suspended":
            lo, hi = o["PhaseMarks"]["suspended"] + 30 * MS, o["PhaseMarks"]["reinstate"]
            if any(lo <= d <= hi and r for d, r in zip(decs, ress)) or any(lo <= p <= hi for p in posts):
                viol("passivation:while-suspended", "%s: passivated while suspended" % o["Name"], o)
        if kind == "longlived" and (decs or posts or not o["Running"]):
            viol("passivation:long-lived", "%s: a long-lived actor was scheduled for passivation / stopped" % o["Name"], o)
        if kind == "count":
            for d, r, pc in zip(decs, ress, o.get("Processed") or []):
                # processedCount includes PostStart; N user messages since registration => counter >= N + 1
                if r and pc < o["MaxMsgs"] + 1:
                    viol("passivation:message-count-threshold", "%s: passivated with processed counter %d, threshold %d user messages" % (o["Name"], pc, o["MaxMsgs"]), o)
            if passivated and o["PhaseMarks"].get("second-batch") and min(passivated) < o["PhaseMarks"]["second-batch"]:
                viol("passivation:message-count-threshold", "%s: passivated after only 2 of %d messages" % (o["Name"], o["MaxMsgs"]), o)

    ctx.log("oracles done")
    # ---- model vs implementation
    coq_stats = None
    if coq_mgr or coq_mark or coq_guard:
        body = """From Coq Require Import ZArith List Bool Arith. Import ListNotations.
From GV Require Import C12.Model.
Open Scope Z_scope.
Fixpoint list_eqb {A} (eq : A -> A -> bool) (a b : list A) : bool :=
  match a, b with [], [] => true | x :: r, y :: s => eq x y && list_eqb eq r s | _, _ => false end.
Definition out_eqb (a b : out) : bool :=
  match a, b with
  | RNone, RNone => true
  | RBool x, RBool y => Bool.eqb x y
  | RNext None, RNext None => true
  | RNext (Some (i, o, w)), RNext (Some (i', o', w')) => Nat.eqb i i' && Nat.eqb o o' && (w =? w')
  | RDecide _, RNone => true
  | _, _ => false
  end.
Definition obs_t := ((list (list Z) * Z) * (out * nat))%%type.
Definition obs_eqb (a b : obs_t) : bool :=
  list_eqb (list_eqb Z.eqb) (fst (fst a)) (fst (fst b)) && (snd (fst a) =? snd (fst b)) &&
  out_eqb (fst (snd a)) (fst (snd b)) && Nat.eqb (snd (snd a)) (snd (snd b)).
Definition mgr_cases : list (nat * list hop * list obs_t) := %s.
Definition model_obs (hs : list hop) : list obs_t := map (fun r => (obs (fst r), snd r)) (hrun m0 hs).
Fixpoint first_diff (n : nat) (a b : list obs_t) : option nat :=
  match a, b with
  | [], [] => None
  | x :: r, y :: s => if obs_eqb x y then first_diff (S n) r s else Some n
  | _, _ => Some n
  end.
Definition mgr_bad := filter (fun c => match c with (id, hs, ob) => match first_diff 0 (model_obs hs) ob with Some _ => true | None => false end end) mgr_cases.
Definition mgr_bad_ids := map (fun c => match c with (id, hs, ob) => (id, first_diff 0 (model_obs hs) ob) end) mgr_bad.
(* markActivity: registration with the first stamp as latest activity, then one OMark per stamp *)
Definition mark_cases : list (Z * list (Z * Z * Z)) := %s.
Definition mark_ok (c : Z * list (Z * Z * Z)) : bool :=
  let '(t, steps) := c in
  let m1 := final m0 [OSetLatest 0 %s; ORegister 0 (STime t) true %s] in
  let m1 := set_part m1 0%%nat (mkP %s %s 0 %s) in
  (fix go (m : mstate) (l : list (Z * Z * Z)) : bool :=
     match l with
     | [] => true
     | (a, touch, dl) :: r =>
         let m' := fst (step m (OMark 0 a a)) in
         match aget 0%%nat (m_entries m') with
         | Some e => (e_deadline e =? dl) && (p_touch (get_part m' 0) =? touch) && (p_latest (get_part m' 0) =? a) && go m' r
         | None => false
         end
     end) m1 steps.
Definition mark_bad := length (filter (fun c => negb (mark_ok c)) mark_cases).
Definition guard_cases : list (pflags * (bool * bool)) := %s.
Definition guard_bad := length (filter (fun c => negb (Bool.eqb (fst (try_passivation (fst c))) (fst (snd c)) && Bool.eqb (snd (try_passivation (fst c))) (snd (snd c)))) guard_cases).
Definition summary := (length mgr_cases, length mgr_bad, firstn 4 mgr_bad_ids, length mark_cases, mark_bad, length guard_cases, guard_bad).
Eval vm_compute in summary.
""" % (coq_list("(%d%%nat, %s, %s)" % (cid, coq_list(h), coq_list(o)) for cid, h, o in coq_mgr),
           coq_list(coq_mark), z(OFFSET), z(OFFSET), z(OFFSET), z(OFFSET), z(OFFSET), coq_list(coq_guard))
        rc2, o2 = ctx.coq_eval("cases_C12", body)
        flat = " ".join(o2.split())
        m_ = re.search(r"= \((\d+)%nat, (\d+)%nat, (\[.*?\]), (\d+)%nat, (\d+)%nat, (\d+)%nat, (\d+)%nat\)", flat)
        if rc2 != 0 or not m_:
            ctx.tie_broken("model-evaluation (cases_C12.v did not evaluate)", o2)
        else:
            coq_stats = {"manager_cases": int(m_.group(1)), "manager_mismatches": int(m_.group(2)), "first_mismatches(case,step)": m_.group(3),
                         "mark_cases": int(m_.group(4)), "mark_mismatches": int(m_.group(5)), "guard_cases": int(m_.group(6)), "guard_mismatches": int(m_.group(7))}
            if coq_stats["manager_mismatches"]:
                ctx.tie_broken("model C12/Model.v vs passivationManager (step-by-step sequences)", coq_stats)
            if coq_stats["mark_mismatches"]:
                ctx.tie_broken("model C12/Model.v OMark vs pid.markActivity", coq_stats)
            if coq_stats["guard_mismatches"]:
                ctx.tie_broken("model C12/Model.v try_passivation vs pid.tryPassivation", coq_stats)

    ctx.log("model evaluation done")
    # ---- the theorems
    if not ctx.coq_property():
        if not any(f.kind == "violation" for f in ctx.findings):
            ctx.proof_broken("Properties/C12.v (%s)" % getattr(ctx, "failed_at", "?"), getattr(ctx, "coq_log", ""))
        else:
            ctx.notes.append("Coq obligation broken at %s; concrete failing input reported" % getattr(ctx, "failed_at", "?"))

    ctx.coverage.update({
        "evaluations": n_steps + n_marks + len(guard_outs) + len(live_outs),
        "distinct_nontrivial": len(nontrivial) + len({canon_hash(c["Steps"]) for c in mark_cases}),
        "rule": "manager: seeded sequences of 10-40 operations over 3 fake participants and 2 real PIDs (register time/count/long-lived, set activity, touch, pause, resume, unregister, counters, next, trigger and process with operations interleaved inside the passivation attempt) — non-trivial = at least 8 operations and at least one passivation decision, distinct by sequence; markActivity: stamp increment series around the 100 ms coalescing boundary, distinct by series",
        "samples": [mgr_cases[1], mgr_cases[len(corpus)] if len(mgr_cases) > len(corpus) else mgr_cases[0], mark_cases[0]],
        "manager_steps": n_steps, "manager_decisions": n_decisions, "op_histogram": op_hist, "mark_steps": n_marks,
        "guard_combinations": len(guard_outs), "guard_combinations_passivated": n_guard_pass, "live": live_stats,
        "stale_trigger_findings": stale_seen, "cases_cut_after_stale_trigger_on_time_based_entry": n_cut, "turn_stamp_findings": turn_findings, "model_vs_implementation": coq_stats,
        "theorems": ["C12_no_early_passivation", "C12_no_early_passivation_handled", "C12_no_early_passivation_handled_refuted", "C12_resume_refreshes", "C12_count_threshold_partial",
                     "C12_count_threshold_refuted", "C12_long_lived_never_scheduled", "C12_entries_have_a_passivating_strategy", "C12_try_passivation_guards", "C12_invariant"],
    })


META = {
    "ready": True,
    "category": "proof",
    "technique": "Rocq inductive invariant over all operation histories of the passivation manager + differential validation against the real manager, markActivity and tryPassivation",
    "text": "The passivation manager, the touch coalescing of markActivity and the guards of tryPassivation are modelled with a logical clock; an inductive invariant over every reachable state gives: a passivation decision is only taken for an un-paused time-based entry whose latest activity is older than timeout-100ms, message-count decisions need the threshold, long-lived strategies are never scheduled. Every run replays generated operation sequences (with operations interleaved inside passivation attempts) on the real manager and compares every step with the Coq model, and runs live actors with real timers.",
    "design_ref": "DESIGN.md 7/C12",
    "level_note": "Trusted: Coq kernel, the hand model (validated differentially each run). Real timer accuracy is not verified; live runs use tolerant oracles.",
}
