"""C01 — an actor's message handler never runs concurrently with itself.

Proof:  Properties/C01.v over the hand-written model C01/Model.v (M-DISPATCH): inductive ticket
        invariant over `reach` (any number of producers/workers/restarters, any interleaving,
        any budget, any mailbox, PID and grain variants); refutation witness for the off-turn
        reset in restartSubtree.
Tie:    (a) dispatchState methods vs the model's ds_run on generated op sequences (vm_compute);
        (b) source-order tie: tools/protoorder reads the CURRENT source of doReceive / runTurn /
            finishOrReclaim / restartSubtree / grain producers / worker.run and the order and
            inventory of their protocol operations is compared with the op traces and program
            inventories computed from the Coq model;
        (c) real-goroutine stress through real actors (overlap detector, gate-mailbox yield noise);
        (d) scripted emulated-preemption scenarios S1..S6 and the restart witness on real actors.
Oracle: handler entry/exit overlap counter, concurrent-Dequeue detector.
"""
import collections
import json
import os
import re

from vlib import read_jsonl, canon_hash
import dispatch_util as du

KNOWN_RESTART_SIG = "restartSubtree:offturn-reset:handler-overlap"

PO_STOP = ["dispatchOne", "handleReceivedError", "Shutdown", "init", "resetBehavior", "cancelInFlightRequests",
           "IsRunning", "isActive", "take", "push", "pushLocal", "fireSystemMessage", "registerMetrics",
           "startPassivation", "unregisterMetrics", "markActivity", "Err", "build"]


def po_spec(iface_recv):
    return {"files": du.ACTOR_FILES, "depth": 6, "stop": PO_STOP, "iface": {"runTurn": iface_recv}, "track": ["schedState"], "scan_dir": "actor",
            "entries": [
                {"name": "pid.doReceive", "recv": "PID", "func": "doReceive"},
                {"name": "worker.run", "recv": "worker", "func": "run"},
                {"name": "restartSubtree", "recv": "", "func": "restartSubtree"},
                {"name": "grain.receive", "recv": "grainPID", "func": "receive"},
                {"name": "grain.enqueueEnvelope", "recv": "grainPID", "func": "enqueueEnvelope"},
                {"name": "grain.deliverTimerTick", "recv": "grainPID", "func": "deliverTimerTick"},
                {"name": "grain.enqueuePassivationPill", "recv": "grainPID", "func": "enqueuePassivationPill"},
            ]}


def norm(tok):
    if tok.endswith("blockingCount.Load"):
        return "blockingCount.Load"
    return tok


def ntoks(seq, unroll=1):
    return [norm(t) for t in du.flatten(seq, unroll)]


# label sequences whose per-thread op traces are the model's thread programs along the main paths
# threads: 0 producer, 1 worker, 2 restarter, 3 producer
PATHS = {
    # name: (labels, {thread: entry})
    "uncontended send, turn with one message, drain, exit": (
        "[LSend 0 false; LStep 0; LStep 0; LStep 0; LStep 0; "
        "LStep 2; LStep 2; LStep 2; LStep 1; LStep 1; LStep 1; LStep 1; LStep 1; LStep 1; LStep 1; LStep 1; LStep 1; LStep 1; LStep 1]"),
    "send during the turn loses the Load, owner reclaims after reset, budget exhausted, yield": (
        "[LSend 0 false; LStep 0; LStep 0; LStep 0; LStep 0; "
        "LStep 1; LStep 1; LStep 1; LStep 1; LStep 1; LStep 1; LStep 1; "
        "LSend 3 false; LStep 3; LStep 3; "
        "LStep 1; LStep 1; LStep 1; LStep 1; LStep 1; LStep 1; LStep 1; LStep 1; LStep 1; LStep 1; LStep 1; LStep 1; LStep 1]"),
    "control message through the system mailbox": (
        "[LSend 0 true; LStep 0; LStep 0; LStep 0; LStep 0; LStep 1; LStep 1; LStep 1; LStep 1; LStep 1; LStep 1; LStep 1; LStep 1; LStep 1; LStep 1]"),
}


def coq_model_traces(ctx, flag):
    """per-thread op traces of PATHS and program inventories, from the Coq model (vm_compute)"""
    names = list(PATHS)
    defs = []
    for g in ("false", "true"):
        for i, n in enumerate(names):
            defs.append("(labelled (MkCfg 3 %s %s) %s)" % (g, flag, PATHS[n]))
    body = """From Coq Require Import List Arith Bool. Import ListNotations.
From GV Require Import C01.Model.
Definition pre := [LSpawn KProducer; LSpawn KWorker; LSpawn KRestarter; LSpawn KProducer].
Definition start c := match run F F c (init_state F F) pre with Some s => s | None => init_state F F end.
Definition tid (l : label) : nat := match l with LStep i | LSend i _ | LPause i _ => i | LSpawn _ => 99 end.
Definition op_at (s : state F F) (l : label) : opk :=
  match nth_error (ths s) (tid l) with Some p => pc_op p | None => KNone end.
(* (thread, op kind) of every label that is enabled, in order; labels that are not enabled are skipped *)
Fixpoint ltrace c (s : state F F) (ls : list label) : list (nat * opk) :=
  match ls with
  | [] => []
  | l :: r => match step F F c s l with Some s' => (tid l, op_at s l) :: ltrace c s' r | None => ltrace c s r end
  end.
Definition labelled c ls := ltrace c (start c) ls.
Definition all := [%s].
Definition inv := [map pc_op prog_producer; map pc_op (prog_worker false); map pc_op (prog_worker true); map pc_op (prog_restarter %s)].
Eval vm_compute in (map (map fst) all).
Eval vm_compute in (map (map snd) all).
Eval vm_compute in inv.
(* the restart witness under the code's variant of restartSubtree, PID and grain *)
Definition wit g := match run F F (MkCfg 32 g %s) (init_state F F) witness_restart with
  | Some s => (two_in_handler s, offresets s) | None => (false, 99) end.
Eval vm_compute in (wit false, wit true).
""" % ("; ".join(defs), flag, flag)
    rc, out = ctx.coq_eval("traces_C01", body)
    if rc != 0:
        return None, out
    chunks = re.split(r"\n\s*=", "\n" + out)
    chunks = [c for c in chunks if c.strip()]
    if len(chunks) < 4:
        return None, out
    tids = du.parse_opk_lists("= " + chunks[0])
    ops = du.parse_opk_lists("= " + chunks[1])
    inv = du.parse_opk_lists("= " + chunks[2])
    mw = re.search(r"\(\s*(true|false)\s*,\s*(\d+)\s*,\s*\(\s*(true|false)\s*,\s*(\d+)\s*\)\s*\)", " ".join(chunks[3].split()))
    if tids is None or ops is None or inv is None or not mw:
        return None, out
    res = {"paths": [], "inv": inv, "wit_overlap": mw.group(1) == "true" and mw.group(3) == "true",
           "wit_offresets": int(mw.group(2))}
    k = 0
    for g in (False, True):
        for n in names:
            t = [int(x) for x in tids[k]]
            o = ops[k]
            if len(t) != len(o):
                return None, "model path %r not executable: %d labels, %d ops" % (n, len(t), len(o))
            per = collections.OrderedDict()
            for ti, oi in zip(t, o):
                per.setdefault(ti, []).append(oi)
            res["paths"].append({"grain": g, "name": n, "threads": per})
            k += 1
    return res, out


def source_tie(ctx, flag_holder):
    """(b): order + inventory of protocol operations in the current source vs the model"""
    okp, pid_po = du.protoorder(ctx, po_spec("PID"), "pid")
    okg, gr_po = du.protoorder(ctx, po_spec("grainPID"), "grain")
    if not okp or not okg:
        ctx.tie_broken("source-order extractor (tools/protoorder) failed", pid_po if not okp else gr_po)
        return None
    ent = pid_po["entries"]
    missing = [k for k, v in ent.items() if v is None]
    if missing:
        ctx.tie_broken("anchored functions not found in the source", {"missing": missing})
        return None
    rs = ntoks(ent["restartSubtree"])
    flag = du.ST_IDLE in rs
    flag_holder["flag"] = flag
    other_writes = [t for t in rs if t in du.STATE_WRITES and t != du.ST_IDLE]
    if other_writes:
        ctx.tie_broken("restartSubtree writes schedState in a way the model does not have", {"writes": other_writes})
    # accessors of schedState that are not reached from any modelled entry point
    reached = set()
    for po in (pid_po, gr_po):
        for v in po["visited"].values():
            reached.update(v)
    called = set(pid_po.get("called") or [])
    # an accessor that nothing in the package calls (dead code left behind by a refactor) is not a thread program
    unmodelled = sorted({"%s uses schedState.%s" % (u["func"], u["method"]) for u in pid_po["users"].get("schedState", [])
                         if u["func"] not in reached and u["func"].split(".")[-1] in called})
    if unmodelled:
        ctx.tie_broken("schedState is accessed outside the modelled thread programs", {"accessors": unmodelled})
    model, raw = coq_model_traces(ctx, "true" if flag else "false")
    if model is None:
        ctx.tie_broken("model traces (traces_C01.v) did not evaluate", raw)
        return None
    problems = []
    entry_of = {  # (grain?, thread) -> list of source entries whose sequence must embed the thread's trace
        (False, 0): [("pid", "pid.doReceive")], (False, 3): [("pid", "pid.doReceive")],
        (False, 1): [("pid", "worker.run")], (False, 2): [("pid", "restartSubtree")],
        (True, 0): [("grain", "grain.receive"), ("grain", "grain.enqueueEnvelope"), ("grain", "grain.deliverTimerTick"),
                    ("grain", "grain.enqueuePassivationPill")],
        (True, 3): [("grain", "grain.receive")],
        (True, 1): [("grain", "worker.run")], (True, 2): [],
    }
    n_embed = 0
    for p in model["paths"]:
        for th, ops in p["threads"].items():
            if not flag:  # the model's RReset step is a no-op when the variant has no off-turn store
                ops = [o for o in ops if o != "KOffTurnStoreIdle"]
            path = du.ops_to_path(ops)
            for which, ename in entry_of[(p["grain"], th)]:
                if p["grain"] and "system mailbox" in p["name"] and th in (0, 3) and ename != "grain.enqueueEnvelope":
                    continue  # only enqueueEnvelope feeds the responses queue
                po = pid_po if which == "pid" else gr_po
                toks = ntoks(po["entries"][ename], unroll=4)
                ok, at = du.embed(path, toks)
                n_embed += 1
                if not ok:
                    problems.append({"entry": ename, "model_path": p["name"], "grain": p["grain"], "thread": th,
                                     "first_model_op_without_source_counterpart_in_order": ops[[i for i, o in enumerate(ops) if du.OP_TOKENS[o]][at]] if at < len(path) else None,
                                     "model_ops": ops, "source_tokens": ntoks(po["entries"][ename])[:60]})
    # inventories
    def inv_counts(ops):
        c = collections.Counter()
        for o in ops:
            t = du.OP_TOKENS.get(o)
            if t:
                c[o] += 1
        return c

    def src_counts(toks, kinds):
        c = collections.Counter()
        for k in kinds:
            c[k] = sum(1 for t in toks if t in du.OP_TOKENS[k])
        return c
    inv_checks = [
        ("pid.doReceive", pid_po, model["inv"][0], ["KStLoad", "KCasIdleSched", "KPushTicket", "KStoreIdle", "KStoreSched", "KCasSchedProc"]),
        ("grain.receive", gr_po, model["inv"][0], ["KStLoad", "KCasIdleSched", "KPushTicket", "KStoreIdle", "KStoreSched", "KCasSchedProc"]),
        ("grain.enqueueEnvelope", gr_po, model["inv"][0], ["KStLoad", "KCasIdleSched", "KPushTicket", "KStoreIdle", "KStoreSched", "KCasSchedProc"]),
        ("grain.deliverTimerTick", gr_po, model["inv"][0], ["KStLoad", "KCasIdleSched", "KPushTicket", "KStoreIdle", "KStoreSched", "KCasSchedProc"]),
        ("grain.enqueuePassivationPill", gr_po, model["inv"][0], ["KStLoad", "KCasIdleSched", "KPushTicket", "KStoreIdle", "KStoreSched", "KCasSchedProc"]),
        ("worker.run", pid_po, model["inv"][1], ["KTake", "KCasSchedProc", "KDeqSys", "KDeqUsr", "KStoreIdle", "KEmptyUsr", "KEmptySys", "KStLoad", "KCasIdleSched", "KStoreSched", "KRepush", "KPushTicket"]),
        ("worker.run", gr_po, model["inv"][2], ["KTake", "KCasSchedProc", "KDeqSys", "KDeqUsr", "KStoreIdle", "KEmptyUsr", "KEmptySys", "KStLoad", "KCasIdleSched", "KStoreSched", "KRepush", "KPushTicket"]),
    ]
    for ename, po, inv, kinds in inv_checks:
        toks = ntoks(po["entries"][ename])
        want, got = inv_counts(inv), src_counts(toks, kinds)
        for k in kinds:
            if want.get(k, 0) != got.get(k, 0):
                problems.append({"entry": ename, "variant": "grain" if po is gr_po else "pid", "operation": k,
                                 "occurrences_in_source": got.get(k, 0), "in_model_program": want.get(k, 0)})
    # restartSubtree inventory: one spin load, init, and the off-turn store iff the variant has it
    spin = [it for it in ent["restartSubtree"] if isinstance(it, dict) and "loop" in it and "v.Load" in ntoks(it["loop"])]
    if len(spin) != 1:
        problems.append({"entry": "restartSubtree", "operation": "spin on schedState.Load()", "loops_found": len(spin)})
    if rs.count(du.ST_IDLE) > 1:
        problems.append({"entry": "restartSubtree", "operation": "off-turn Store(Idle)", "occurrences_in_source": rs.count(du.ST_IDLE)})
    if problems:
        ctx.tie_broken("source order of protocol operations vs model thread programs", {"problems": problems[:6]})
    return {"flag": flag, "model": model, "embeddings_checked": n_embed, "problems": len(problems)}


def ds_cases(ctx):
    rng = ctx.rng
    ops = ["Load", "TrySchedule", "TakeForProcessing", "Yield", "Reset"]
    cases = []
    # corpus: every (state, op) pair, then every pair of ops from every state
    for s in ("Idle", "Scheduled", "Processing"):
        for a in ops:
            cases.append({"init": s, "ops": [a]})
            for b in ops:
                cases.append({"init": s, "ops": [a, b, "Load"]})
    n = 400 if ctx.thorough else 120
    for _ in range(n):
        k = rng.randint(3, 14)
        cases.append({"init": rng.choice(["Idle", "Scheduled", "Processing"]), "ops": [rng.choice(ops) for _ in range(k)]})
    return cases


COQ_OP = {"Load": "OpLoad", "TrySchedule": "OpTrySchedule", "TakeForProcessing": "OpTakeForProcessing", "Yield": "OpYield", "Reset": "OpReset"}


def ds_conformance(ctx, outs):
    """(a): the model's ds_run evaluated by vm_compute on the op sequences the Go dispatchState ran"""
    items = []
    for o in outs:
        steps = []
        for st in o["steps"]:
            out = {"true": "Some true", "false": "Some false"}.get(st["out"], "None")
            v = st["v"] if st["v"] in ("Idle", "Scheduled", "Processing") else "Idle"
            steps.append("(%s, %s)" % (v, out))
        items.append("(%s, [%s], [%s])" % (o["init"], "; ".join(COQ_OP[x] for x in o["ops"]), "; ".join(steps)))
    body = """From Coq Require Import List Arith Bool. Import ListNotations.
From GV Require Import C01.Model.
Definition ob_eqb (a b : option bool) := match a, b with Some x, Some y => Bool.eqb x y | None, None => true | _, _ => false end.
Fixpoint same (a b : list (sched * option bool)) : bool :=
  match a, b with [], [] => true | (v, o) :: r, (v', o') :: r' => sched_eqb v v' && ob_eqb o o' && same r r' | _, _ => false end.
Definition cases : list (sched * list dsop * list (sched * option bool)) := [%s].
Definition bad := filter (fun c => match c with (i, ops, exp) => negb (same (ds_run i ops) exp) end) cases.
Eval vm_compute in (length cases, length bad, firstn 2 bad).
""" % ";\n ".join(items)
    rc, out = ctx.coq_eval("cases_C01", body)
    flat = " ".join(out.split())
    m = re.search(r"= \((\d+), (\d+), (\[.*\])\)", flat)
    if rc != 0 or not m:
        ctx.tie_broken("dispatchState conformance (cases_C01.v did not evaluate)", out)
        return None
    nbad = int(m.group(2))
    if nbad:
        # Load reports the value: also check the invalid-state case separately
        ctx.tie_broken("dispatchState methods vs model ds_run", {"mismatches": nbad, "first": m.group(3)[:1500]})
    return int(m.group(1)), nbad


def ds_oracle(ctx, outs):
    """independent oracle for dispatchState: the documented transition table"""
    bad = 0
    for o in outs:
        v = o["init"]
        for op, st in zip(o["ops"], o["steps"]):
            if op == "Load":
                want_v, want_o = v, v
            elif op == "TrySchedule":
                want_v, want_o = ("Scheduled", "true") if v == "Idle" else (v, "false")
            elif op == "TakeForProcessing":
                want_v, want_o = ("Processing", "true") if v == "Scheduled" else (v, "false")
            elif op == "Yield":
                want_v, want_o = "Scheduled", ""
            else:
                want_v, want_o = "Idle", ""
            if (st["v"], st["out"]) != (want_v, want_o):
                bad += 1
                if bad <= 2:
                    ctx.violation("dispatchState:transition-table",
                                  "dispatchState.%s from %s gave state %s result %r, the Idle/Scheduled/Processing machine requires %s %r" % (op, v, st["v"], st["out"], want_v, want_o),
                                  {"init": o["init"], "ops": o["ops"], "steps": o["steps"]})
                break
            v = st["v"]
    return bad


def report_runs(ctx, stress, scen, prefix="c01"):
    """overlap oracle on the real-actor runs"""
    n_bad = 0
    for o in stress:
        if o.get("err"):
            ctx.tie_broken("stress harness could not run", o)
            continue
        if o["overlaps"] > 0 or o["max_concurrent"] > 1:
            n_bad += 1
            if n_bad <= 3:
                ctx.violation("handler-overlap:stress:" + o["cfg"]["Mailbox"],
                              "two handler invocations of one actor overlapped (max concurrent %d) under real goroutines: %s" % (o["max_concurrent"], o["overlap_at"]),
                              o)
        elif o.get("concurrent_dequeues", 0) > 0:
            n_bad += 1
            if n_bad <= 3:
                ctx.violation("turn-overlap:concurrent-dequeue:" + o["cfg"]["Mailbox"],
                              "two workers were inside the actor's mailbox Dequeue at the same time (two turn owners)", o)
    for o in scen:
        if not o["completed"] and not o["stalled"]:
            ctx.tie_broken("scenario %s could not be driven to its preemption point" % o["name"], o)
            continue
        if o["overlaps"] > 0 or o["max_concurrent"] > 1 or o["ran_while_turn_held"] or o["concurrent_dequeues"] > 0:
            n_bad += 1
            ctx.violation("handler-overlap:scenario:" + o["name"].split()[0],
                          "emulated preemption %r (%s mailbox): a second handler invocation ran while another held the turn (max concurrent %d, early run %s)" %
                          (o["name"], o["mailbox"], o["max_concurrent"], o["ran_while_turn_held"]), o)
    return n_bad


def run(ctx):
    ctx.trusted += ["hand-written model C01/Model.v (tied by: dispatchState conformance, source-order extractor tools/protoorder, scenario and witness replays)",
                    "Go runtime scheduler and memory model (sync/atomic operations sequentially consistent)",
                    "ready queue abstracted to a ticket count (C05 proves no loss/duplication)"]
    ctx.assumptions += ["user handler code does not itself spawn goroutines that call back into the handler",
                        "the grain's blockingCount (paused) is only changed from inside the grain's turn"]
    fh = {}
    okm, outm = ctx.coq_build(["theories/C01/Model.vo"])
    if not okm:
        ctx.tie_broken("C01/Model.v does not compile", outm)
    ctx.log("model built")
    tie = source_tie(ctx, fh)
    flag = fh.get("flag")
    ctx.log("source tie done (off-turn reset in restartSubtree: %s)" % flag)

    cases = ds_cases(ctx)
    with open(os.path.join(ctx.work, "c01_ds_in.jsonl"), "w") as f:
        for c in cases:
            f.write(json.dumps(c) + "\n")
    for fn in ("c01_ds_out.jsonl", "c01_restart_out.jsonl", "c01_stress_out.jsonl", "c01_scen_out.jsonl", "c01_grain_out.jsonl", "c01_inflight_out.jsonl", "c01_grain_react_out.jsonl"):
        p = os.path.join(ctx.work, fn)
        if os.path.exists(p):
            os.remove(p)
    env = {"VERIF_THOROUGH": "1" if ctx.thorough else "0", "VERIF_C01_ROUNDS": "6" if ctx.thorough else "1"}
    rc, out = ctx.go_test("actor", "^TestVerifC01", ["zz_verif_C01_test.go", "zz_verif_dispatchlib_test.go"], env=env, timeout=1200)
    ctx.log("go harness done rc=%d" % rc)
    ds = read_jsonl(os.path.join(ctx.work, "c01_ds_out.jsonl"))
    rs = read_jsonl(os.path.join(ctx.work, "c01_restart_out.jsonl"))
    stress = read_jsonl(os.path.join(ctx.work, "c01_stress_out.jsonl"))
    scen = read_jsonl(os.path.join(ctx.work, "c01_scen_out.jsonl"))
    grain = read_jsonl(os.path.join(ctx.work, "c01_grain_out.jsonl"))
    inflight = read_jsonl(os.path.join(ctx.work, "c01_inflight_out.jsonl"))
    greact = read_jsonl(os.path.join(ctx.work, "c01_grain_react_out.jsonl"))
    if rc != 0 or len(ds) != len(cases) or not rs or not stress or not scen or not grain or not inflight or not greact:
        ctx.tie_broken("go-harness TestVerifC01*", out)
    if thorough_race(ctx):
        os.makedirs(os.path.join(ctx.work, "race"), exist_ok=True)
        rc2, out2 = ctx.go_test("actor", "^TestVerifC01(Stress|Scenarios)", ["zz_verif_C01_test.go", "zz_verif_dispatchlib_test.go"],
                                env={"VERIF_THOROUGH": "0", "VERIF_C01_ROUNDS": "1", "VERIF_OUT": os.path.join(ctx.work, "race")}, race=True, timeout=1500)
        if "DATA RACE" in out2:
            ctx.notes.append("-race reported a data race in the stress run (supporting evidence only): " + out2[-1500:])

    ds_bad = ds_oracle(ctx, ds) if ds else 0
    conf = ds_conformance(ctx, ds) if ds else None
    n_bad = report_runs(ctx, stress, scen)
    for o in grain:
        if o.get("err"):
            ctx.tie_broken("grain stress could not run", o)
        elif o["overlaps"] > 0 or o["max_concurrent"] > 1:
            n_bad += 1
            ctx.violation("handler-overlap:grain-stress", "two OnReceive invocations of one grain overlapped (max concurrent %d): %s" % (o["max_concurrent"], o["overlap_at"]), o)

    for o, sig in ((inflight[0] if inflight else None, "restart-while-receive-in-flight"), (greact[0] if greact else None, "grain:reactivation-after-failed-deactivate-mid-turn")):
        if o is None:
            continue
        if o["overlap"]:
            n_bad += 1
            ctx.violation("handler-overlap:" + sig,
                          "%s: a second handler invocation ran while the first was still in progress (max concurrent %d: %s; dispatch state meanwhile %s)" %
                          (o["scenario"], o["max_concurrent"], o["overlap_at"], o.get("state_while_receive_in_flight") or o.get("state_while_onreceive_in_flight")), o)
        elif not o["completed"]:
            ctx.tie_broken("scenario could not be driven: " + o["scenario"], o)
    # the restart witness: model outcome under the code's variant vs the real actors
    wit = rs[0] if rs else None
    if wit is not None:
        if not wit["completed"]:
            ctx.tie_broken("restart witness could not be replayed on the real actors", wit)
        else:
            if wit["overlap"]:
                ctx.violation(KNOWN_RESTART_SIG,
                              "Restart(parent) resets schedState to Idle while a worker is inside the parent's handler; the next message is handled by a second worker concurrently (max concurrent handler invocations %d: %s)" % (wit["max_concurrent"], wit["overlap_at"]),
                              {"witness": "Coq C01_restart_refuted / witness_restart", "go": wit})
            if tie and tie["model"]["wit_overlap"] != wit["overlap"]:
                ctx.tie_broken("restart witness: model and implementation disagree",
                               {"source_has_offturn_reset": flag, "model_two_in_handler": tie["model"]["wit_overlap"], "go": wit})

    ctx.log("oracles and conformance done")
    if not ctx.coq_property():
        if not any(f.kind == "violation" for f in ctx.findings):
            ctx.proof_broken("Properties/C01.v (%s)" % getattr(ctx, "failed_at", "?"), getattr(ctx, "coq_log", ""))
        else:
            ctx.notes.append("Coq obligation broken at %s; concrete failing input reported" % getattr(ctx, "failed_at", "?"))
    if flag is True:
        ctx.notes.append("source has the off-turn schedState.reset() in restartSubtree: C01_mutex applies to the code up to the first such reset (C01_partial); C01_restart_refuted is the witness replayed above")
    elif flag is False:
        ctx.notes.append("restartSubtree does not write schedState: C01_mutex (restart_resets = false) is the applicable theorem")

    handled = sum(o.get("handled", 0) for o in stress)
    idle_tr = sum((o.get("gate_hits") or [0] * 7)[3] for o in stress)
    distinct = {canon_hash({"i": o["init"], "o": o["ops"]}) for o in ds if len(set(o["ops"])) >= 2}
    distinct |= {canon_hash(o["cfg"]) for o in stress if o.get("handled", 0) > 0}
    distinct |= {canon_hash([o["name"], o["mailbox"]]) for o in scen if o["completed"]}
    ctx.coverage.update({
        "evaluations": len(ds) + len(stress) + len(scen) + len(rs),
        "distinct_nontrivial": len(distinct),
        "rule": "dispatchState op sequences (all single ops and pairs from every state + seeded random sequences of 3..14 ops; non-trivial = at least two different methods), "
                "stress configurations (mailbox x senders x budget x GOMAXPROCS x gate noise; non-trivial = messages handled), scripted preemption scenarios S1..S6 per mailbox (non-trivial = preemption point reached), restart witness",
        "samples": [ds[len(ds) // 2] if ds else None, stress[0] if stress else None, scen[1] if len(scen) > 1 else None, wit],
        "dispatchState_cases": len(ds), "dispatchState_model_mismatches": conf[1] if conf else None, "dispatchState_oracle_failures": ds_bad,
        "grain_runs": [{k: o.get(k) for k in ("senders", "budget", "procs", "handled", "max_concurrent")} for o in grain],
        "stress_with_restarts": [{"cfg": o["cfg"], "handled": o["handled"], "max_concurrent": o["max_concurrent"]} for o in stress if o["cfg"].get("Restarts") or o["cfg"].get("Directive")],
        "stress_runs": len(stress), "stress_messages_handled": handled, "stress_idle_transitions_observed": idle_tr,
        "scenarios": [{"name": o["name"], "mailbox": o["mailbox"], "completed": o["completed"], "max_concurrent": o["max_concurrent"]} for o in scen],
        "overlap_findings": n_bad,
        "source_tie": {"offturn_reset_in_restartSubtree": flag, "embeddings_checked": tie["embeddings_checked"] if tie else None,
                       "problems": tie["problems"] if tie else None},
        "restart_witness": wit, "restart_in_flight": inflight[0] if inflight else None, "grain_reactivation": greact[0] if greact else None,
        "theorems": ["C01_mutex", "C01_partial", "C01_restart_refuted", "C01_handler_implies_processing", "C01_ticket_unique"],
    })


def thorough_race(ctx):
    return ctx.thorough


META = {
    "ready": True,
    "category": "proof",
    "technique": "Rocq inductive invariant over a labelled transition system (unbounded thread pool) + source-order tie + real-goroutine stress and scripted preemption witnesses",
    "text": "Mutual exclusion of the actor turn (at most one turn owner, at most one handler invocation) proved for every reachable state of M-DISPATCH — any number of producers, workers and restarters, any interleaving, any throughput budget, any mailbox pair, PID and grain — for the protocol without an off-turn reset, and up to the first off-turn reset otherwise; the off-turn reset in restartSubtree is refuted by a machine-checked witness that the harness replays on real actors. The model is tied to the current source by dispatchState conformance (vm_compute), an AST-based order/inventory comparison of the protocol operations, gate-mailbox preemption scenarios and stress with an overlap oracle.",
    "design_ref": "DESIGN.md 6 (M-DISPATCH), 7/C01",
    "level_note": "Trusted: Coq kernel, the hand-written model (tied as described), Go memory model for sync/atomic, ready queue abstracted to ticket counts (C05).",
}
