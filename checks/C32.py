"""C32 — relocation plan places every actor and grain of a departed node exactly once.

Proof:  Properties/C32.v over the hand-written executable model C32/Model.v (allocateActors,
        allocateGrains, Chunkify, relocatableGrains, reassignByRole, leastLoadedEligibleSurvivor,
        buildRelocateBatchRequests, the round-robin spread and the whole fan-out plan), for all inputs
        and all map iteration orders.
Tie:    the REAL functions of actor/relocation_worker.go and internal/chunk are run in-package on
        bounded-exhaustive small layouts and seeded random large ones; the Coq model is evaluated by
        vm_compute on exactly those cases and must produce identical shares (same ids, same order).
        PeerState.Actors is a Go map: the iteration order one run used is reconstructed from the
        output (greedy merge, complete for this placement rule) and handed to the model as its
        order argument.
Oracle: the property itself, independent of the model (exactly-once partition, role advertised,
        unplaceable iff no target, singletons on the leader, least-loaded, grains exactly once,
        never more shares than targets, batches <= 500).
"""
import itertools
import json
import os
import re
from collections import Counter

from vlib import canon_hash


def read_jsonl(path):
    """tolerant reader: a harness that was killed leaves a truncated last line"""
    out = []
    if not os.path.exists(path):
        return out
    for line in open(path, errors="replace"):
        line = line.strip()
        if line:
            try:
                out.append(json.loads(line))
            except ValueError:
                break
    return out

# ----------------------------------------------------------------------------- helpers
def eligible(troles, role):
    return role == 0 or role in troles


def pick(troles_list, loads, role, strict=True):
    """index chosen by the Go loop (first minimum among eligible)"""
    best = -1
    for i, tr in enumerate(troles_list):
        if not eligible(tr, role):
            continue
        if best < 0 or loads[i] < loads[best]:
            best = i
    return best


def init_loads(n, case):
    if case.get("has_loads") and len(case["loads"]) == n:
        return list(case["loads"])
    return [0] * n


def recover_order(case, out, strict):
    """Reconstruct an iteration order of PeerState.Actors that explains `out`.
    strict=True : every placement is the first minimum among the eligible targets (the model's rule)
    strict=False: property level — any eligible target holding a minimal running load.
    Greedy is complete: a head that is valid now stays valid for the others (loads only grow elsewhere).
    Returns the order (list of actor dicts) or None."""
    troles = [case["leader_roles"]] + case["peers"]
    n = len(troles)
    by_id = {a["id"]: a for a in case["actors"]}
    shares = [list(s) for s in (out["shares"] or [])]
    if len(shares) != n:
        return None
    for s in shares:
        for i in s:
            if i not in by_id:
                return None
    loads = init_loads(n, case)
    heads = [0] * n
    order = []
    # singletons and unplaceable do not touch the loads: consume them first (relative order kept)
    n_single = len(out["leader"] or []) - len(shares[0])
    if n_single < 0:
        return None
    for i in (out["leader"] or [])[:n_single]:
        if i not in by_id:
            return None
        order.append(by_id[i])
    for i in (out["unpl"] or []):
        if i not in by_id:
            return None
        order.append(by_id[i])
    remaining = sum(len(s) for s in shares)
    while remaining:
        progressed = False
        for t in range(n):
            if heads[t] >= len(shares[t]):
                continue
            a = by_id[shares[t][heads[t]]]
            if a["single"] or not eligible(troles[t], a["role"]):
                return None
            if strict:
                ok = pick(troles, loads, a["role"]) == t
            else:
                ok = all(loads[t] <= loads[j] for j in range(n) if eligible(troles[j], a["role"]))
            if ok:
                order.append(a)
                loads[t] += 1
                heads[t] += 1
                remaining -= 1
                progressed = True
        if not progressed:
            return None
    return order


# ----------------------------------------------------------------------------- Coq literals
# Monomorphic constructors (no implicit arguments => no evars) and binary numbers keep the
# elaboration of thousands of cases linear and fast.
def nest(items, cons, nil):
    out = nil
    for x in reversed(list(items)):
        out = "(%s %s %s)" % (cons, x, out)
    return out


def cN(ns):
    return nest((str(x) for x in ns), "cn", "nn")


def cNN(nss):
    return nest((cN(x or []) for x in nss), "cnn", "nnn")


def cR(rs):
    return nest((str(x) for x in rs), "cr", "nr")


def cRR(rss):
    return nest((cR(x) for x in rss), "crr", "nrr")


def cactor(a):
    return "(A %d %d %s)" % (a["id"], a["role"], "true" if a["single"] else "false")


def cA(acts):
    return nest((cactor(a) for a in acts), "ca", "na")


def cgrain(g):
    return "(G %d %s %s)" % (g["id"], "true" if g.get("disabled") else "false", "true" if g.get("eager") else "false")


def cG(gs):
    return nest((cgrain(g) for g in gs), "cg", "ng")


def cZ(zs):
    return nest((("(%d)" % z if z < 0 else "%d" % z) for z in zs), "cz", "nz")


# ----------------------------------------------------------------------------- generation
def gen_cases(ctx):
    rng = ctx.rng
    cases = []

    def add(c):
        c["n"] = len(cases)
        cases.append(c)

    # corpus first
    cdir = os.path.join(os.path.dirname(os.path.dirname(os.path.abspath(__file__))), "corpus", "C32")
    if os.path.isdir(cdir):
        for fn in sorted(os.listdir(cdir)):
            if fn.endswith(".jsonl"):
                for c in read_jsonl(os.path.join(cdir, fn)):
                    add(c)

    # ---- allocateActors: bounded-exhaustive small layouts
    role_sets = [[], [1], [1, 2]] if not ctx.thorough else [[], [1], [2], [1, 2]]
    layouts = []
    for lr in role_sets:
        for k in range(0, 3):
            for prs in itertools.product(role_sets, repeat=k):
                layouts.append((lr, [list(p) for p in prs]))
    kinds = [(0, False), (1, False), (2, False), (3, False), (0, True), (1, True)]
    max_actors = 4 if ctx.thorough else 3
    multisets = []
    for k in range(0, max_actors + 1):
        multisets += list(itertools.combinations_with_replacement(kinds, k))
    for (lr, prs) in layouts:
        n = 1 + len(prs)
        for ms in multisets:
            actors = [{"id": i + 1, "role": r, "single": s} for i, (r, s) in enumerate(ms)]
            add({"kind": "alloc", "leader_roles": lr, "peers": prs, "actors": actors, "has_loads": False, "loads": []})
            if actors:
                loads = [rng.choice([0, 0, 1, 2, 3]) for _ in range(n)]
                add({"kind": "alloc", "leader_roles": lr, "peers": prs, "actors": actors, "has_loads": True, "loads": loads})
    # mis-sized base loads fall back to zeros
    for ln in (0, 1, 2, 4):
        add({"kind": "alloc", "leader_roles": [1], "peers": [[2], []],
             "actors": [{"id": i + 1, "role": [0, 1, 2, 0, 0][i], "single": False} for i in range(5)],
             "has_loads": True, "loads": [7, 0, 3, 1][:ln]})
    # ---- allocateActors: seeded random large
    n_large = 120 if ctx.thorough else 40
    for _ in range(n_large):
        npeers = rng.randint(0, 9)
        nroles = rng.randint(1, 5)
        def rs():
            return sorted(rng.sample(range(1, nroles + 1), rng.randint(0, nroles)))
        lr = rs()
        prs = [rs() for _ in range(npeers)]
        na = rng.choice([1, 7, 50, 200, 600])
        actors = []
        for i in range(na):
            u = rng.random()
            role = 0 if u < 0.5 else rng.randint(1, nroles + 1)  # nroles+1: nobody advertises it
            actors.append({"id": i + 1, "role": role, "single": rng.random() < 0.1})
        mode = rng.random()
        if mode < 0.3:
            c = {"has_loads": False, "loads": []}
        elif mode < 0.9:
            c = {"has_loads": True, "loads": [rng.choice([0, 1, 5, 50, rng.randint(0, 1000), 2 ** 40]) for _ in range(npeers + 1)]}
        else:
            c = {"has_loads": True, "loads": [rng.randint(0, 9) for _ in range(rng.randint(0, npeers + 3))]}
        c.update({"kind": "alloc", "leader_roles": lr, "peers": prs, "actors": actors})
        add(c)

    # ---- allocateGrains: every (totalPeers, count) in a box + large
    tmax, cmax = (12, 40) if ctx.thorough else (8, 26)
    for total in range(1, tmax + 1):
        for count in range(0, cmax + 1):
            add({"kind": "grains", "total": total, "count": count})
    for _ in range(30):
        add({"kind": "grains", "total": rng.randint(1, 64), "count": rng.randint(0, 3000)})
    for total, count in [(1, 0), (1, 1), (1, 1000), (1000, 999), (1000, 1000), (1000, 1001), (7, 7 * 500), (7, 7 * 500 + 6)]:
        add({"kind": "grains", "total": total, "count": count})

    # ---- relocatableGrains
    for _ in range(60 if not ctx.thorough else 300):
        k = rng.choice([0, 1, 2, 5, 40])
        p = rng.choice([0.0, 0.3, 1.0])
        add({"kind": "relgrains", "grains": [{"id": i, "disabled": rng.random() < p, "eager": rng.random() < 0.5} for i in range(k)]})

    # ---- Chunkify
    for count in list(range(0, 14)) + [499, 500, 501, 1000, 1001]:
        for size in [1, 2, 3, 5, 13, 14, 500, 10 ** 6]:
            add({"kind": "chunk", "count": count, "size": size})

    # ---- buildRelocateBatchRequests
    for na, ng in [(0, 0), (1, 0), (0, 1), (499, 1), (500, 0), (501, 0), (0, 500), (0, 501), (500, 500), (1001, 999), (1500, 2), (3, 1500)]:
        add({"kind": "batches", "na": na, "ng": ng})

    # ---- survivingPeersExcept: every short peer list (repeated endpoints included) x every target
    for k in range(0, 5):
        for ids in itertools.product([1, 2, 3, 4], repeat=k):
            if k == 4 and not ctx.thorough and len(set(ids)) < 3:
                continue
            for target in ([1, 3, 5] if k >= 3 and not ctx.thorough else [1, 2, 3, 4, 5]):
                add({"kind": "survivors", "peer_ids": list(ids), "target": target})
    # ---- reassignByRole
    small_sets = [[], [1], [2], [1, 2]]
    cnt = 0
    for ns in range(0, 3):
        for srs in itertools.product(small_sets, repeat=ns):
            for lr in ([], [1], [3]):
                for roles in itertools.product([0, 1, 2, 3], repeat=3):
                    cnt += 1
                    if not ctx.thorough and cnt % 3 != ctx.seed % 3:
                        continue
                    acts = [{"id": i + 1, "role": r, "single": False} for i, r in enumerate(roles)]
                    reqs = [{"actors": acts[:2], "grains": [{"id": 1}]}, {"actors": acts[2:], "grains": [{"id": 2, "eager": True}]}]
                    add({"kind": "reassign", "requests": reqs, "peers": [list(s) for s in srs], "leader_roles": lr})
    for _ in range(40 if not ctx.thorough else 200):
        nsurv = rng.randint(0, 6)
        nroles = rng.randint(1, 4)
        def rs2():
            return sorted(rng.sample(range(1, nroles + 1), rng.randint(0, nroles)))
        reqs, aid, gid = [], 0, 0
        for _r in range(rng.randint(0, 5)):
            acts, grs = [], []
            if rng.random() < 0.6:
                for _a in range(rng.randint(0, 40)):
                    aid += 1
                    acts.append({"id": aid, "role": 0 if rng.random() < 0.5 else rng.randint(1, nroles + 1), "single": rng.random() < 0.05})
            else:
                for _g in range(rng.randint(0, 40)):
                    gid += 1
                    grs.append({"id": gid, "eager": rng.random() < 0.5})
            reqs.append({"actors": acts, "grains": grs})
        add({"kind": "reassign", "requests": reqs, "peers": [rs2() for _ in range(nsurv)], "leader_roles": rs2()})
    return cases


# ----------------------------------------------------------------------------- property oracle
def oracle(ctx, c, o, counters):
    kind = c["kind"]

    def viol(sig, what):
        if counters["viol"] < 6:
            ctx.violation(sig, what, {"function": sig.split(":")[0], "input": c, "observed": o})
        counters["viol"] += 1

    if o.get("err"):
        viol("%s:error" % kind, "%s on case %d: %s" % (kind, c["n"], o["err"]))
        return
    if kind == "alloc":
        troles = [c["leader_roles"]] + c["peers"]
        n = len(troles)
        by_id = {a["id"]: a for a in c["actors"]}
        shares = o["shares"] or []
        leader, unpl = o["leader"] or [], o["unpl"] or []
        if len(shares) != n:
            viol("allocateActors:partition", "peersShares has %d entries for %d targets" % (len(shares), n))
            return
        placed = Counter(leader) + Counter(x for s in shares[1:] for x in s) + Counter(unpl)
        if placed != Counter(by_id.keys()):
            miss = sorted((Counter(by_id.keys()) - placed).elements())[:5]
            extra = sorted((placed - Counter(by_id.keys())).elements())[:5]
            viol("allocateActors:partition", "leader share + peer shares + unplaceable is not a permutation of the departed actors: lost %s, duplicated/foreign %s" % (miss, extra))
            return
        if Counter(shares[0]) - Counter(leader):
            viol("allocateActors:partition", "the leader's own balanced share (index 0) is not part of the leader share")
            return
        for t, s in enumerate(shares):
            for i in s:
                a = by_id[i]
                if a["single"]:
                    viol("allocateActors:singleton", "singleton actor %d was balanced onto target %d instead of staying with the leader" % (i, t))
                    return
                if not eligible(troles[t], a["role"]):
                    viol("allocateActors:role", "actor %d requires role %d but target %d advertises %s" % (i, a["role"], t, troles[t]))
                    return
        want_unpl = {i for i, a in by_id.items() if not a["single"] and not any(eligible(tr, a["role"]) for tr in troles)}
        if set(unpl) != want_unpl:
            viol("allocateActors:unplaceable", "unplaceable = %s but the actors no target can host are %s" % (sorted(unpl)[:8], sorted(want_unpl)[:8]))
            return
        singles = {i for i, a in by_id.items() if a["single"]}
        if not singles <= set(leader):
            viol("allocateActors:singleton", "singletons %s are not in the leader share" % sorted(singles - set(leader))[:8])
            return
        if recover_order(c, o, strict=False) is None:
            viol("allocateActors:least-loaded", "no iteration order of the departed actors explains the shares if every actor goes to an eligible target with minimal running load (base loads %s)" % (c["loads"] if c["has_loads"] else None))
            return
        counters["alloc_ok"] += 1
    elif kind == "grains":
        ids = list(range(c["count"]))
        shares = o["shares"] or []
        got = (o["grains"] or []) + [x for s in shares[1:] for x in s]
        if Counter(got) != Counter(ids):
            viol("allocateGrains:exactly-once", "allocateGrains(%d, %d grains): leader share + peer shares 1.. is not a permutation of the grains (got %d items)" % (c["total"], c["count"], len(got)))
            return
        if len(shares) > c["total"]:
            viol("allocateGrains:share-count", "allocateGrains(%d, %d grains) produced %d shares for %d targets" % (c["total"], c["count"], len(shares), c["total"]))
            return
        if shares and Counter(shares[0]) - Counter(o["grains"] or []):
            viol("allocateGrains:exactly-once", "first chunk is not part of the leader share")
            return
    elif kind == "relgrains":
        want = sorted(g["id"] for g in c["grains"] if not g["disabled"])
        if sorted(o["grains"] or []) != want:
            viol("relocatableGrains:filter", "relocatableGrains returned %s, relocatable are %s" % (sorted(o["grains"] or [])[:8], want[:8]))
    elif kind == "chunk":
        chunks = o["shares"] or []
        flat = [x for s in chunks for x in s]
        if flat != list(range(c["count"])) or any(not (1 <= len(s) <= c["size"]) for s in chunks):
            viol("Chunkify:partition", "Chunkify(%d items, %d) = chunk sizes %s" % (c["count"], c["size"], [len(s) for s in chunks][:10]))
    elif kind == "batches":
        ra, rg = o["req_a"] or [], o["req_g"] or []
        fa = [x for s in ra for x in (s or [])]
        fg = [x for s in rg for x in (s or [])]
        sizes = [len(a or []) + len(g or []) for a, g in zip(ra, rg)]
        if fa != list(range(c["na"])) or fg != list(range(c["ng"])) or any(not (1 <= z <= 500) for z in sizes) or any(d != "dep:1" for d in (o["dep"] or [])):
            viol("buildRelocateBatchRequests:partition", "buildRelocateBatchRequests(%d actors, %d grains): batch sizes %s" % (c["na"], c["ng"], sizes[:10]))
    elif kind == "survivors":
        want = [p for p in c["peer_ids"] if p != c["target"]]
        if (o["leader"] or []) != want:
            viol("survivingPeersExcept:result", "survivingPeersExcept(%s, %d) = %s, expected %s" % (c["peer_ids"], c["target"], o["leader"], want))
        elif (o["after"] or []) != c["peer_ids"]:
            viol("survivingPeersExcept:mutates-input", "survivingPeersExcept(%s, %d) rewrote the caller's peer list to %s (relocate shares that list between the share goroutines, so the next failed share computes its survivors from it)" % (c["peer_ids"], c["target"], o["after"]))
    elif kind == "reassign":
        sroles = c["peers"]
        acts = [a for r in c["requests"] for a in r["actors"]]
        by_id = {a["id"]: a for a in acts}
        shares = o["shares"] or []
        leader, failed = o["leader"] or [], o["failed"] or []
        if len(shares) != len(sroles):
            viol("reassignByRole:partition", "%d actor shares for %d survivors" % (len(shares), len(sroles)))
            return
        placed = Counter(x for s in shares for x in s) + Counter(leader) + Counter(failed)
        if placed != Counter(by_id.keys()):
            viol("reassignByRole:partition", "survivor shares + leader share + recorded failures is not a permutation of the unsent actors")
            return
        for t, s in enumerate(shares):
            for i in s:
                if not eligible(sroles[t], by_id[i]["role"]):
                    viol("reassignByRole:role", "actor %d requires role %d but survivor %d advertises %s" % (i, by_id[i]["role"], t, sroles[t]))
                    return
        nobody = {i for i, a in by_id.items() if not any(eligible(s, a["role"]) for s in sroles)}
        want_leader = {i for i in nobody if eligible(c["leader_roles"], by_id[i]["role"])}
        if set(leader) != want_leader or set(failed) != nobody - want_leader:
            viol("reassignByRole:fallback", "leader fallback %s / failed %s, expected %s / %s" % (sorted(leader)[:8], sorted(failed)[:8], sorted(want_leader)[:8], sorted(nobody - want_leader)[:8]))
            return
        if (o["grains"] or []) != [g["id"] for r in c["requests"] for g in r["grains"]]:
            viol("reassignByRole:grains", "flattened grains differ from the unsent grains")
            return
        # least-loaded survivor at every step (ties: any minimal one at property level)
        lens = [0] * len(sroles)
        where = {i: t for t, s in enumerate(shares) for i in s}
        for a in acts:
            if a["id"] in where:
                t = where[a["id"]]
                if any(lens[j] < lens[t] for j in range(len(sroles)) if eligible(sroles[j], a["role"])):
                    viol("reassignByRole:least-loaded", "actor %d went to survivor %d holding %d redistributed actors although an eligible survivor held fewer (%s)" % (a["id"], t, lens[t], lens))
                    return
                lens[t] += 1


# ----------------------------------------------------------------------------- model comparison
COQ_HEADER = """From Coq Require Import List ZArith NArith Bool Arith. Import ListNotations.
From GV Require Import C32.Model.
Definition nn : list N := []. Definition cn (x : N) (l : list N) := x :: l.
Definition nnn : list (list N) := []. Definition cnn (x : list N) (l : list (list N)) := x :: l.
Definition nr : list nat := []. Definition cr (x : nat) (l : list nat) := x :: l.
Definition nrr : list (list nat) := []. Definition crr (x : list nat) (l : list (list nat)) := x :: l.
Definition na : list wactor := []. Definition ca (x : wactor) (l : list wactor) := x :: l.
Definition ng : list wgrain := []. Definition cg (x : wgrain) (l : list wgrain) := x :: l.
Definition nz : list Z := []. Definition cz (x : Z) (l : list Z) := x :: l.
Definition nq : list request := []. Definition cq (x : request) (l : list request) := x :: l.
Definition A := mkActor. Definition G := mkGrain. Definition Q := mkReq.
Inductive kase :=
| KAlloc (n : N) (lr : list nat) (pr : list (list nat)) (acts : list wactor) (loads : list Z) (el : list N) (es : list (list N)) (eu : list N)
| KGrains (n : N) (total : Z) (count : N) (el : list N) (es : list (list N))
| KRel (n : N) (gs : list wgrain) (e : list N)
| KChunk (n : N) (count : N) (size : Z) (e : list N)
| KBatches (n : N) (na ng : N) (ea eg : list N)
| KReassign (n : N) (reqs : list request) (sr : list (list nat)) (lr : list nat) (es : list (list N)) (el eg ef : list N)
| KSurv (n : N) (peers : list N) (target : N) (e : list N).
Definition nk : list kase := []. Definition ck (x : kase) (l : list kase) := x :: l.
Fixpoint leqb {T} (e : T -> T -> bool) (x y : list T) : bool :=
  match x, y with [], [] => true | a :: x', b :: y' => e a b && leqb e x' y' | _, _ => false end.
Definition ln := leqb N.eqb.
Definition lln := leqb ln.
Definition aids := map aid.
Definition gids := map gid.
Definition nseq (k : N) : list N := map N.of_nat (seq 0 (N.to_nat k)).
Definition lenN {T} (l : list T) : N := N.of_nat (length l).
Definition num (k : kase) : N :=
  match k with KAlloc n _ _ _ _ _ _ _ | KGrains n _ _ _ _ | KRel n _ _ | KChunk n _ _ _ | KBatches n _ _ _ _ | KReassign n _ _ _ _ _ _ _ | KSurv n _ _ _ => n end.
Definition chk (k : kase) : bool :=
  match k with
  | KAlloc _ lr pr acts loads el es eu =>
      match allocateActors lr pr acts loads with (l, s, u) => ln (aids l) el && lln (map aids s) es && ln (aids u) eu end
  | KGrains _ total count el es =>
      match allocateGrains total (nseq count) with (l, s) => ln l el && lln s es end
  | KRel _ gs e => ln (gids (relocatableGrains gs)) e
  | KChunk _ count size e => ln (map lenN (chunkify (nseq count) size)) e
  | KBatches _ na ng ea eg =>
      let rs := buildRequests (map (fun i => mkActor i 0 false) (nseq na)) (map (fun i => mkGrain i false false) (nseq ng)) in
      ln (map (fun r => lenN (rq_actors r)) rs) ea && ln (map (fun r => lenN (rq_grains r)) rs) eg
  | KReassign _ reqs sr lr es el eg ef =>
      match reassignByRole reqs sr lr with (s, l, g, f) =>
        lln (map aids s) es && ln (aids l) el && ln (gids g) eg && ln (aids f) ef end
  | KSurv _ peers target e => ln (survivingPeersExcept peers target) e
  end.
Definition bad (l : list kase) : list N := map num (filter (fun c => negb (chk c)) l).
"""


def coq_compare(ctx, cases, outs, orders):
    ks = []
    for c in cases:
        o = outs.get(c["n"])
        if o is None or o.get("err"):
            continue
        k = c["kind"]
        if k == "alloc":
            order = orders.get(c["n"])
            if order is None:
                continue
            loads = c["loads"] if c["has_loads"] else []
            ks.append("(KAlloc %d %s %s %s %s %s %s %s)" % (
                c["n"], cR(c["leader_roles"]), cRR(c["peers"]), cA(order), cZ(loads),
                cN(o["leader"] or []), cNN(o["shares"] or []), cN(o["unpl"] or [])))
        elif k == "grains":
            ks.append("(KGrains %d %d %d %s %s)" % (c["n"], c["total"], c["count"], cN(o["grains"] or []), cNN(o["shares"] or [])))
        elif k == "relgrains":
            outl = o["grains"] or []
            by = {g["id"]: g for g in c["grains"]}
            if any(i not in by for i in outl):
                continue
            order = [by[i] for i in outl] + [g for g in c["grains"] if g["disabled"]]
            if Counter(g["id"] for g in order) != Counter(by.keys()):
                # an order cannot be reconstructed (the oracle has already reported why): use the input order
                order = c["grains"]
            ks.append("(KRel %d %s %s)" % (c["n"], cG(order), cN(outl)))
        elif k == "chunk":
            ks.append("(KChunk %d %d %d %s)" % (c["n"], c["count"], c["size"], cN([len(s) for s in (o["shares"] or [])])))
        elif k == "batches":
            ks.append("(KBatches %d %d %d %s %s)" % (c["n"], c["na"], c["ng"], cN([len(a or []) for a in (o["req_a"] or [])]), cN([len(g or []) for g in (o["req_g"] or [])])))
        elif k == "survivors":
            ks.append("(KSurv %d %s %d %s)" % (c["n"], cN(c["peer_ids"]), c["target"], cN(o["leader"] or [])))
        elif k == "reassign":
            reqs = nest(("(Q %s %s)" % (cA(r["actors"]), cG(r["grains"])) for r in c["requests"]), "cq", "nq")
            ks.append("(KReassign %d %s %s %s %s %s %s %s)" % (
                c["n"], reqs, cRR(c["peers"]), cR(c["leader_roles"]),
                cNN(o["shares"] or []), cN(o["leader"] or []), cN(o["grains"] or []), cN(o["failed"] or [])))
    body = [COQ_HEADER]
    names = []
    for j in range(0, len(ks), 250):
        names.append("ks%d" % (j // 250))
        body.append("Definition %s : list kase := %s.\n" % (names[-1], nest(ks[j:j + 250], "ck", "nk")))
    body.append("Definition summary := ((%s)%%N, %s).\nEval vm_compute in summary.\n" % (
        " + ".join("lenN %s" % x for x in names) or "0%N", " ++ ".join("bad %s" % x for x in names) or "nn"))
    rc, out = ctx.coq_eval("cases_C32", "".join(body))
    flat = " ".join(out.split())
    m = re.search(r"= \((\d+)%N, (nn|\[.*?\]%?N?|\[\s*\])\)", flat)
    if rc != 0 or not m:
        return None, out
    badl = [int(x) for x in re.findall(r"\d+", m.group(2))]
    return (int(m.group(1)), badl), out


def tiebreak_only(c, o, oracle_clean):
    """a model mismatch that is only a different choice among equally loaded eligible survivors:
    the property oracle found nothing on the case and every share keeps the processing order"""
    if c["kind"] != "reassign" or not oracle_clean or o is None:
        return False
    pos = {a["id"]: k for k, a in enumerate(a for r in c["requests"] for a in r["actors"])}
    for lst in (o["shares"] or []) + [o["leader"] or [], o["failed"] or []]:
        ks = [pos.get(i, -1) for i in (lst or [])]
        if ks != sorted(ks):
            return False
    return True


def run(ctx):
    ctx.trusted += ["tools/goq translator for the quotient/remainder of allocateGrains (Gen/C32.v regenerated each run; C32_grain_arithmetic_from_source ties it to the model, the differential cases validate both)",
                    "hand-written Gallina model C32/Model.v (compared with the Go functions by vm_compute on every case of every run)",
                    "Go map iteration order of PeerState.Actors/Grains is an oracle: the order a run used is reconstructed from its output"]
    ctx.assumptions += ["target occupancies + number of departed actors stay below 2^63 (Go int loads modelled as unbounded Z)",
                        "Chunkify is only reached with chunkSize >= 1 on a non-empty slice (proved for allocateGrains; 500 in buildRelocateBatchRequests)"]
    ok_goq, goq_msg = ctx.goq("C32", "C32")
    if not ok_goq:
        ctx.tie_broken("goq-translation actor/relocation_worker.go allocateGrains quotient/remainder", goq_msg)
    cases = gen_cases(ctx)
    with open(os.path.join(ctx.work, "c32_in.jsonl"), "w") as f:
        for c in cases:
            f.write(json.dumps(c) + "\n")
    outp = os.path.join(ctx.work, "c32_out.jsonl")
    if os.path.exists(outp):
        os.remove(outp)
    rc, gout = ctx.go_test("actor", "^TestVerifC32", ["zz_verif_C32_test.go"], timeout=1200)
    outs = {o["n"]: o for o in read_jsonl(outp)}
    if rc != 0 or len(outs) != len(cases):
        ctx.tie_broken("go-harness actor relocation planning functions", gout)

    counters = {"viol": 0, "alloc_ok": 0, "tiebreak_only": 0}
    orders = {}
    clean = set()
    hist = Counter()
    distinct = set()
    for c in cases:
        o = outs.get(c["n"])
        if o is None:
            continue
        hist[c["kind"]] += 1
        before = counters["viol"]
        oracle(ctx, c, o, counters)
        if c["kind"] == "alloc" and not o.get("err"):
            order = recover_order(c, o, strict=True)
            if order is not None:
                orders[c["n"]] = order
            elif counters["viol"] == before:
                # every property-level rule holds (incl. "a minimal running load among the eligible targets"),
                # only the choice among equally loaded targets differs from the model: not an alarm
                counters["tiebreak_only"] += 1
                if counters["tiebreak_only"] <= 3:
                    ctx.notes.append("allocateActors case %d: placement is least-loaded but ties are not broken towards the lowest index as in the model" % c["n"])
        if counters["viol"] == before:
            clean.add(c["n"])
        nontrivial = (c["kind"] == "alloc" and len(c["actors"]) >= 2 and len(c["peers"]) >= 1) or \
                     (c["kind"] == "grains" and c["count"] >= 1) or \
                     (c["kind"] == "reassign" and sum(len(r["actors"]) for r in c["requests"]) >= 2) or \
                     (c["kind"] in ("chunk", "batches", "relgrains", "survivors"))
        if nontrivial:
            distinct.add(canon_hash({k: v for k, v in c.items() if k != "n"}))

    ctx.coq_build(["theories/C32/Model.vo"])
    res, cout = coq_compare(ctx, cases, outs, orders)
    if res is None:
        ctx.tie_broken("model evaluation (cases_C32.v did not evaluate)", cout)
    else:
        ncmp, badl = res
        if badl:
            byn = {c["n"]: c for c in cases}
            hard = [i for i in badl if not tiebreak_only(byn[i], outs.get(i), i in clean)]
            if hard:
                first = [{"case": byn[i], "observed": outs.get(i)} for i in hard[:3]]
                ctx.tie_broken("C32 model vs Go (shares differ)", {"mismatching_cases": hard[:20], "first": first})
            if len(hard) != len(badl):
                ctx.notes.append("%d reassignByRole cases satisfy every rule of the property but break ties differently from the model (not an alarm)" % (len(badl) - len(hard)))
        ctx.coverage["model_comparisons"] = ncmp
        ctx.coverage["model_mismatches"] = len(badl)

    if not ctx.coq_property():
        if not any(f.kind == "violation" for f in ctx.findings):
            ctx.proof_broken("Properties/C32.v (%s)" % getattr(ctx, "failed_at", "?"), getattr(ctx, "coq_log", ""))
        else:
            ctx.notes.append("Coq obligation broken at %s; concrete failing input reported" % getattr(ctx, "failed_at", "?"))

    big = [c for c in cases if c["kind"] == "alloc" and len(c["actors"]) >= 50]
    ctx.coverage.update({
        "evaluations": len(outs),
        "distinct_nontrivial": len(distinct),
        "rule": "bounded-exhaustive: every layout of leader + <=2 peers over role sets, every multiset of <=3 (thorough 4) actors of 6 kinds, with and without base loads; every (totalPeers<=8, grains<=26); seeded random layouts up to 10 targets/600 actors/3000 grains; non-trivial = >=2 actors and >=1 peer (alloc), >=1 grain, >=2 unsent actors (reassign); distinct by canonical input",
        "kinds": dict(hist),
        "alloc_orders_reconstructed": len(orders),
        "alloc_large_cases": len(big),
        "samples": [cases[0], next((c for c in cases if c["kind"] == "reassign"), None), next((c for c in cases if c["kind"] == "grains" and c["count"] > 3), None)],
        "theorems": ["C32_actors_partition", "C32_assigned_target_advertises_role", "C32_unplaceable_iff_no_target", "C32_singletons_to_leader",
                     "C32_least_loaded", "C32_relocatable_grains", "C32_grains_exactly_once", "C32_chunkify", "C32_plan_actors_exactly_once",
                     "C32_plan_grains_exactly_once", "C32_plan_targets_exist", "C32_plan_peer_roles", "C32_plan_batches_bounded",
                     "C32_reassign_partition", "C32_reassign_roles", "C32_reassign_least_loaded", "C32_spread_exactly_once", "C32_grain_arithmetic_from_source", "C32_survivors"],
    })


META = {
    "ready": True,
    "category": "proof",
    "technique": "Rocq proof over an executable model of the planning functions + differential evaluation of the model (vm_compute) against the real Go functions on bounded-exhaustive and random layouts",
    "text": "Seventeen theorems over all inputs and all map iteration orders: allocateActors partitions the departed actors into leader share, peer shares and unplaceable (each exactly once), every assigned target advertises the role, unplaceable iff no target does, singletons stay with the leader, placement is the least running load among eligible targets; allocateGrains/Chunkify/buildRelocateBatchRequests place each relocatable grain exactly once for every totalPeers>=1 with never more shares than targets; reassignByRole keeps the rules after a survivor drops out. The real Go functions are run in-package on every case and compared with the Coq model evaluated by vm_compute.",
    "design_ref": "DESIGN.md 7/C32",
    "level_note": "Trusted: Coq kernel, the hand-written model (validated differentially each run), Go compiler. Load counters are unbounded in the model.",
}
