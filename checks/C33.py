"""C33 — relocation accounts for every item and runs once per departure.

Proof:  Properties/C33.v.  (1) Leader-side bookkeeping — relocationJobs begin/end, the dispatch after a
        NodeLeft, the relocator (startWorker / handleTerminated / abortRelocation) and the worker's
        completion — as a labelled transition system (C33/Model.v); inductive invariant "every
        registered job has exactly one owner, every released job exactly one outcome" over ALL
        histories (duplicates, failed Tells, spawn failures, worker crashes, stale Terminated):
        at most one relocation per address in flight, duplicates ignored, at most one
        RelocationFailed per departure.  (2) Worker accounting (C33/Worker.v on top of the C32 plan):
        for every failure oracle, relocatable items = handled ⊎ failed.
Tie:    (A) the REAL relocationWorker.relocate with a mocked registry and transport on generated
        departed-node states and failure scripts; the iteration order of the PeerState maps is
        reconstructed from the recorded RelocateBatch attempts, the Coq model is evaluated (vm_compute)
        with the same oracles and must list exactly the items of the RelocationFailed event.
        (B) the REAL relocationJobs / relocator / worker actors in a started actor system, stepped by
        the harness through generated label sequences; after every step jobs, relocator.workers,
        sequence, the queued messages, the events and the snapshot deletions must equal the model's.
Oracle: every relocatable item is placed exactly once or listed exactly once (never both, never
        neither), one event at most, job released, snapshot deleted once.
"""
import ast
import json
import os
import re
from collections import Counter

from vlib import canon_hash


def read_jsonl(path):
    """tolerant reader: a harness that was killed leaves a truncated last line"""
    out = []
    if not os.path.exists(path):
        return out
    for line in open(path, errors="replace"):
        line = line.strip()
        if line:
            try:
                out.append(json.loads(line))
            except ValueError:
                break
    return out

SHUTDOWN_SIG = "relocationWorker:shutdown-forbidden"


def eligible(troles, role):
    return role == 0 or role in troles


# ----------------------------------------------------------------------------- worker cases
def gen_worker_cases(ctx):
    rng = ctx.rng
    cases = []

    def some(pop, k):
        pop = list(pop)
        return rng.sample(pop, min(k, len(pop)))

    def add(c):
        base = {"leader_roles": [], "peers": [], "actors": [], "grains": [], "has_loads": False, "loads": [], "local_fail": [],
                "poison": {}, "reported": {}, "peers_error": False, "dep_host": "", "stale": []}
        base.update(c)
        base["n"] = len(cases)
        cases.append(base)

    def actors(n, roles=(0,), p_single=0.0):
        return [{"id": i + 1, "role": rng.choice(roles), "single": rng.random() < p_single} for i in range(n)]

    def grains(n, p_dis=0.2, p_eager=0.5):
        return [{"id": i + 1, "disabled": rng.random() < p_dis, "eager": rng.random() < p_eager} for i in range(n)]

    # corpus: everything fine, single node, peers unavailable
    add({"peers": [[], []], "actors": actors(6), "grains": grains(7)})
    add({"peers": [], "actors": actors(3), "grains": grains(4)})
    add({"peers": [[]], "actors": actors(2), "grains": [{"id": 1, "disabled": False, "eager": False}, {"id": 2, "disabled": False, "eager": True}, {"id": 3, "disabled": True, "eager": True}], "peers_error": True})
    # unplaceable + remote per-item failures
    add({"leader_roles": [1], "peers": [[2], []], "actors": actors(8, roles=(0, 0, 1, 2, 9)), "grains": grains(3), "reported": {"0": ["a1", "a3", "a5"], "1": ["a2", "a4", "a6", "g1"]}})
    # a local failure (costs the item retries: 1.5 s)
    add({"peers": [[]], "actors": actors(4, p_single=0.5), "grains": grains(5, p_dis=0.0), "local_fail": ["a1", "a2", "g1"]})
    # registry records that still point at the departed node (they must be withdrawn and the item respawned,
    # which fails here because the type is unknown on the leader: the item has to be LISTED), for IPv4,
    # IPv6-literal and DNS-named departed nodes
    for host in ["", "::1", "2001:db8::5", "node-7.cluster.local"]:
        acts = actors(4, p_single=0.3)
        gr = [{"id": 1, "disabled": False, "eager": True}, {"id": 2, "disabled": False, "eager": False}, {"id": 3, "disabled": False, "eager": True}]
        add({"peers": [], "actors": acts, "grains": gr, "dep_host": host, "stale": ["a1", "a3", "g1", "g2"]})
    add({"peers": [[], []], "actors": actors(7), "grains": grains(6, p_dis=0.0), "dep_host": "fe80::1ff:fe23:4567:890a", "stale": ["a1", "a2", "g1"],
         "poison": {"0": ["a1", "a2", "a3", "a4", "a5", "a6", "a7"]}})
    # F1: actors-focused (fewer grains than targets: all grains stay with the leader)
    n_f1 = 40 if ctx.thorough else 12
    for _ in range(n_f1):
        npeers = rng.randint(1, 3)
        roles = [some([1, 2], rng.randint(0, 2)) for _ in range(npeers)]
        acts = actors(rng.randint(2, 10), roles=(0, 0, 0, 1, 2, 9), p_single=0.1)
        gr = grains(rng.randint(0, npeers), p_dis=0.1)
        names = ["a%d" % a["id"] for a in acts]
        poison = {str(p): some(names, rng.choice([0, 0, 1, 2, len(names)])) for p in range(npeers)}
        reported = {str(p): some(names, rng.randint(0, 2)) for p in range(npeers)}
        c = {"leader_roles": some([1, 2], rng.randint(0, 2)), "peers": roles, "actors": acts, "grains": gr, "poison": poison, "reported": reported}
        if rng.random() < 0.4:
            c["has_loads"], c["loads"] = True, [rng.randint(0, 4) for _ in range(npeers + 1)]
        c["dep_host"] = rng.choice(["", "", "::1", "2001:db8::5", "10.1.2.3"])
        add(c)
    # F2: grains-focused (only grain items are poisoned, so every actor batch is delivered)
    n_f2 = 40 if ctx.thorough else 12
    for _ in range(n_f2):
        npeers = rng.randint(1, 3)
        acts = actors(rng.randint(0, 6))
        gr = grains(rng.randint(npeers + 1, 14), p_dis=0.15)
        gnames = ["g%d" % g["id"] for g in gr if not g["disabled"]]
        poison = {str(p): some(gnames, rng.choice([0, 1, 2, len(gnames)])) for p in range(npeers)}
        reported = {str(p): some(gnames + ["a%d" % a["id"] for a in acts], rng.randint(0, 2)) for p in range(npeers)}
        add({"peers": [[] for _ in range(npeers)], "actors": acts, "grains": gr, "poison": poison, "reported": reported,
             "local_fail": some(gnames, 1) if rng.random() < 0.25 else [], "dep_host": rng.choice(["", "", "::1", "2001:db8::5"])})
    # F3: a peer fails in the middle of the relocation while other peers survive, and its share holds actors
    # of roles that (a) only the leader, (b) only another survivor, (c) nobody else advertises, next to role-less
    # ones; the leader is the most loaded target, so phase 1 hands the role actors to the peer that then fails.
    # (own random stream: the other families keep their inputs when this one changes)
    import random as _random
    r3 = _random.Random("C33-F3-%d" % ctx.seed)
    n_f3 = 24 if ctx.thorough else 8
    for _ in range(n_f3):
        npeers = r3.randint(2, 3)
        f = r3.randrange(npeers)
        lead_only, other_only = r3.sample([1, 2, 3], 2)
        proles = [[] for _ in range(npeers)]
        proles[f] = [lead_only, other_only] + ([4] if r3.random() < 0.5 else [])
        o = r3.choice([p for p in range(npeers) if p != f])
        proles[o] = [other_only]
        n_act = r3.randint(3, 9)
        acts = [{"id": i + 1, "role": r3.choice([0, lead_only, lead_only, other_only, 4, 9]), "single": r3.random() < 0.1} for i in range(n_act)]
        names = ["a%d" % a["id"] for a in acts]
        gr = [{"id": i + 1, "disabled": r3.random() < 0.1, "eager": r3.random() < 0.5} for i in range(r3.randint(0, npeers))]
        pois = names if r3.random() < 0.7 else r3.sample(names, max(1, len(names) // 2))
        poison = {str(f): list(pois)}
        if npeers == 3 and r3.random() < 0.3:
            poison[str(o)] = r3.sample(names, 1)
        add({"leader_roles": [lead_only] + ([4] if r3.random() < 0.3 else []), "peers": proles, "actors": acts, "grains": gr,
             "poison": poison, "reported": {str(o): r3.sample(names, r3.randint(0, 1))},
             "has_loads": True, "loads": [r3.randint(12, 20)] + [r3.randint(0, 3) for _ in range(npeers)],
             "dep_host": r3.choice(["", "", "::1", "10.1.2.3"])})
    if ctx.thorough:
        for _ in range(6):
            add({"peers": [[]], "actors": actors(3), "grains": grains(4), "peers_error": True, "local_fail": ["g1"]})
    return cases


def dedupe_retries(calls):
    out = []
    for c in calls:
        if out and not c["ok"] and not out[-1]["ok"] and out[-1]["peer"] == c["peer"] and out[-1]["actors"] == c["actors"] and out[-1]["grains"] == c["grains"]:
            continue
        out.append(c)
    return out


def reconstruct(c, o):
    """phase-1 shares per peer from the recorded RelocateBatch attempts -> an iteration order of the two maps"""
    npeers = len(c["peers"])
    calls = o["calls"] or []
    # an item's phase-1 target is the peer of the first attempt that carried it: redistribution of a failed
    # share only starts after that share's own attempts (the recorder appends under a lock, in real-time order)
    a_share = {p: [] for p in range(npeers)}
    g_share = {p: [] for p in range(npeers)}
    seen = set()
    for x in calls:
        if x["peer"] < 0 or x["peer"] >= npeers:
            return None
        for it in (x["actors"] or []):
            if it not in seen:
                seen.add(it)
                a_share[x["peer"]].append(it)
        for it in (x["grains"] or []):
            if it not in seen:
                seen.add(it)
                g_share[x["peer"]].append(it)
    amap = {"a%d" % a["id"]: a for a in c["actors"]}
    gmap = {"g%d" % g["id"]: g for g in c["grains"]}
    troles = [c["leader_roles"]] + c["peers"]
    n = len(troles)
    placed = set(x for p in a_share for x in a_share[p])
    unpl = [k for k, a in amap.items() if not a["single"] and not any(eligible(t, a["role"]) for t in troles)]
    singles = [k for k, a in amap.items() if a["single"]]
    leader_pool = [k for k in amap if k not in placed and k not in unpl and k not in singles]
    loads = list(c["loads"]) if c["has_loads"] and len(c["loads"]) == n else [0] * n
    order = [amap[k] for k in singles] + [amap[k] for k in unpl]
    heads = {p: 0 for p in range(npeers)}
    pool = list(leader_pool)
    remaining = len(pool) + sum(len(a_share[p]) for p in range(npeers))

    def pick(role):
        best = -1
        for i, t in enumerate(troles):
            if eligible(t, role) and (best < 0 or loads[i] < loads[best]):
                best = i
        return best

    while remaining:
        progressed = False
        for k in list(pool):
            if pick(amap[k]["role"]) == 0:
                order.append(amap[k]); pool.remove(k); loads[0] += 1; remaining -= 1; progressed = True
        for p in range(npeers):
            if heads[p] < len(a_share[p]):
                k = a_share[p][heads[p]]
                if k in amap and pick(amap[k]["role"]) == p + 1:
                    order.append(amap[k]); heads[p] += 1; loads[p + 1] += 1; remaining -= 1; progressed = True
        if not progressed:
            return None
    # grains: leader part first (any order), then the peers' chunks in order
    rel = [k for k, g in gmap.items() if not g["disabled"]]
    peer_g = [x for p in range(npeers) for x in g_share[p]]
    if any(x not in gmap for x in peer_g):
        return None
    leader_g = [k for k in rel if k not in peer_g]
    gorder = [gmap[k] for k in leader_g] + [gmap[k] for k in peer_g] + [g for g in c["grains"] if g["disabled"]]
    return order, gorder


def worker_oracle(ctx, c, o, counters):
    def viol(sig, what):
        counters["viol"] += 1
        if counters["viol"] <= 5:
            ctx.violation(sig, what, {"departed_node": c, "observed": o})

    if o.get("err"):
        viol("relocate:error", "relocate failed on case %d: %s" % (c["n"], o["err"]))
        return False
    events = o["events"] or []
    if len(events) > 1:
        viol("relocate:events", "%d RelocationFailed events were published for one departure" % len(events))
        return False
    listed_a = Counter(events[0]["actors"] or []) if events else Counter()
    listed_g = Counter(events[0]["grains"] or []) if events else Counter()
    if not o["job_released"] or o["deletes"] != 1:
        viol("relocate:bookkeeping", "after relocate: job released=%s, peer state deletions=%d" % (o["job_released"], o["deletes"]))
        return False
    eager_names = {"g%d" % g["id"] for g in c["grains"] if g["eager"]}
    # a stale record of an actor / eager grain cannot be turned into a running instance here (unknown type)
    fail = set(c["local_fail"]) | {x for x in c.get("stale", []) if x[0] == "a" or x in eager_names}
    if o.get("dup_accepted"):
        viol("relocationWorker.finish:duplicate-accepted-during-snapshot-delete",
             "a duplicate NodeLeft handled while the worker was deleting the peer-state snapshot was accepted by beginRelocation (%d times): the job had already been released although the snapshot was still readable, so a second relocation of the same node starts" % o["dup_accepted"])
        return False
    bad_markers = [m for m in (o.get("markers") or []) if m != o.get("want_marker")]
    if bad_markers:
        viol("relocate:departed-node-marker", "RelocateBatch requests carry the departed-node marker %r while the registry renders that endpoint as %r: every record still pointing at the departed node is taken for 'already relocated elsewhere' and skipped" % (bad_markers[0], o.get("want_marker")))
        return False
    rel_items = ["a%d" % a["id"] for a in c["actors"]] + ["g%d" % g["id"] for g in c["grains"] if not g["disabled"]]
    eager = {"g%d" % g["id"] for g in c["grains"] if g["eager"]}
    if c["peers_error"]:
        # nothing is relocated: every actor and eager grain is listed; lazy grains are released or listed
        for it in rel_items:
            listed = (listed_a if it[0] == "a" else listed_g)[it]
            want = 1 if (it[0] == "a" or it in eager or it in fail) else 0
            if listed != want:
                viol("relocate:abort-accounting", "aborted relocation lists %s %d times, expected %d" % (it, listed, want))
                return False
        return True
    placed = Counter()
    for x in (o["calls"] or []):
        if x["ok"]:
            for it in (x["actors"] or []) + (x["grains"] or []):
                if it not in (x["reported"] or []):
                    placed[it] += 1
    for it, k in list((o["actor_lookups"] or {}).items()) + list((o["grain_lookups"] or {}).items()):
        if k and it not in fail:
            placed[it] += 1
    for it in rel_items:
        listed = (listed_a if it[0] == "a" else listed_g)[it]
        if listed > 1:
            viol("relocate:listed-twice", "%s is listed %d times in RelocationFailed" % (it, listed)); return False
        if placed[it] > 1:
            viol("relocate:placed-twice", "%s was accepted by %d targets" % (it, placed[it])); return False
        if placed[it] == 0 and listed == 0:
            viol("relocate:item-lost", "%s is neither relocated nor listed in RelocationFailed" % it); return False
        if placed[it] >= 1 and listed >= 1:
            viol("relocate:listed-although-relocated", "%s was relocated and is listed in RelocationFailed as well" % it); return False
    extra = [k for k in list(listed_a) + list(listed_g) if k not in rel_items]
    if extra:
        viol("relocate:foreign-item", "RelocationFailed lists %s which is not a relocatable item of the departed node" % extra[:5]); return False
    return True


def cN(ns):
    out = "nn"
    for x in reversed(ns):
        out = "(cn %d %s)" % (x, out)
    return out


def cR(rs):
    out = "nr"
    for x in reversed(rs):
        out = "(cr %d %s)" % (x, out)
    return out


def cRR(rss):
    out = "nrr"
    for x in reversed(rss):
        out = "(crr %s %s)" % (cR(x), out)
    return out


def cA(acts):
    out = "na"
    for a in reversed(acts):
        out = "(ca (A %d %d %s) %s)" % (a["id"], a["role"], "true" if a["single"] else "false", out)
    return out


def cG(gs):
    out = "ng"
    for g in reversed(gs):
        out = "(cg (G %d %s %s) %s)" % (g["id"], "true" if g["disabled"] else "false", "true" if g["eager"] else "false", out)
    return out


def cZ(zs):
    out = "nz"
    for z in reversed(zs):
        out = "(cz %d %s)" % (z, out)
    return out


def ids(names, kind):
    return sorted(int(x[1:]) for x in names if x[0] == kind)


WORKER_HEADER = """From Coq Require Import List ZArith NArith Bool Arith. Import ListNotations.
From GV Require Import C32.Model C33.Worker.
Open Scope nat_scope.
Definition nn : list N := []. Definition cn (x : N) (l : list N) := x :: l.
Definition nnn : list (list N) := []. Definition cnn (x : list N) (l : list (list N)) := x :: l.
Definition nr : list nat := []. Definition cr (x : nat) (l : list nat) := x :: l.
Definition nrr : list (list nat) := []. Definition crr (x : list nat) (l : list (list nat)) := x :: l.
Definition na : list wactor := []. Definition ca (x : wactor) (l : list wactor) := x :: l.
Definition ng : list wgrain := []. Definition cg (x : wgrain) (l : list wgrain) := x :: l.
Definition nz : list Z := []. Definition cz (x : Z) (l : list Z) := x :: l.
Definition A := mkActor. Definition G := mkGrain.
Definition memN (x : N) (l : list N) := existsb (N.eqb x) l.
(* item sets are given as (actor ids, grain ids) *)
Definition in_set (s : list N * list N) (it : item) : bool :=
  match it with IA a => memN (aid a) (fst s) | IG g => memN (gid g) (snd s) end.
Definition set_at (l : list (list N * list N)) (p : nat) := nth p l ([], []).
Record wcase := mkW {
  w_n : N; w_lr : list nat; w_pr : list (list nat); w_acts : list wactor; w_grains : list wgrain; w_loads : list Z;
  w_localfail : list N * list N; w_poison : list (list N * list N); w_reported : list (list N * list N); w_abort : bool }.
Definition rpc_of (c : wcase) (p k : nat) (r : request) : option (item -> bool) :=
  if existsb (in_set (set_at (w_poison c) p)) (items_of r) then None
  else Some (fun it => negb (in_set (set_at (w_reported c) p) it)).
Definition run_case (c : wcase) : N * list N * list N :=
  let ok_local := fun it => negb (in_set (w_localfail c) it) in
  let rel_ok := fun g => negb (memN (gid g) (snd (w_localfail c))) in
  let '(_, failed) :=
    if w_abort c then aborted rel_ok (w_acts c) (w_grains c)
    else relocate (w_lr c) (w_pr c) ok_local rel_ok (rpc_of c)
                  (fun p i => rpc_of c (if i <? p then i else S i)) (w_acts c) (w_grains c) (w_loads c) in
  (w_n c,
   flat_map (fun it => match it with IA a => [aid a] | _ => [] end) failed,
   flat_map (fun it => match it with IG g => [gid g] | _ => [] end) failed).
Definition wn : list wcase := []. Definition wc (x : wcase) (l : list wcase) := x :: l.
"""


def model_local_fail(c):
    eager = {"g%d" % g["id"] for g in c["grains"] if g["eager"]}
    return sorted(set(c["local_fail"]) | {x for x in c.get("stale", []) if x[0] == "a" or x in eager})


def set_lit(names):
    return "(%s, %s)" % (cN(ids(names, "a")), cN(ids(names, "g")))


def worker_model(ctx, cases, outs, orders):
    rows = []
    for c in cases:
        if c["n"] not in orders:
            continue
        order, gorder = orders[c["n"]]
        npeers = len(c["peers"])
        poison = "[" + "; ".join(set_lit(c["poison"].get(str(p), [])) for p in range(npeers)) + "]"
        reported = "[" + "; ".join(set_lit(c["reported"].get(str(p), [])) for p in range(npeers)) + "]"
        loads = c["loads"] if c["has_loads"] else []
        rows.append("(mkW %d %s %s %s %s %s %s %s %s %s)" % (
            c["n"], cR(c["leader_roles"]), cRR(c["peers"]), cA(order), cG(gorder), cZ(loads), set_lit(model_local_fail(c)), poison, reported,
            "true" if c["peers_error"] else "false"))
    lst = "wn"
    for r in reversed(rows):
        lst = "(wc %s %s)" % (r, lst)
    body = WORKER_HEADER + "Definition cases : list wcase := %s.\nEval vm_compute in (map run_case cases).\n" % lst
    rc, out = ctx.coq_eval("cases_C33_worker", body)
    flat = " ".join(out.split())
    m = re.search(r"= (\[.*\]) : ", flat)
    if rc != 0 or not m:
        return None, out
    txt = re.sub(r"%N", "", m.group(1)).replace(";", ",")
    try:
        val = ast.literal_eval(txt)
    except Exception as e:  # noqa
        return None, out + "\nparse error %s" % e
    return {int(n): (sorted(a), sorted(g)) for (n, a, g) in val}, out


# ----------------------------------------------------------------------------- leader sequences
def gen_leader_seqs(ctx):
    rng = ctx.rng
    seqs = []

    def nl(a, ok=True, content="ok"):
        return {"op": "nodeleft", "addr": a, "tell_ok": ok, "content": content}

    def rel(ok=True):
        return {"op": "relocator", "spawn_ok": ok}

    def fin(pick=0, peers_error=False):
        return {"op": "finish", "pick": pick, "peers_error": peers_error}

    def crash(pick=0):
        return {"op": "crash", "pick": pick}

    # corpus: duplicate while queued / running / after completion (stale Terminated) / crash / failed tell / failed spawn
    seqs.append([nl(0), nl(0), rel(), nl(0), fin(), nl(0, content="unplaceable"), rel(), rel(), crash(), rel(),
                 nl(1, ok=False), nl(1, content="unplaceable"), rel(False), nl(2, content="unplaceable"), rel(), fin(), rel()])
    seqs.append([nl(0, content="unplaceable"), rel(), fin(peers_error=True), rel(), nl(0), rel(), fin(), nl(0), rel(), rel(), fin(), rel()])
    seqs.append([nl(0), nl(1), nl(2), rel(), rel(), rel(), crash(1), nl(1), rel(), nl(1), rel(), fin(0), fin(0), rel(), rel()])
    n = 24 if ctx.thorough else 7
    for _ in range(n):
        ops = []
        for _k in range(rng.randint(12, 30)):
            u = rng.random()
            if u < 0.35:
                ops.append(nl(rng.randint(0, 2), ok=rng.random() < 0.85, content=rng.choice(["ok", "unplaceable"])))
            elif u < 0.7:
                ops.append(rel(rng.random() < 0.8))
            elif u < 0.9:
                ops.append(fin(rng.randint(0, 3), peers_error=rng.random() < 0.25))
            else:
                ops.append(crash(rng.randint(0, 3)))
        ops += [rel(), rel(), rel()]
        seqs.append(ops)
    return [{"n": i, "ops": s} for i, s in enumerate(seqs)]


LEADER_HEADER = """From Coq Require Import List ZArith Bool Arith. Import ListNotations.
From GV Require Import C33.Model.
Open Scope nat_scope.
Definition msg_code (m : msg) : nat * nat * nat := match m with Rebalance a j => (0, a, j) | TerminatedMsg w => (1, w, 0) end.
Definition pub_code (p : pub) : nat := match p with PubNone => 0 | PubFailed => 1 | PubAborted => 2 | PubStopping => 3 end.
Definition snap (s : lstate) :=
  (map (fun a => match jobs s a with Some j => S j | None => 0 end) [0;1;2;3],
   map msg_code (mailbox s),
   flat_map (fun w => match workers s w with Some (a, j) => [(w, a, j)] | None => [] end) (seq 1 (seqn s)),
   seqn s,
   map (fun o => (fst o, pub_code (snd o))) (outcomes s)).
Fixpoint trace (s : lstate) (ls : list label) :=
  match ls with [] => [] | l :: r => let s' := step s l in snap s' :: trace s' r end.
"""


def leader_model(ctx, outs):
    rows = []
    for o in outs:
        labels = []
        for a in o["applied"] or []:
            if a.get("stuck"):
                break
            if a["op"] == "nodeleft":
                labels.append("LNodeLeft %d %s" % (a["addr"], "true" if a["tell_ok"] else "false"))
            elif a["op"] == "relocator":
                labels.append("LRelocator %s" % ("true" if a["spawn_ok"] else "false"))
            elif a["op"] == "finish":
                labels.append("LWorkerFinish %d %s" % (a["w"], {"none": "FinNone", "failed": "FinFailed", "peers_error": "FinPeersError"}[a["kind"]]))
            elif a["op"] == "crash":
                labels.append("LWorkerCrash %d" % a["w"])
        rows.append("(%d, trace init [%s])" % (o["n"], "; ".join(labels)))
    body = LEADER_HEADER + "Eval vm_compute in [%s].\n" % "; ".join(rows)
    rc, out = ctx.coq_eval("cases_C33_leader", body)
    flat = " ".join(out.split())
    m = re.search(r"= (\[.*\]) : ", flat)
    if rc != 0 or not m:
        return None, out
    try:
        val = ast.literal_eval(m.group(1).replace(";", ","))
    except Exception as e:  # noqa
        return None, out + "\nparse error %s" % e
    return {int(n): tr for (n, tr) in val}, out


def run(ctx):
    ctx.trusted += ["hand-written Gallina models C33/Model.v and C33/Worker.v (evaluated by vm_compute against the real relocator / worker on every case, every run)",
                    "mocked cluster registry and transport: an RPC error is taken to mean that the batch was not applied by the peer",
                    "the dispatch after a NodeLeft is reproduced by its three statements (beginRelocation, Tell to the relocator, endRelocation on a failed Tell) around the real functions"]
    ctx.assumptions += ["snapshot identity = pointer identity of the PeerState registered by beginRelocation (as handleTerminated compares it)",
                        "peer addresses are distinct (survivingPeersExcept removes exactly the failed peer)",
                        "per peer at most 500 actors and 500 grains in the tie (one batch per kind), so every phase-1 share is observable from the recorded attempts"]
    # ---------------- (A) worker
    cases = gen_worker_cases(ctx)
    with open(os.path.join(ctx.work, "c33_in.jsonl"), "w") as f:
        for c in cases:
            f.write(json.dumps(c) + "\n")
    seqs = gen_leader_seqs(ctx)
    with open(os.path.join(ctx.work, "c33_leader_in.jsonl"), "w") as f:
        for s in seqs:
            f.write(json.dumps(s) + "\n")
    for fn in ("c33_out.jsonl", "c33_leader_out.jsonl"):
        p = os.path.join(ctx.work, fn)
        if os.path.exists(p):
            os.remove(p)
    rc, gout = ctx.go_test("actor", "^TestVerifC33", ["zz_verif_C33_test.go", "zz_verif_C32_test.go"], timeout=900)
    outs = {o["n"]: o for o in read_jsonl(os.path.join(ctx.work, "c33_out.jsonl"))}
    louts = read_jsonl(os.path.join(ctx.work, "c33_leader_out.jsonl"))
    if rc != 0 or len(outs) != len(cases) or len(louts) != len(seqs):
        ctx.tie_broken("go-harness relocation worker / relocator", gout)

    # harness-side waits can time out on a heavily loaded machine: re-run those sequences alone, once
    flaky = [o["n"] for o in louts if o.get("err")]
    if flaky and rc == 0:
        with open(os.path.join(ctx.work, "c33_leader_in.jsonl"), "w") as f:
            for sq in seqs:
                if sq["n"] in flaky:
                    f.write(json.dumps(sq) + "\n")
        rc_r, gout_r = ctx.go_test("actor", "^TestVerifC33Leader", ["zz_verif_C33_test.go", "zz_verif_C32_test.go"], env={"VERIF_C33_PAR": "1"}, timeout=600)
        again = {o["n"]: o for o in read_jsonl(os.path.join(ctx.work, "c33_leader_out.jsonl"))}
        louts = [again.get(o["n"], o) if o["n"] in flaky else o for o in louts]
        ctx.notes.append("re-ran %d leader sequences whose harness waits timed out; %d still fail" % (len(flaky), sum(1 for o in louts if o.get("err"))))
    counters = {"viol": 0}
    orders = {}
    clean = set()
    no_order = 0
    for c in cases:
        o = outs.get(c["n"])
        if o is None:
            continue
        if worker_oracle(ctx, c, o, counters):
            clean.add(c["n"])
            if c["peers_error"]:
                orders[c["n"]] = (c["actors"], c["grains"])
            else:
                rec = reconstruct(c, o)
                if rec is None:
                    no_order += 1
                else:
                    orders[c["n"]] = rec
    ctx.coq_build(["theories/C33/Worker.vo", "theories/C33/Model.vo"])
    model, mout = worker_model(ctx, cases, outs, orders)
    wm_bad = []
    if model is None:
        ctx.tie_broken("model evaluation (cases_C33_worker.v did not evaluate)", mout)
    else:
        for c in cases:
            if c["n"] not in model or c["n"] not in clean:
                continue
            o = outs[c["n"]]
            ev = (o["events"] or [{}])[0] if o["events"] else {}
            got = (ids(ev.get("actors") or [], "a"), ids(ev.get("grains") or [], "g"))
            if tuple(model[c["n"]]) != got:
                wm_bad.append({"case": c, "observed_event": ev, "model_failed": model[c["n"]]})
        if wm_bad:
            ctx.tie_broken("C33 worker model vs Go (failed items differ)", {"count": len(wm_bad), "first": wm_bad[:2]})
    if no_order > max(2, len(cases) // 5):
        ctx.tie_broken("C33 worker: iteration order not reconstructible", {"cases_without_order": no_order})

    # ---------------- (B) leader
    stuck = [(o, a) for o in louts for a in (o["applied"] or []) if a.get("stuck")]
    if stuck:
        o, a = stuck[0]
        crash_first = next(((o2, a2) for o2, a2 in stuck if a2["op"] == "crash"), (o, a))
        o, a = crash_first
        seq = next(s for s in seqs if s["n"] == o["n"])
        ctx.violation(SHUTDOWN_SIG,
                      "after relocation worker %d %s, no Terminated ever reaches the relocator: %s (PID.Shutdown refuses system-named actors while the system runs, so neither the worker's own Shutdown nor the supervisor's Stop directive stops it)" %
                      (a["w"], "panicked" if a["op"] == "crash" else "completed", a["stuck"]),
                      {"op_sequence": seq["ops"], "applied_until": [x["op"] for x in o["applied"]], "observation": a,
                       "sequences_affected": len({o2["n"] for o2, _ in stuck})})
    dups = [(o, a) for o in louts for a in (o["applied"] or []) if a.get("dup_accepted")]
    if dups:
        o, a = dups[0]
        seq = next(sq for sq in seqs if sq["n"] == o["n"])
        ctx.violation("relocationWorker.finish:duplicate-accepted-during-snapshot-delete",
                      "a duplicate NodeLeft handled while the peer-state snapshot of the departed node was being deleted (after step %s of the history) was accepted by beginRelocation: the job is released before the snapshot is gone, so the same node would be relocated a second time" % a["op"],
                      {"op_sequence": seq["ops"], "applied": [x["op"] for x in o["applied"]], "observation": a})
    errs = [o for o in louts if o.get("err")]
    if errs:
        ctx.tie_broken("go-harness relocator stepping", {"first": errs[0]["err"], "count": len(errs)})
    # property oracle on the observations alone: never two relocations of one address in flight
    # (queued Rebalance orders + workers that have not ended + dead workers not yet reaped)
    dup_reported = False
    for o in louts:
        alive = {}      # worker number -> addr
        prev_queue = []
        for a in (o["applied"] or []):
            if a.get("stuck"):
                break
            if a["op"] == "relocator" and a["spawn_ok"] and prev_queue and prev_queue[0]["kind"] == "rebalance":
                alive[a["seq"]] = prev_queue[0]["addr"]
            if a["op"] in ("finish",) and a["w"] in alive:
                del alive[a["w"]]
            if a["op"] == "crash" and a["w"] in alive:
                pass  # still owns its job until the relocator handles its Terminated
            reaped = {int(w) for w in alive} - {int(w) for w in (a["workers"] or {})}
            for w in reaped:
                alive.pop(w, None)
            per = Counter(alive.values()) + Counter(m["addr"] for m in (a["queue"] or []) if m["kind"] == "rebalance")
            worst = [ad for ad, k in per.items() if k > 1]
            if worst and not dup_reported:
                dup_reported = True
                seq = next(s for s in seqs if s["n"] == o["n"])
                ctx.violation("relocator:second-relocation-in-flight",
                              "address %d has %d relocations in flight at once (queued orders + running workers) after a duplicate departure notification" % (worst[0], per[worst[0]]),
                              {"op_sequence": seq["ops"], "applied": [x["op"] for x in o["applied"]], "observation": a})
            prev_queue = a["queue"] or []
    lmodel, lout = leader_model(ctx, louts)
    l_bad = []
    steps = 0
    if lmodel is None:
        ctx.tie_broken("model evaluation (cases_C33_leader.v did not evaluate)", lout)
    else:
        for o in louts:
            tr = lmodel.get(o["n"], [])
            content = {}  # job id -> number of actors
            seq = next(s for s in seqs if s["n"] == o["n"])
            k = 0
            job_actors = {}
            nl_ops = [x for x in seq["ops"] if x["op"] == "nodeleft"]
            nli = 0
            fresh = 0
            for a in (o["applied"] or []):
                if a.get("stuck"):
                    break
                if a["op"] == "nodeleft":
                    op = nl_ops[nli]; nli += 1
                    # a job id is consumed whenever beginRelocation accepted (even when the Tell then failed)
                    if k > 0:
                        prev_jobs = tr[k - 1][0]
                    else:
                        prev_jobs = [0, 0, 0, 0]
                    if prev_jobs[a["addr"]] == 0:
                        job_actors[fresh] = 2 if op["content"] == "unplaceable" else 1
                        fresh += 1
                if k >= len(tr):
                    break
                jobs, mailbox, workers, seqn, outcomes = tr[k]
                k += 1
                steps += 1
                want_jobs = {str(i): j - 1 for i, j in enumerate(jobs) if j > 0}
                want_queue = [("rebalance", x[0][1], x[1]) if x[0][0] == 0 else ("terminated", x[0][1]) for x in [((m[0], m[1]), m[2]) for m in mailbox]]
                got_queue = [("rebalance", m["addr"], m["job"]) if m["kind"] == "rebalance" else ("terminated", m["w"]) for m in (a["queue"] or [])]
                want_workers = {str(w): [ad, j] for (w, ad, j) in workers}
                want_events = []
                for (j, p) in outcomes:
                    if p == 1:
                        want_events.append(1)
                    elif p == 2:
                        want_events.append(job_actors.get(j, -1))
                got_events = [e["actors"] for e in (a["events"] or [])]
                diffs = []
                if want_jobs != {kk: v for kk, v in (a["jobs"] or {}).items()}:
                    diffs.append(("jobs", want_jobs, a["jobs"]))
                if want_queue != got_queue:
                    diffs.append(("mailbox", want_queue, got_queue))
                if want_workers != {kk: list(v) for kk, v in (a["workers"] or {}).items()}:
                    diffs.append(("workers", want_workers, a["workers"]))
                if seqn != a["seq"]:
                    diffs.append(("sequence", seqn, a["seq"]))
                if sorted(want_events) != sorted(got_events):
                    diffs.append(("RelocationFailed events (actors listed)", want_events, got_events))
                if len([1 for (_, p) in outcomes if p != 3]) != a["deletes"]:
                    diffs.append(("DeletePeerState calls", len(outcomes), a["deletes"]))
                if diffs:
                    l_bad.append({"sequence": o["n"], "step": k, "op": a["op"], "diffs": [(d[0], str(d[1]), str(d[2])) for d in diffs[:3]]})
                    break
        if l_bad and not stuck:
            # a second relocation of an address in flight, or two events for one job, is the property itself
            d0 = l_bad[0]
            seq = next(s for s in seqs if s["n"] == d0["sequence"])
            if any(x[0].startswith("RelocationFailed") for x in d0["diffs"]):
                ctx.violation("relocator:events", "after step %d (%s) of the history the RelocationFailed events differ from one-outcome-per-departure: %s" % (d0["step"], d0["op"], d0["diffs"]),
                              {"op_sequence": seq["ops"], "first_divergence": d0})
            else:
                ctx.tie_broken("C33 leader model vs Go (state after a step differs)", {"count": len(l_bad), "first": d0, "op_sequence": seq["ops"]})
        elif l_bad:
            ctx.notes.append("leader model comparison skipped after the stuck worker: %d sequences diverge only because no Terminated arrives" % len(l_bad))

    if not ctx.coq_property():
        if not any(f.kind == "violation" for f in ctx.findings):
            ctx.proof_broken("Properties/C33.v (%s)" % getattr(ctx, "failed_at", "?"), getattr(ctx, "coq_log", ""))
        else:
            ctx.notes.append("Coq obligation broken at %s; concrete failing input reported" % getattr(ctx, "failed_at", "?"))

    ophist = Counter(a["op"] for o in louts for a in (o["applied"] or []))
    nontriv = {canon_hash({k: v for k, v in c.items() if k != "n"}) for c in cases
               if any(c["poison"].get(p) for p in c["poison"]) or any(c["reported"].get(p) for p in c["reported"]) or c["local_fail"] or c["peers_error"]}
    ctx.coverage.update({
        "evaluations": len(outs) + steps,
        "distinct_nontrivial": len(nontriv) + len(louts),
        "rule": "worker: departed-node states (<=10 actors, <=14 grains, 0-3 peers, roles, singletons, disabled/eager grains) with failure scripts (poisoned batches per peer, per-item remote failures, local failures, peers unavailable); a dedicated family where a peer fails mid-relocation while others survive and its share holds leader-only / other-survivor-only / unplaceable role actors; non-trivial = at least one injected failure. leader: label sequences of 12-33 steps over 3 addresses (duplicates, failed Tell, failed spawn, normal/failed/peers-error completion, crash, stale Terminated), every step compared",
        "worker_cases": len(outs), "worker_orders_reconstructed": len(orders), "worker_model_mismatches": len(wm_bad),
        "leader_sequences": len(louts), "leader_steps_compared": steps, "leader_ops": dict(ophist), "leader_mismatches": len(l_bad),
        "samples": [cases[3], (outs.get(3) or {}).get("events"), seqs[0]["ops"][:6]],
        "theorems": ["C33_one_relocation_per_address", "C33_duplicate_notification_ignored", "C33_single_outcome_per_departure",
                     "C33_single_failed_event_per_departure", "C33_registered_job_unpublished", "C33_items_relocated_or_failed", "C33_abort_reports_everything", "C33_finish_releases_job_last"],
    })


META = {
    "ready": True,
    "category": "proof",
    "technique": "Rocq proof: inductive ownership invariant over all histories of the leader-side transition system + permutation accounting of the worker for every failure oracle; step-by-step conformance of the real relocator/worker actors and differential evaluation of the worker model (vm_compute)",
    "text": "For every history of departures, duplicate notifications, failed dispatches, spawn failures, worker completions and crashes: a registered relocation job has exactly one owner, so a node is never relocated twice concurrently, duplicates are ignored, and each departure gets at most one RelocationFailed event. For every failure oracle the worker handles or reports every relocatable actor and grain exactly once. The real relocationJobs/relocator/worker actors are stepped through generated histories and the real relocate runs against mocked registry/transport; both are compared with the Coq models.",
    "design_ref": "DESIGN.md 7/C33",
    "level_note": "Trusted: Coq kernel, the hand-written models (validated each run), mocks of cluster registry/transport, Go runtime scheduling of the actor system during stepping.",
}
