"""C27 — remote tells keep order and are never silently dropped.

Proof:  Properties/C27.v over C27/Model.v — the coalescer (bounded channel, single writer goroutine, submit
        with its pre-check / fast / slow path, close, a transport that delivers or fails each batch) as a
        transition system; conservation, per-caller FIFO, at-most-once for EVERY interleaving / fault
        sequence; `accounted` for the shutdown code that drains until empty under the submit lock; refutation
        witnesses for the shutdown code before the repair.
Tie:    (T) deterministic op scripts run on the REAL coalescer against a scripted transport (every batch is
        parked until the script's verdict, so the writer is always idle or blocked in flush); the event trace
        is expanded to atomic-step labels and replayed through the Coq model's `step` (every submit result,
        every batch content, every error-handler batch, what is left in the queue when close() returns).
        One script uses a context whose Done() is a hook: submit evaluates it only on its slow path, which
        gives a real preemption point between the shutdown pre-check and the blocking send.
Oracle: message ids: accepted (send returned nil) vs delivered (batch acknowledged by the transport) vs
        dead-lettered (error handler): accounted, at most once, only accepted, per-caller order — on the
        scripts and on real-goroutine stress runs of coalescer.submit/close and Client.RemoteTell/Close.
"""
import json
import os
import re

from vlib import canon_hash


def read_jsonl(path):
    """one JSON value per line; a harness that died mid-write leaves a truncated last line: skip it"""
    out = []
    if not os.path.exists(path):
        return out
    for line in open(path, errors="replace"):
        line = line.strip()
        if not line:
            continue
        try:
            out.append(json.loads(line))
        except ValueError:
            continue
    return out

VARIANTS = {  # name -> (drain_all, barrier)
    "repaired": (True, True),
    "drainall_only": (True, False),
    "legacy": (False, False),
}


def load_corpus_dir(pid):
    """minimised / interesting cases kept as files in corpus/<pid>/*.json, run first"""
    d = os.path.join(os.path.dirname(os.path.dirname(os.path.abspath(__file__))), "corpus", pid)
    out = []
    if os.path.isdir(d):
        for fn in sorted(os.listdir(d)):
            if fn.endswith(".json"):
                out.append(json.load(open(os.path.join(d, fn))))
    return out


# ------------------------------------------------------------------ script generation
def corpus_scripts():
    out = []

    def sub(i, ctx=None):
        o = {"op": "submit", "id": "m%d" % i}
        if ctx:
            o["ctx"] = ctx
        return o

    # (a) queue fills beyond one batch behind an in-flight flush, then close
    for mb in (1, 2, 3):
        cap = 4 * mb
        ops = [sub(i) for i in range(cap + 1)] + [{"op": "close"}, {"op": "verdict", "v": 0}]
        out.append({"name": "corpus-close-pending-mb%d" % mb, "max_batch": mb, "handler": True, "ops": ops})
    # exactly one batch pending at close (the case the repo's own test covers)
    out.append({"name": "corpus-close-one-batch", "max_batch": 4, "handler": True,
                "ops": [sub(i) for i in range(4)] + [{"op": "close"}, {"op": "verdict", "v": 0}]})
    # (b) late submit: hook inside the real submit's slow path; repeated because the final select is random
    for r in range(6):
        for mb in (1, 2):
            cap = 4 * mb
            ops = [sub(i) for i in range(cap + 1)] + [{"op": "submit_hook", "id": "m%d" % (cap + 1)}]
            out.append({"name": "corpus-late-submit-mb%d-%d" % (mb, r), "max_batch": mb, "handler": True, "ops": ops})
    # failing batches, also the last ones before close
    out.append({"name": "corpus-fail-mix", "max_batch": 2, "handler": True,
                "ops": [sub(0), sub(1), sub(2), {"op": "verdict", "v": 1}, sub(3), {"op": "verdict", "v": 2},
                        sub(4), {"op": "verdict", "v": 0}, {"op": "close"}, {"op": "verdict", "v": 1}]})
    # backpressure with a cancelled context, submit after close
    out.append({"name": "corpus-backpressure", "max_batch": 1, "handler": True,
                "ops": [sub(i) for i in range(5)] + [sub(5, "cancelled"), sub(6, "cancelled"), {"op": "verdict", "v": 0},
                                                     sub(7, "cancelled"), {"op": "close"}, sub(8), {"op": "verdict", "v": 0}]})
    out.append({"name": "corpus-close-idle", "max_batch": 2, "handler": True,
                "ops": [sub(0), {"op": "verdict", "v": 0}, {"op": "close"}, sub(1), sub(2)]})
    return out


def gen_script(rng, idx):
    """random op script; mirrors the deterministic driver (writer idle or blocked in flush) to stay valid"""
    mb = rng.choice([1, 1, 2, 2, 3, 4])
    cap = 4 * mb
    ops, q, inflight, nid = [], 0, False, 0
    fail_p = rng.choice([0.0, 0.2, 0.5])

    def verdict():
        return {"op": "verdict", "v": rng.choice([1, 2]) if rng.random() < fail_p else 0}

    for _ in range(rng.randint(3, 36)):
        r = rng.random()
        if inflight and (r < 0.3 or (q >= cap and r < 0.8)):
            ops.append(verdict())
            take = min(mb, q)
            q -= take
            inflight = take > 0
            continue
        o = {"op": "submit", "id": "m%d" % nid}
        nid += 1
        if inflight and q >= cap:
            o["ctx"] = "cancelled"  # full queue: only a cancelled context returns
        else:
            if rng.random() < 0.15:
                o["ctx"] = "cancelled"  # cancelled context with room: the fast path still accepts
            if not inflight:
                inflight = True
            else:
                q += 1
        ops.append(o)
    if rng.random() < 0.85:
        ops.append({"op": "close"})
        for _ in range(rng.randint(0, 6)):
            if rng.random() < 0.6:
                ops.append(verdict())
            else:
                ops.append({"op": "submit", "id": "m%d" % nid})
                nid += 1
    return {"name": "gen-%d" % idx, "max_batch": mb, "handler": True, "ops": ops}


# ------------------------------------------------------------------ oracle on a script trace
def script_oracle(tr):
    """returns list of (signature, what, detail)"""
    bad = []
    ev = tr["events"]
    accepted, order, hooked = [], {}, set()
    nsub = 0
    for e in ev:
        if e["k"] == "sub":
            order[e["id"]] = nsub
            nsub += 1
            if e["res"] == "ok":
                accepted.append(e["id"])
            if e.get("v") == 1:
                hooked.add(e["id"])
        elif e["k"] == "hook":
            pass
    arrivals = [e["ids"] for e in ev if e["k"] == "arr"]
    verdicts = [(e["ids"], e["v"]) for e in ev if e["k"] == "ver"]
    ehs = [e.get("ids") or [] for e in ev if e["k"] == "eh"]
    delivered = [i for ids, v in verdicts if v == 0 for i in ids]
    failed = [ids for ids, v in verdicts if v != 0]
    errored = [i for ids in ehs for i in ids]
    flat = [i for ids in arrivals for i in ids]
    if tr.get("handler"):
        if failed != ehs:
            bad.append(("coalescer.flush:failed-batch-not-dead-lettered",
                        "failed batches %s but error handler got %s" % (failed, ehs), {}))
        retained = tr.get("retained") or []
        if retained != ehs:
            bad.append(("coalescer.flush:handler-slice-mutated",
                        "the slice handed to the error handler changed after the call: got %s at the call, holds %s at the end" % (ehs, retained), {}))
    seen = set()
    for i in flat:
        if i in seen:
            bad.append(("coalescer:message-sent-twice", "message %s reached the transport twice" % i, {}))
        seen.add(i)
        if i not in accepted:
            bad.append(("coalescer:unaccepted-message-sent", "message %s was sent although its submit did not return nil" % i, {}))
    idx = [order.get(i, -1) for i in flat]
    if idx != sorted(idx):
        bad.append(("coalescer:order", "messages of one caller reached the transport out of send order: %s" % flat, {}))
    for ids in arrivals:
        if len(ids) > tr["max_batch"]:
            pass  # batch size is not part of the property; the model replay reports it as a tie difference
    if tr.get("exited"):
        failed_ids = set(i for ids in failed for i in ids)
        lost = [i for i in accepted if i not in delivered and i not in errored and i not in failed_ids]
        lost_h = [i for i in lost if i in hooked]
        lost_q = [i for i in lost if i not in hooked]
        if lost_q:
            bad.append(("coalescer.close:queued-messages-dropped",
                        "close() returned with accepted messages neither delivered nor handed to the error handler: %s (still in the queue: %s)" % (lost_q, tr.get("stranded")), {}))
        if lost_h:
            bad.append(("coalescer.submit:accepted-after-writer-exit",
                        "submit passed the shutdown pre-check, close() ran to completion, then the send was accepted: %s is never delivered nor dead-lettered" % lost_h, {}))
    return bad


# ------------------------------------------------------------------ trace -> labels of the Coq model
def expand(tr, variant):
    drain_all, barrier = VARIANTS[variant]
    ev = tr["events"]
    ids = {}
    nsub = 0
    for e in ev:
        if e["k"] == "sub":
            ids[e["id"]] = nsub
            nsub += 1

    def m(i):
        return "(0,%d)" % ids[i] if i in ids else "(9,9)"

    def ml(l):
        return "[" + "; ".join(m(i) for i in l) + "]"

    labels = ["LSpawn"]
    post_close_arr = [k for k, e in enumerate(ev) if e["k"] == "arr" and any(x["k"] == "close" for x in ev[:k])]
    last_post = post_close_arr[-1] if post_close_arr else None
    closing = False
    exited = False
    hook_pending = None
    not_called = set(e["id"] for e in ev if e["k"] == "hook_not_called")
    for k, e in enumerate(ev):
        kind = e["k"]
        if kind == "hook":
            labels += ["LSubLock 0", "LSubCheck 0 false", "LSubFast 0 false"]
            hook_pending = e["id"]
        elif kind == "sub":
            if e.get("v") == 1 and e["id"] not in not_called and hook_pending == e["id"]:
                labels.append({"ok": "LSubSlowSend 0", "closed": "LSubSlowDone 0"}.get(e["res"], "LSubSlowCtx 0"))
                hook_pending = None
            elif e["res"] == "ok":
                labels += ["LSubLock 0", "LSubCheck 0 false", "LSubFast 0 true"]
            elif e["res"] == "closed":
                labels += ["LSubLock 0", "LSubCheck 0 true"]
            elif e["res"] == "ctx":
                labels += ["LSubLock 0", "LSubCheck 0 false", "LSubFast 0 false", "LSubSlowCtx 0"]
            else:
                labels.append("LSubSlowCtx 99")  # unknown result: not a model step
        elif kind == "arr":
            n = len(e["ids"])
            if closing:
                labels += ["LWDrainOne"] * n + ["LWDrainStop"]
            elif (not drain_all) and k == last_post:
                labels += ["LWDone", "LWBarrier"] + ["LWDrainOne"] * n + ["LWDrainStop"]
                closing = True
            else:
                labels += ["LWRecv"] + ["LWDrainOne"] * (n - 1) + ["LWDrainStop"]
        elif kind == "ver":
            labels.append("LWFlush %s %s" % ("true" if e["v"] == 0 else "false", ml(e["ids"])))
            if closing and not drain_all:
                exited = True
        elif kind == "close":
            labels.append("LClose")
        elif kind == "closed":
            if not exited:
                if closing:
                    labels += ["LWDrainStop", "LWFlush true []"]
                else:
                    labels += ["LWDone", "LWBarrier", "LWDrainStop", "LWFlush true []"]
                exited = True
    ehs = [e.get("ids") or [] for e in ev if e["k"] == "eh"]
    cfg = "(mkCfg %d %d %s %s)" % (tr["max_batch"], tr["cap"], "true" if drain_all else "false", "true" if barrier else "false")
    return "(%s, [%s], %s, [%s], %s)" % (cfg, "; ".join(labels), ml(tr.get("stranded") or []),
                                         "; ".join(ml(x) for x in ehs), "true" if tr.get("exited") else "false")


COQ_REPLAY = """From Coq Require Import List Arith Bool. Import ListNotations.
From GV Require Import C27.Model.
Definition eqll (a b : list (list msg)) : bool :=
  (fix go a b := match a, b with [], [] => true | x :: a', y :: b' => msgs_eqb x y && go a' b' | _, _ => false end) a b.
(* (0,0) ok | (1,i) label i is not enabled in the model | (2,1) queue at exit | (2,2) error-handler batches | (2,3) writer exit *)
Definition check (t : cfg * list label * list msg * list (list msg) * bool) : nat * nat :=
  match t with (c, ls, stranded, ehs, exited) =>
    match run_idx c init ls 0 with
    | (_, Some i) => (1, i)
    | (s, None) =>
        if negb (msgs_eqb (chan s) stranded) then (2, 1)
        else if negb (eqll (map snd (filter (fun p => negb (fst p)) (flushed s))) ehs) then (2, 2)
        else if negb (Bool.eqb exited (match wr s with WExited => true | _ => false end)) then (2, 3)
        else (0, 0)
    end end.
Definition trace_t := (cfg * list label * list msg * list (list msg) * bool)%%type.
%s
Definition traces : list trace_t := [%s].
Definition codes := map check traces.
Definition summary := (length traces, length (filter (fun n => negb (Nat.eqb (fst n) 0)) codes), codes).
Eval vm_compute in summary.
"""


def replay(ctx, traces, variant):
    defs = "\n".join("Definition t%d : trace_t := %s." % (i, expand(t, variant)) for i, t in enumerate(traces))
    body = COQ_REPLAY % (defs, "; ".join("t%d" % i for i in range(len(traces))))
    rc, out = ctx.coq_eval("cases_C27_" + variant, body)
    flat = " ".join(out.split())
    m_ = re.search(r"= \((\d+), (\d+), \[(.*?)\]\)", flat.replace("%nat", ""))
    if rc != 0 or not m_:
        return None, out
    codes = [tuple(int(y) for y in re.findall(r"\d+", x)) for x in m_.group(3).split(";") if x.strip()]
    return codes, out


# ------------------------------------------------------------------ oracle on a stress round
def stress_oracle(r):
    bad = []
    r["accepted"] = [a or [] for a in (r.get("accepted") or [])]
    r["flushes"] = r.get("flushes") or []
    acc_sets = [set(a) for a in r["accepted"]]
    accepted = set().union(*acc_sets) if acc_sets else set()
    flushed_seq = [i for f in r["flushes"] for i in f["ids"]]
    delivered = set(i for f in r["flushes"] if f["v"] == 0 for i in f["ids"])
    failed = [i for f in r["flushes"] if f["v"] != 0 for i in f["ids"]]
    handled = [i for h in (r.get("handled") or []) for i in h]
    tag = "%s round %d (maxBatch=%d callers=%d per=%d close=%s)" % (r["level"], r["round"], r["max_batch"], r["callers"], r["per_caller"], r["close_mode"])
    if len(set(flushed_seq)) != len(flushed_seq):
        dup = sorted(set(i for i in flushed_seq if flushed_seq.count(i) > 1))[:5]
        bad.append(("coalescer:message-sent-twice", "%s: messages reached the transport twice: %s" % (tag, dup)))
    if len(set(handled)) != len(handled):
        bad.append(("coalescer:message-dead-lettered-twice", "%s: error handler got a message twice" % tag))
    both = delivered & set(handled)
    if both:
        bad.append(("coalescer:delivered-and-dead-lettered", "%s: %s both delivered and handed to the error handler" % (tag, sorted(both)[:5])))
    extra = [i for i in flushed_seq if i not in accepted]
    if extra:
        bad.append(("coalescer:unaccepted-message-sent", "%s: sent although the send did not return nil: %s" % (tag, extra[:5])))
    # per caller order over everything that left the coalescer, in transport arrival order
    last = {}
    for i in flushed_seq:
        mm = re.match(r".*\.c(\d+)\.(\d+)$", i)
        if not mm:
            continue
        c, n = int(mm.group(1)), int(mm.group(2))
        if c in last and n <= last[c]:
            bad.append(("coalescer:order", "%s: caller %d: message %d reached the transport after message %d" % (tag, c, n, last[c])))
            break
        last[c] = n
    not_dl = [i for i in failed if i not in handled]
    if not_dl:
        bad.append(("coalescer.flush:failed-batch-not-dead-lettered", "%s: failed at the transport but never handed to the error handler: %s" % (tag, not_dl[:5])))
    if r.get("exited"):
        lost = sorted(i for i in accepted if i not in delivered and i not in handled and i not in failed)
        if lost:
            bad.append(("coalescer.close:queued-messages-dropped",
                        "%s: %d accepted message(s) neither delivered nor dead-lettered when close returned, e.g. %s (left in the queue: %d)" %
                        (tag, len(lost), lost[:4], len(r.get("stranded") or []))))
    for a in r.get("anomalies") or []:
        bad.append(("tie", "%s: %s" % (tag, a)))
    return bad


def e2e_oracle(r):
    bad = []
    acc = [a or [] for a in (r.get("accepted") or [])]
    accepted = set(i for a in acc for i in a)

    def order_ok(seq):
        last = {}
        for i in seq:
            mm = re.match(r".*\.c(\d+)\.(\d+)$", i)
            if not mm:
                continue
            c, n = int(mm.group(1)), int(mm.group(2))
            if c in last and n <= last[c]:
                return "caller %d: message %d after message %d" % (c, n, last[c])
            last[c] = n
        return None

    if r["part"] == "actor":
        got = r.get("received") or []
        tag = "RemoteTell -> real actor (%d callers x %d)" % (r["callers"], r["per_caller"])
        if len(set(got)) != len(got):
            bad.append(("remote-tell:delivered-twice", "%s: the actor received a message twice: %s" % (tag, sorted(set(i for i in got if got.count(i) > 1))[:4])))
        missing = sorted(accepted - set(got))
        if missing:
            bad.append(("remote-tell:accepted-not-delivered", "%s: %d accepted message(s) never reached the running actor, e.g. %s" % (tag, len(missing), missing[:4])))
        o = order_ok(got)
        if o:
            bad.append(("remote-tell:order", "%s: the actor saw %s" % (tag, o)))
        extra = [i for i in got if i not in accepted]
        if extra:
            bad.append(("remote-tell:unaccepted-delivered", "%s: delivered although the send returned an error: %s" % (tag, extra[:4])))
    else:
        tag = "RemoteTell -> faulty destination (%d callers x %d)" % (r["callers"], r["per_caller"])
        batches = r.get("batches") or []
        delivered = [i for b in batches if b["v"] == 0 for i in b["ids"]]
        failed = [i for b in batches if b["v"] != 0 for i in b["ids"]]
        dls = r.get("deadletters") or []
        seq = [i for b in batches for i in b["ids"]]
        if len(set(seq)) != len(seq):
            bad.append(("coalescer:message-sent-twice", "%s: a message reached the destination twice" % tag))
        o = order_ok(seq)
        if o:
            bad.append(("coalescer:order", "%s: at the destination %s" % (tag, o)))
        dup = sorted(set(i for i in dls if dls.count(i) > 1))
        if dup:
            bad.append(("deadletter:published-twice", "%s: dead-lettered more than once: %s" % (tag, dup[:4])))
        both = sorted(set(delivered) & set(dls))
        if both:
            bad.append(("deadletter:delivered-and-dead-lettered", "%s: %s" % (tag, both[:4])))
        nodl = sorted(i for i in failed if i not in dls)
        if nodl:
            bad.append(("deadletter:failed-batch-not-published", "%s: %d message(s) of failed batches never appeared in the sender's dead letters, e.g. %s" % (tag, len(nodl), nodl[:4])))
        lost = sorted(i for i in accepted if i not in delivered and i not in dls)
        if lost and not nodl:
            bad.append(("remote-tell:accepted-unaccounted", "%s: %d accepted message(s) neither delivered nor dead-lettered, e.g. %s" % (tag, len(lost), lost[:4])))
        if r.get("bad_deadletters"):
            bad.append(("deadletter:wrong-envelope", "%s: %s" % (tag, r["bad_deadletters"][:3])))
    return bad


def run(ctx):
    ctx.trusted += ["scripted transport = the real inet.ProtoServer with a parking handler (in-process, loopback TCP)",
                    "label expansion of harness events (checks/C27.py expand) — a wrong expansion can only make the replay fail"]
    ctx.assumptions += ["Go channels are FIFO and select picks any ready case (modelled as separate labels)",
                        "sync.RWMutex: Lock is acquired only while no reader holds the lock (the LWBarrier guard)",
                        "the error handler's own bounded fan-out queue (actor.enqueueCoalescedFailure) is C18's subject"]
    rng = ctx.rng
    scripts = load_corpus_dir('C27') + corpus_scripts()
    if ctx.replay_path and os.path.exists(ctx.replay_path):  # bin/check C27 --replay replays/C27-...json
        rp = json.load(open(ctx.replay_path)).get("replay", {})
        if isinstance(rp.get("script"), dict):
            scripts.insert(0, dict(rp["script"], name="replay-" + rp["script"].get("name", "x")))
    n_gen = 160 if ctx.thorough else 28
    scripts += [gen_script(rng, i) for i in range(n_gen)]
    for fn in ("c27_traces.jsonl", "c27_stress.jsonl", "c27_client.jsonl"):
        p = os.path.join(ctx.work, fn)
        if os.path.exists(p):
            os.remove(p)
    with open(os.path.join(ctx.work, "c27_scripts.jsonl"), "w") as f:
        for s in scripts:
            f.write(json.dumps(s) + "\n")
    env = {"VERIF_C27_ROUNDS": "200" if ctx.thorough else "24", "VERIF_C27_CLIENT_ROUNDS": "80" if ctx.thorough else "12"}
    ctx.log("running coalescer harness")
    rc, out = ctx.go_test("internal/remoteclient", "^TestVerifC27", ["zz_verif_C27_test.go"], env=env, timeout=800)
    traces = read_jsonl(os.path.join(ctx.work, "c27_traces.jsonl"))
    stress = read_jsonl(os.path.join(ctx.work, "c27_stress.jsonl")) + read_jsonl(os.path.join(ctx.work, "c27_client.jsonl"))
    if rc != 0 or len(traces) != len(scripts):
        ctx.tie_broken("go-harness internal/remoteclient coalescer", out)

    # end to end through the actor system's own remoting client and enqueueCoalescedFailure
    e2e_p = os.path.join(ctx.work, "c27_e2e.jsonl")
    if os.path.exists(e2e_p):
        os.remove(e2e_p)
    ctx.log("running actor-level harness")
    rc_e, out_e = ctx.go_test("actor", "^TestVerifC27Actor", ["zz_verif_C27_test.go"], env={"CGO_ENABLED": "0"}, timeout=1200)  # internal linking: the actor test binary links 3x faster
    e2e = read_jsonl(e2e_p)
    if rc_e != 0 or len(e2e) != 2:
        ctx.tie_broken("go-harness actor remoting/dead letters", out_e)

    ctx.log("oracle + model replay")
    # ---- property oracle
    reported = {}
    n_viol = 0

    def report(sig, what, replay_d):
        nonlocal n_viol
        if sig == "tie":
            reported["tie"] = reported.get("tie", 0) + 1
            if reported["tie"] <= 2:
                ctx.tie_broken("harness anomaly", what)
            return
        n_viol += 1
        if reported.get(sig, 0) < 2 and len(reported) < 6:
            reported[sig] = reported.get(sig, 0) + 1
            ctx.violation(sig, what, replay_d)

    by_name = {s["name"]: s for s in scripts}
    for tr in traces:
        for a in tr.get("anomalies") or []:
            report("tie", "%s: %s" % (tr["name"], a), {})
        for sig, what, _ in script_oracle(tr):
            report(sig, "%s: %s" % (tr["name"], what),
                   {"object": "internal/remoteclient.coalescer", "script": by_name.get(tr["name"]), "observed": tr})
    for r in stress:
        for sig, what in stress_oracle(r):
            slim = dict(r)
            slim["flushes"] = r["flushes"][:6]
            slim["accepted"] = [a[:6] for a in r["accepted"]]
            report(sig, what, {"object": "coalescer stress" if r["level"] == "coalescer" else "Client.RemoteTell/Close", "round": slim,
                               "rerun": "VERIF_SEED=%d bin/check C27 %s" % (ctx.seed, ctx.tier)})

    for r in e2e:
        for sig, what in e2e_oracle(r):
            slim = {k: (v if k not in ("accepted", "received", "batches", "deadletters") else str(v)[:300]) for k, v in r.items()}
            report(sig, what, {"object": "actorSystem.remoting.RemoteTell + enqueueCoalescedFailure", "run": slim,
                               "rerun": "VERIF_SEED=%d bin/check C27 %s" % (ctx.seed, ctx.tier)})

    # ---- the Coq model replays every script trace
    matched = None
    detail = {}
    if traces:
        for variant in ("repaired", "drainall_only", "legacy"):
            codes, o = replay(ctx, traces, variant)
            if codes is None:
                ctx.tie_broken("model replay (cases.v did not evaluate)", o)
                break
            failing = [(traces[i]["name"], c) for i, c in enumerate(codes) if c != (0, 0)]
            detail[variant] = failing[:5]
            if not failing:
                matched = variant
                break
            if variant == "repaired" and n_viol == 0:
                break
        if matched is None and "model replay (cases.v did not evaluate)" not in [f.signature for f in ctx.findings]:
            ctx.tie_broken("model replay: real coalescer traces are not executions of the Coq model",
                           {"first_failures_per_variant: name, (1,i) = label i of the expanded trace is not enabled in the model | (2,1) queue at exit | (2,2) error-handler batches | (2,3) writer exit": detail})
        elif matched and matched != "repaired":
            ctx.notes.append("the real traces are executions of the '%s' shutdown model, for which Coq proves the loss (C27_close_refuted_*)" % matched)

    # ---- theorems
    ctx.log("building Coq closure")
    if not ctx.coq_property():
        if not any(f.kind == "violation" for f in ctx.findings):
            ctx.proof_broken("Properties/C27.v (%s)" % getattr(ctx, "failed_at", "?"), getattr(ctx, "coq_log", ""))
        else:
            ctx.notes.append("Coq obligation broken at %s; concrete failing input reported" % getattr(ctx, "failed_at", "?"))

    def nontrivial(tr):
        ks = [e["k"] for e in tr["events"]]
        return ("close" in ks and any(e["k"] == "arr" for e in tr["events"][ks.index("close"):])) or any(e["k"] == "ver" and e["v"] != 0 for e in tr["events"])

    distinct = {canon_hash(tr["events"]) for tr in traces if nontrivial(tr)}
    ops_hist = {}
    for s in scripts:
        for o in s["ops"]:
            key = o["op"] + (":" + o["ctx"] if o.get("ctx") else "") + (":v%d" % o["v"] if o["op"] == "verdict" else "")
            ops_hist[key] = ops_hist.get(key, 0) + 1
    res_hist = {}
    for tr in traces:
        for e in tr["events"]:
            if e["k"] == "sub":
                res_hist[e["res"]] = res_hist.get(e["res"], 0) + 1
    ctx.coverage.update({
        "evaluations": len(traces) + len(stress) + len(e2e),
        "e2e": [{"part": r["part"], "accepted": sum(len(a or []) for a in r.get("accepted") or []), "received": len(r.get("received") or []),
                 "batches": len(r.get("batches") or []), "failed_batches": sum(1 for b in r.get("batches") or [] if b["v"] != 0),
                 "deadletters": len(r.get("deadletters") or [])} for r in e2e],
        "distinct_nontrivial": len(distinct) + sum(1 for r in stress if r.get("handled") or r.get("rejected")),
        "rule": "scripts: corpus (close with more than one batch queued, late submit through the slow-path hook, failing batches, backpressure) + seeded random op scripts over maxBatch 1..4; non-trivial = a batch is flushed after close was requested or a batch fails; distinct by event trace. stress rounds: non-trivial = some batch failed or some send was rejected",
        "samples": [traces[0]["events"][:12] if traces else None, scripts[-1] if scripts else None,
                    {k: (v if k not in ("flushes", "accepted", "handled") else str(v)[:200]) for k, v in (stress[0] if stress else {}).items()}],
        "script_ops": ops_hist, "submit_results": res_hist,
        "scripts": len(traces), "stress_rounds": len(stress),
        "stress_messages_accepted": sum(len(a) for r in stress for a in r["accepted"]),
        "stress_batches": sum(len(r["flushes"]) for r in stress),
        "model_variant_matched": matched, "oracle_violations": n_viol,
        "theorems": ["C27_conservation", "C27_fifo_per_caller", "C27_fifo_per_caller_all_flushed", "C27_delivered_in_acceptance_order", "C27_at_most_once", "C27_only_accepted", "C27_accepted_somewhere",
                     "C27_accounted", "C27_close_refuted_one_drain", "C27_close_refuted_late_submit"],
    })


META = {
    "ready": True,
    "category": "proof",
    "technique": "Rocq proof over a transition-system model of the coalescer + atomic-step trace replay of the real coalescer through the model + id-accounting oracle under real-goroutine stress",
    "text": "Conservation, per-caller FIFO and at-most-once are proved for every interleaving of any number of callers with the writer goroutine and close, and every transport fault sequence; `accounted` is proved for the shutdown code that drains until empty under the submit lock and refuted (two witnesses, replayed on the real code) for the code that ran one drainReady without a lock.",
    "design_ref": "DESIGN.md 7/C27",
    "level_note": "Trusted: Coq kernel, Go channel/select/RWMutex semantics as modelled, the in-process scripted transport. Not covered: the dead-letter fan-out queue behind the error handler (C18).",
}
