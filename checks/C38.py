"""C38 — CRDT merge is a join (commutative, associative, idempotent, inflationary, pure).

Proof : coq/theories/Properties/C38.v over the executable model C38/Model.v of /repo/crdt.
Tie   : op programs (bounded-exhaustive over 2-3 replicas + seeded random larger ones, snapshots = messages in
        flight, deltas, compaction) are run on the REAL crdt package through its public API (in-package only to read
        the delta bookkeeping); after every op the canonical dump (observable value, sorted raw state, delta state)
        is compared with the Coq model evaluated by vm_compute on the same program.
Oracle: independent of the model, on the implementation's own outputs: ab=ba, (ab)c=a(bc), aa=a, a(ab)=ab on the
        observable value, per-type inflation of the raw state, inputs unchanged by Merge/Clone/Delta and every other op.
"""
import os
import random
import time

from vlib import read_jsonl, canon_hash
import crdt_util as cu

TNAME = {1: "GCounter", 2: "PNCounter", 3: "Flag", 4: "LWWRegister", 5: "MVRegister", 6: "ORSet", 7: "ORMap"}

SIG_LWW = "LWWRegister.Merge:equal-timestamp-and-node-different-value"
SIG_ORMAP = "ORMap.Merge:associativity:value-of-removed-key-rejoins"


def corpus():
    """minimised interesting cases, always run first"""
    P = []
    # LWW: two writes of one node with the same timestamp and different values (C38_lww_refuted)
    P.append({"kind": "corpus-lww-equal-key", "ops": [
        {"o": "new", "d": 0, "t": "l"}, {"o": "lset", "d": 1, "s": 0, "n": 1, "e": 1, "ts": 5},
        {"o": "lset", "d": 2, "s": 0, "n": 1, "e": 2, "ts": 5}, {"o": "laws", "a": 1, "b": 2, "c": 0}]})
    # ORMap: key removed on b after observing a's add, concurrently re-added on c (C38_ormap_assoc_refuted)
    P.append({"kind": "corpus-ormap-assoc", "ops": [
        {"o": "new", "d": 0, "t": "m"}, {"o": "new", "d": 5, "t": "g"}, {"o": "inc", "d": 5, "s": 5, "n": 1, "v": 3},
        {"o": "mset", "d": 0, "s": 0, "n": 1, "e": 1, "a": 5}, {"o": "clone", "d": 1, "s": 0}, {"o": "mrem", "d": 1, "s": 1, "e": 1},
        {"o": "new", "d": 2, "t": "m"}, {"o": "new", "d": 6, "t": "g"}, {"o": "inc", "d": 6, "s": 6, "n": 4, "v": 5},
        {"o": "mset", "d": 2, "s": 2, "n": 4, "e": 1, "a": 6}, {"o": "laws", "a": 0, "b": 1, "c": 2}]})
    # uint64 wrap of a node's count and of Value()
    P.append({"kind": "corpus-gcounter-wrap", "ops": [
        {"o": "new", "d": 0, "t": "g"}, {"o": "inc", "d": 0, "s": 0, "n": 1, "v": 2 ** 63}, {"o": "inc", "d": 1, "s": 0, "n": 1, "v": 2 ** 63},
        {"o": "inc", "d": 2, "s": 1, "n": 4, "v": 2 ** 64 - 1}, {"o": "inc", "d": 3, "s": 2, "n": 7, "v": 0}, {"o": "laws", "a": 0, "b": 1, "c": 2},
        {"o": "laws", "a": 3, "b": 2, "c": 0}]})
    # PN: negative value, int64 boundary
    P.append({"kind": "corpus-pn", "ops": [
        {"o": "new", "d": 0, "t": "pn"}, {"o": "dec", "d": 0, "s": 0, "n": 1, "v": 2 ** 63}, {"o": "inc", "d": 1, "s": 0, "n": 4, "v": 2 ** 63 - 1},
        {"o": "dec", "d": 2, "s": 1, "n": 7, "v": 5}, {"o": "delta", "d": 3, "s": 2}, {"o": "laws", "a": 0, "b": 1, "c": 2}, {"o": "laws", "a": 3, "b": 2, "c": 1}]})
    # ORSet: concurrent add / observed remove / re-add, compaction, removal of an absent element, foreign-type merge
    P.append({"kind": "corpus-orset", "ops": [
        {"o": "new", "d": 0, "t": "s"}, {"o": "add", "d": 0, "s": 0, "n": 1, "e": 1}, {"o": "add", "d": 0, "s": 0, "n": 1, "e": 1},
        {"o": "clone", "d": 1, "s": 0}, {"o": "rem", "d": 1, "s": 1, "e": 1}, {"o": "add", "d": 1, "s": 1, "n": 4, "e": 2},
        {"o": "add", "d": 2, "s": 0, "n": 1, "e": 1}, {"o": "rem", "d": 3, "s": 2, "e": 5}, {"o": "compact", "d": 4, "s": 2},
        {"o": "laws", "a": 0, "b": 1, "c": 2}, {"o": "laws", "a": 4, "b": 1, "c": 3}, {"o": "new", "d": 5, "t": "g"}, {"o": "merge", "d": 6, "a": 2, "b": 5},
        {"o": "merge", "d": 7, "a": 5, "b": 2}]})
    # ORSet: common state, then each side removes a different element (same clock, same cardinality, different content)
    P.append({"kind": "corpus-orset-divergent-removes", "ops": [
        {"o": "new", "d": 0, "t": "s"}, {"o": "add", "d": 0, "s": 0, "n": 1, "e": 1}, {"o": "add", "d": 0, "s": 0, "n": 1, "e": 2},
        {"o": "clone", "d": 1, "s": 0}, {"o": "rem", "d": 0, "s": 0, "e": 1}, {"o": "rem", "d": 1, "s": 1, "e": 2}, {"o": "new", "d": 2, "t": "s"},
        {"o": "laws", "a": 0, "b": 1, "c": 2}, {"o": "laws", "a": 1, "b": 0, "c": 2}]})
    # MVRegister: concurrent sets, overwrite after merge
    P.append({"kind": "corpus-mv", "ops": [
        {"o": "new", "d": 0, "t": "mv"}, {"o": "mvset", "d": 1, "s": 0, "n": 1, "e": 1}, {"o": "mvset", "d": 2, "s": 0, "n": 4, "e": 1},
        {"o": "merge", "d": 3, "a": 1, "b": 2}, {"o": "mvset", "d": 4, "s": 3, "n": 7, "e": 0}, {"o": "laws", "a": 1, "b": 2, "c": 4}, {"o": "laws", "a": 3, "b": 4, "c": 2}]})
    # Flag
    P.append({"kind": "corpus-flag", "ops": [
        {"o": "new", "d": 0, "t": "f"}, {"o": "enable", "d": 1, "s": 0}, {"o": "enable", "d": 2, "s": 1}, {"o": "delta", "d": 3, "s": 2}, {"o": "reset", "s": 2},
        {"o": "delta", "d": 4, "s": 2}, {"o": "laws", "a": 0, "b": 1, "c": 2}]})
    return P


def extra_corpus(pid):
    """additional minimised cases dropped into /verif/corpus/<pid>/extra*.json (lists of programs)"""
    import glob, json
    out = []
    for f in sorted(glob.glob(os.path.join(os.path.dirname(os.path.dirname(os.path.abspath(__file__))), "corpus", pid, "extra*.json"))):
        for p in json.load(open(f)):
            p.setdefault("kind", "corpus-extra")
            out.append(p)
    return out


def gen_programs(ctx):
    rng = ctx.rng
    progs = []
    for p in corpus() + extra_corpus("C38"):
        progs.append(p)
    # bounded-exhaustive: every op sequence of length L over R replicas (local ops + pairwise syncs)
    plan = [("g", 3, 2), ("pn", 2, 2), ("f", 4, 3), ("l", 3, 3), ("mv", 3, 2), ("s", 3, 2), ("m", 4, 3)]
    if ctx.thorough:
        plan = [("g", 4, 2), ("g", 3, 3), ("pn", 3, 2), ("f", 5, 3), ("l", 4, 3), ("mv", 4, 2), ("mv", 3, 3), ("s", 4, 2), ("s", 3, 3), ("m", 5, 3)]
    cap = 60000 if ctx.thorough else 2500
    for (t, L, R) in plan:
        allp = list(cu.exhaustive_progs(t, L, R))
        if len(allp) > cap:  # (sampling keeps the run time bounded; the count actually run is reported)
            allp = rng.sample(allp, cap)
        for ops in allp:
            progs.append({"kind": "exh-%s-L%d-R%d" % (t, L, R), "t": t, "ops": ops})
    # seeded random larger programs
    nrand = 1200 if ctx.thorough else 160
    types = ["g", "pn", "f", "l", "mv", "s", "m", "mm", "s", "m", "mv"]
    for i in range(nrand):
        t = types[i % len(types)]
        p = cu.gen_random_prog(0, t, rng, rng.choice([12, 25, 40]), lww_unique=(rng.random() < 0.85))
        progs.append(p)
    # replicas that share a common state and then only remove (equal clocks, equal cardinalities, different contents)
    for i in range(600 if ctx.thorough else 90):
        progs.append(cu.gen_common_then_diverge(0, "s" if i % 3 else "m", rng, R=rng.choice([2, 3, 3])))
    for i, p in enumerate(progs):
        p["id"] = i
    return progs


# ---- oracle helpers over canonical dumps [tag, value, core]
def inflation_ok(tag, a, ab):
    """type-specific 'merge never shrinks what a already holds' on raw states a -> a⊔b"""
    def nmap_le(x, y):
        dy = dict((k, v) for k, v in y)
        return all(k in dy and v <= dy[k] for k, v in x)
    ca, cab = a[2], ab[2]
    if tag == 1:
        return nmap_le(ca, cab)
    if tag == 2:
        return nmap_le(ca[0], cab[0]) and nmap_le(ca[1], cab[1])
    if tag == 3:
        return cab >= ca
    if tag == 4:
        return (cab[1], cab[2]) >= (ca[1], ca[2])
    if tag in (5, 6):
        return nmap_le(ca[1], cab[1])
    if tag == 7:
        return nmap_le(ca[0][1], cab[0][1])
    return True


def lww_key(x):
    return (x[2][1], x[2][2])


def classify_ormap_assoc(a, b, c, l, r):
    """narrow class of the known ORMap anomaly: same key set and clock on both groupings; every key whose value
    differs is held (with a value) by an operand none of whose dots for that key survive in the result."""
    if l[2][0] != r[2][0]:
        return False
    final_dots = set(tuple(x) for x in l[2][0][0])
    lv, rv = dict((k, v) for k, v in l[2][1]), dict((k, v) for k, v in r[2][1])
    diff = [k for k in set(lv) | set(rv) if lv.get(k) != rv.get(k)]
    if not diff:
        return False
    for k in diff:
        ok = False
        for x in (a, b, c):
            has_val = any(kk == k for kk, _ in x[2][1])
            own = [tuple(d) for d in x[2][0][0] if d[0] == k]
            if has_val and not any(d in final_dots for d in own):
                ok = True
        if not ok:
            return False
    return True


def run(ctx):
    ctx.trusted += ["go/inpkg/crdt slot machine + canonical dump (harness)", "lib/crdt_util.py program generator and Coq-term printer",
                    "Go runtime map/slice semantics as modelled by std++ gmap/gset"]
    ctx.assumptions += ["each replica uses its own node id (unique dots)",
                        "fewer than 2^64 Add/Set operations per node (dot counters do not wrap)",
                        "LWWRegister: C38_lww_* hold for registers whose equal (timestamp,node) carry equal values; the excluded class is a reported finding",
                        "ORMap values of one key have the same CRDT type on all replicas"]
    progs = gen_programs(ctx)
    cu.write_progs(os.path.join(ctx.work, "c38_prog.jsonl"), progs)
    outp = os.path.join(ctx.work, "c38_out.jsonl")
    if os.path.exists(outp):
        os.remove(outp)
    rc, out = ctx.go_test("crdt", "^TestVerifC38", ["zz_verif_C38_test.go", "zz_verif_crdtvm_test.go"])
    outs = read_jsonl(outp)
    if rc != 0 or len(outs) != len(progs):
        ctx.tie_broken("go-harness crdt slot machine", out)
    by_id = {o["id"]: o for o in outs}
    ctx.log("go harness: %d programs, %d ops" % (len(outs), sum(len(p["ops"]) for p in progs)))

    # ------------------------------------------------------------ property oracle on the implementation
    n_laws = 0
    distinct = set()
    hist = {}
    nviol = {}

    def viol(sig, what, rep):
        nviol[sig] = nviol.get(sig, 0) + 1
        if nviol[sig] <= 2:
            ctx.violation(sig, what, rep)

    for p in progs:
        o = by_id.get(p["id"])
        if o is None:
            continue
        for op in p["ops"]:
            hist[op["o"]] = hist.get(op["o"], 0) + 1
        if o.get("panic"):
            viol("crdt:panic", "crdt operation panicked: %s" % o["panic"], {"program": p})
            continue
        if o["impure"]:
            i = o["impure"][0]
            viol("crdt:%s:modifies-input" % p["ops"][i]["o"], "operation %s modified one of its inputs" % p["ops"][i]["o"],
                 {"program": {"ops": p["ops"][:i + 1]}, "op_index": i})
        for i, op in enumerate(p["ops"]):
            if op["o"] != "laws":
                continue
            res = o["res"][i]
            if not res:
                continue
            ab, ba, abc1, abc2, aa, a, aab = res
            tag = a[0]
            n_laws += 1
            name = TNAME.get(tag, "?")
            rep = {"type": name, "program": {"ops": p["ops"][:i + 1]}, "laws_op": op}
            key = canon_hash([ab[2], ba[2], abc1[2], a[2]])
            if ab[2] != a[2]:
                distinct.add(key)
            # operands of this laws op (dumped when they were written); needed for classification
            if ab[1] != ba[1]:
                sig = "%s.Merge:commutativity" % name
                if tag == 4:
                    # a, b raw: recover b from the op outputs: ba is b-biased; classify by equal keys
                    if lww_key(ab) == lww_key(ba) and ab[2][0] != ba[2][0]:
                        sig = SIG_LWW
                viol(sig, "%s: a.Merge(b) and b.Merge(a) expose different values %s vs %s" % (name, ab[1], ba[1]), rep)
            if abc1[1] != abc2[1]:
                sig = "%s.Merge:associativity" % name
                if tag == 4 and lww_key(abc1) == lww_key(abc2):
                    sig = SIG_LWW
                if tag == 7:
                    ops_ = slot_dumps(p, o, i, [op["a"], op["b"], op["c"]])
                    if ops_ and classify_ormap_assoc(ops_[0], ops_[1], ops_[2], abc1, abc2):
                        sig = SIG_ORMAP
                viol(sig, "%s: (a.Merge(b)).Merge(c) and a.Merge(b.Merge(c)) expose different values %s vs %s" % (name, abc1[1], abc2[1]), rep)
            if aa[1] != a[1]:
                viol("%s.Merge:idempotence" % name, "%s: a.Merge(a) exposes %s, a exposes %s" % (name, aa[1], a[1]), rep)
            if aab[1] != ab[1] and not (tag == 4 and lww_key(aab) == lww_key(ab)):
                viol("%s.Merge:inflation" % name, "%s: a.Merge(a.Merge(b)) differs from a.Merge(b): merging lost information" % name, rep)
            elif aab[1] != ab[1]:
                viol(SIG_LWW, "LWWRegister: a.Merge(a.Merge(b)) != a.Merge(b) with equal (timestamp,node)", rep)
            if not inflation_ok(tag, a, ab):
                viol("%s.Merge:inflation" % name, "%s: raw state of a is not contained in a.Merge(b): %s -> %s" % (name, a[2], ab[2]), rep)

    # ------------------------------------------------------------ model vs implementation (Coq model, vm_compute)
    t0 = time.time()
    sample = [p for p in progs if p["kind"].startswith("corpus")]
    rest = [p for p in progs if not p["kind"].startswith("corpus") and not by_id.get(p["id"], {}).get("panic")]
    rnd = [p for p in rest if p["kind"] == "random"]
    exh = [p for p in rest if p["kind"] != "random"]
    budget_ops = 60000 if ctx.thorough else 4000
    r2 = random.Random(ctx.seed * 7919 + 1)
    r2.shuffle(rnd)
    r2.shuffle(exh)
    tot = sum(len(p["ops"]) for p in sample)
    for p in [x for pair in zip(rnd, exh) for x in pair] + rnd[len(exh):] + exh[len(rnd):]:
        if tot + len(p["ops"]) > budget_ops:
            continue
        sample.append(p)
        tot += len(p["ops"])
    nchunks = 8 if ctx.thorough else 3
    chunks = [sample[i::nchunks] for i in range(nchunks)]
    mism, compared = [], 0
    import concurrent.futures as cf

    def ev(k):
        body, n = cu.coq_cases(chunks[k], outs)
        rc2, o2 = ctx.coq_eval("cases_C38_%d" % k, body, timeout=1500)
        return k, n, rc2, o2

    ok_model, _ = ctx.coq_build(["theories/C38/Exec.vo"])
    if not ok_model:
        ctx.tie_broken("C38/Exec.v (model) does not compile", _)
    else:
        with cf.ThreadPoolExecutor(max_workers=nchunks) as ex:
            for k, n, rc2, o2 in ex.map(ev, range(nchunks)):
                s = cu.parse_summary(o2)
                if rc2 != 0 or s is None:
                    ctx.tie_broken("model evaluation (cases_C38_%d.v did not evaluate)" % k, o2)
                    continue
                compared += s[0]
                mism += s[2]
    if mism:
        pid, opi = mism[0]
        p = [x for x in progs if x["id"] == pid][0]
        ctx.tie_broken("model-vs-implementation crdt dump", {"mismatching_programs": len(mism), "first": {"ops": p["ops"][:opi + 1], "op_index": opi,
                       "implementation": by_id[pid]["res"][opi]}})
    ctx.log("model tie: %d programs (%d ops) compared in %.1fs, %d mismatches" % (compared, tot, time.time() - t0, len(mism)))

    # ------------------------------------------------------------ theorems
    if not ctx.coq_property():
        if not any(f.kind == "violation" and f.signature not in (SIG_LWW, SIG_ORMAP) for f in ctx.findings):
            ctx.proof_broken("Properties/C38.v (%s)" % getattr(ctx, "failed_at", "?"), getattr(ctx, "coq_log", ""))
        else:
            ctx.notes.append("Coq obligation broken at %s; concrete failing input reported" % getattr(ctx, "failed_at", "?"))

    kinds = {}
    for p in progs:
        kinds[p["kind"]] = kinds.get(p["kind"], 0) + 1
    ctx.coverage.update({
        "evaluations": sum(len(p["ops"]) for p in progs) + 6 * n_laws,
        "distinct_nontrivial": len(distinct),
        "rule": "a `laws` triple (a,b,c) of states reached by op programs over 2-3 replicas; non-trivial = a.Merge(b) has a raw state different from a; distinct by hash of the raw states of ab, ba, (ab)c, a",
        "programs": len(progs), "program_kinds": kinds, "op_histogram": hist, "law_triples_checked": n_laws,
        "model_compared_programs": compared, "model_compared_ops": tot, "model_mismatches": len(mism),
        "oracle_violation_counts": nviol,
        "samples": [{"ops": p["ops"][:12]} for p in progs[:2]] + [{"ops": p["ops"][:14]} for p in progs[-2:]],
        "theorems": THEOREMS,
    })


def slot_dumps(p, o, upto, slots):
    """[tag,value,core] of the given slots as last written before op index `upto` (None if unknown)"""
    last = {}
    for i, op in enumerate(p["ops"][:upto]):
        k = op["o"]
        if k == "laws":
            continue
        d = op.get("s", 0) if k == "reset" else op.get("d", 0)
        last[d] = o["res"][i]
    res = []
    for s in slots:
        x = last.get(s)
        if not x:
            return None
        res.append(x[:3])
    return res


THEOREMS = ["C38_gcounter_join", "C38_gcounter_inflation", "C38_pncounter_join", "C38_flag_join",
            "C38_lww_join_partial", "C38_lww_join_reachable", "C38_lww_refuted", "C38_mvregister_join", "C38_orset_join", "C38_orset_inflation",
            "C38_ormap_join_partial", "C38_ormap_assoc_refuted"]

META = {
    "ready": True,
    "category": "proof",
    "technique": "Rocq proof over an executable std++ model of the crdt package + differential slot-machine tie + join-law oracle",
    "text": "Join laws (commutative, associative, idempotent, absorbing/inflationary) proved for all states (GCounter, PNCounter, Flag), all reachable states (ORSet, MVRegister) and all coherent states (LWWRegister); ORMap and LWW carry refutation witnesses replayed on the real code and guarded partial theorems.",
    "design_ref": "DESIGN.md 7/C38",
    "level_note": "Trusted: Coq kernel, the hand-written model (tied by differential execution after every op), Go compiler.",
}
