"""C29 — per-message context metadata is restored on the receiver.

Proof:  Properties/C29.v over C29/Model.v: for all header maps and all iteration orders of the receiver's map
        the header set handed to Extract is canon(first values of the injected headers) (exactly the injected
        set when keys are single-valued and canonical); for all batchings every message's context depends on
        that message alone.
Tie:    in-package (actor): the REAL sender (remoteclient RemoteTell coalesced / direct, RemoteAsk) with an
        injecting propagator writing generated header maps (non-canonical keys, invalid key bytes, multiple
        values, empty value lists, empty maps, case-colliding keys); the RemoteMessages it produces are captured
        and handed to the REAL remoteTellHandler in EVERY composition of the 6 messages of a group, with and
        without request-level metadata; a recording propagator + actor report, per message, the chain of header
        sets Extract was called with. Also real coalescer batching under concurrent callers, direct tell, ask,
        first-hop asks whose context already carries (stale) wire metadata, and two-hop relays: client -> relay
        actor on node 1, which derives its outbound context from the context of the message it is handling and
        injects something else -> leaf actor on node 2 (relay by ask through the system's own client and by a
        non-coalesced tell; first hop by ask and by tell).
        The Coq model (canon, first_values, restore, deliver) is evaluated on the same cases.
Oracle: per message: the last Extract saw exactly canon(first_values(injected)) (a Python re-statement of the
        property, independent of the Coq evaluation), nothing of another message's headers appears in the
        chain, a message without headers gets no per-message Extract.
"""
import json
import os
import re

from vlib import canon_hash, coq_string


def read_jsonl(path):
    """one JSON value per line; a harness that died mid-write leaves a truncated last line: skip it"""
    out = []
    if not os.path.exists(path):
        return out
    for line in open(path, errors="replace"):
        line = line.strip()
        if not line:
            continue
        try:
            out.append(json.loads(line))
        except ValueError:
            continue
    return out

TOKEN = set("!#$%&'*+-.^_`|~0123456789abcdefghijklmnopqrstuvwxyzABCDEFGHIJKLMNOPQRSTUVWXYZ")


def canon(k):
    if any(c not in TOKEN for c in k):
        return k
    out, upper = [], True
    for c in k:
        if upper and "a" <= c <= "z":
            c = c.upper()
        elif not upper and "A" <= c <= "Z":
            c = c.lower()
        out.append(c)
        upper = c == "-"
    return "".join(out)


KEYS = ["traceparent", "Traceparent", "tracestate", "X-Tenant", "x-tenant", "X-B3-TraceId", "x-b3-traceid", "baggage", "Baggage",
        "x trace", "X(odd)", "authorization", "a", "A", "x-a", "X-A", "x_a", "X-a", "content-type", "Uber-Trace-Id", "k@v"]
VALS = ["00-4bf92f3577b34da6a3ce929d0e0e4736-00f067aa0ba902b7-01", "t1", "t2", "", "a=1,b=2", "Bearer abc.def", "1", "2", "x y", "v"]


def gen_spec(rng, kind):
    if kind == "empty":
        return {"mode": "raw", "entries": []}
    mode = {"canonical": "set", "multi": rng.choice(["add", "raw"]), "raw": "raw", "collide": "raw", "novalues": "raw"}[kind]
    entries = []
    if kind == "collide":
        base = rng.choice(["x-a", "traceparent", "x-tenant", "baggage"])
        variants = {base, base.upper(), canon(base)}
        for k in sorted(variants)[:rng.randint(2, 3)]:
            entries.append({"k": k, "v": [rng.choice(VALS) + k[:1]]})
        return {"mode": "raw", "entries": entries}
    keys = rng.sample(KEYS, rng.randint(1, 4))
    seen = set()
    for k in keys:
        ck = canon(k) if mode != "raw" else k
        # keep canonical forms distinct except in the 'collide' kind
        if canon(k) in seen:
            continue
        seen.add(canon(k))
        if kind == "multi":
            vs = rng.sample(VALS, rng.randint(1, 3))
        elif kind == "novalues" and rng.random() < 0.5:
            vs = []
        else:
            vs = [rng.choice(VALS)]
        entries.append({"k": k, "v": vs})
    return {"mode": mode, "entries": entries}


def gen_group(rng, idx):
    kinds = ["canonical", "multi", "raw", "collide", "novalues", "empty"]
    specs = [gen_spec(rng, rng.choice(kinds)) for _ in range(6)]
    # every group mixes at least one message without headers and one with
    specs[rng.randrange(6)] = gen_spec(rng, "empty")
    j = rng.randrange(6)
    if not specs[j]["entries"]:
        j = (j + 1) % 6
    specs[j] = gen_spec(rng, "canonical")
    return {"name": "g%d" % idx, "specs": specs}


def load_corpus_dir(pid):
    """minimised / interesting cases kept as files in corpus/<pid>/*.json, run first"""
    d = os.path.join(os.path.dirname(os.path.dirname(os.path.abspath(__file__))), "corpus", pid)
    out = []
    if os.path.isdir(d):
        for fn in sorted(os.listdir(d)):
            if fn.endswith(".json"):
                out.append(json.load(open(os.path.join(d, fn))))
    return out


def corpus_groups():
    def raw(*e):
        return {"mode": "raw", "entries": [{"k": k, "v": v} for k, v in e]}
    return [{"name": "c0", "specs": [
        {"mode": "set", "entries": [{"k": "traceparent", "v": ["00-aa-01"]}, {"k": "x-tenant", "v": ["t1"]}]},
        raw(),
        {"mode": "set", "entries": [{"k": "traceparent", "v": ["00-bb-02"]}]},
        raw(("x-trace-id", ["7"]), ("x trace", ["8"])),
        {"mode": "add", "entries": [{"k": "baggage", "v": ["a=1", "b=2"]}]},
        raw(("x-a", ["1"]), ("X-A", ["2"])),
    ]}, {"name": "c1", "specs": [
        raw(("Empty", [])), raw(), raw(("Empty", []), ("X-K", [""])),
        {"mode": "set", "entries": [{"k": "Authorization", "v": ["Bearer abc.def"]}]},
        raw(), raw(("k@v", ["odd key"]), ("X(odd)", ["p"])),
    ]}]


def expected(injected):
    """injected: [{k, v}] (http.Header after Inject). returns (first_values dict, set of acceptable restored dicts)"""
    fv = [(e["k"], e["v"][0]) for e in injected if e.get("v")]
    if not fv:
        return fv, None
    by_canon = {}
    for e in injected:
        if e.get("v"):
            # property level: some injected value of some key with this canonical form (which one is the model's business)
            by_canon.setdefault(canon(e["k"]), []).extend(e["v"])
    return fv, by_canon


def oracle(o):
    """per record; returns list of (signature, what)"""
    bad = []
    if o.get("err"):
        return [("tie", "%s %s: %s" % (o["part"], o["id"], o["err"]))]
    injected = o.get("injected") or []
    fv, by_canon = expected(injected)
    chain = o.get("chain") or []
    req_level = []
    if o["part"] == "batchings" and o.get("req_md"):
        req_level = [[{"k": "X-Req-Level", "v": ["r"]}]]
    where = "%s %s (message %d of its group%s)" % (o["part"], o["id"], o["spec"], ", batching #%d" % o["comp"] if o["part"] == "batchings" else "")
    if o["part"] in ("batchings", "coalesced"):
        # request level first (only when the frame carried metadata), then at most one per-message Extract
        want_len = len(req_level) + (1 if by_canon else 0)
        if len(chain) != want_len:
            bad.append(("metadata:extract-count", "%s: injected %s; Extract was called %d time(s) with %s, expected %d" % (where, injected, len(chain), chain, want_len)))
            return bad
        if req_level and chain[0] != req_level[0]:
            bad.append(("metadata:request-level", "%s: request-level Extract saw %s" % (where, chain[0])))
        got = chain[-1] if by_canon else None
    else:
        # direct tell / ask: frame-level metadata; one Extract whenever the frame carries metadata
        got = chain[-1] if chain else None
        if len(chain) > 1:
            bad.append(("metadata:extract-count", "%s: Extract called %d times on the direct path: %s" % (where, len(chain), chain)))
        if by_canon is None:
            if got:
                bad.append(("metadata:foreign-headers", "%s: nothing injected but Extract saw %s" % (where, got)))
            return bad
    if by_canon is None:
        return bad
    if got is None:
        bad.append(("metadata:not-restored", "%s: injected %s but no Extract" % (where, injected)))
        return bad
    gd = {}
    for e in got:
        if len(e["v"]) != 1:
            bad.append(("metadata:restored-shape", "%s: restored key %s has values %s" % (where, e["k"], e["v"])))
        gd[e["k"]] = e["v"][0] if e["v"] else None
    if set(gd) != set(by_canon) or any(gd[k] not in by_canon[k] for k in gd):
        bad.append(("metadata:restored-differs", "%s: injected %s; Extract saw %s; expected canon(first values) = %s" % (where, injected, got, by_canon)))
    return bad


def coq_md(pairs):
    return "[" + "; ".join("(%s, %s)" % (coq_string(k), coq_string(v)) for k, v in pairs) + "]"


def coq_hdr(injected):
    return "[" + "; ".join("(%s, [%s])" % (coq_string(e["k"]), "; ".join(coq_string(v) for v in (e.get("v") or []))) for e in injected) + "]"


COQ_EVAL = """From Coq Require Import List String Arith Bool. Import ListNotations.
From GV Require Import C29.Model.
Open Scope string_scope.
(* a case: injected header, RemoteMessage.Metadata seen on the wire (None: not captured), restored header set (None: no Extract) *)
(* + the wire metadata the sender's context already carried (pre-attached / inbound frame of a relaying actor) *)
Definition case_t := (hdr * option md * option md * option md)%%type.
Fixpoint nodupb (l : list string) : bool :=
  match l with [] => true | x :: r => negb (existsb (String.eqb x) r) && nodupb r end.
Definition sourced (m g : md) : bool :=
  forallb (fun p => existsb (fun q => String.eqb (canon (fst q)) (fst p) && String.eqb (snd q) (snd p)) m) g &&
  forallb (fun q => match lookup (canon (fst q)) g with Some _ => true | None => false end) m &&
  nodupb (map fst g).
Definition check (c : case_t) : nat :=
  match c with (h, wire, got, attached) =>
    let m := enrich attached h in
    if match wire with Some w => negb (md_eqb w m) | None => false end then 1
    else match m, got with
         | [], None => 0
         | [], Some _ => 2
         | _ :: _, None => 3
         | _ :: _, Some g =>
             if nodupb (map (fun p => canon (fst p)) m) then (if md_eqb (restore m) g then 0 else 4)   (* C29_restored_is_canon_first_values: order irrelevant *)
             else if Nat.leb (List.length m) 5 then (if existsb (fun o => md_eqb (restore o) g) (perms m) then 0 else 4)
             else (if sourced m g then 0 else 4)                                                      (* C29_sound + C29_complete *)
         end
  end.
%s
Definition cases : list case_t := [%s].
Definition codes := map check cases.
Definition summary := (List.length cases, List.length (filter (fun n => negb (Nat.eqb n 0)) codes),
                       firstn 5 (filter (fun p => negb (Nat.eqb (snd p) 0)) (combine (seq 0 (List.length cases)) codes))).
Eval vm_compute in summary.
"""


def run(ctx):
    ctx.trusted += ["recording propagator + recording actor of the harness (what Extract was called with)",
                    "Python re-statement of textproto.CanonicalMIMEHeaderKey for the oracle (the Coq model has its own, both compared with net/http through the real receiver)"]
    ctx.assumptions += ["header keys/values are printable ASCII (proto3 string fields require UTF-8; other bytes fail the whole batch's marshalling and go to the error handler — C27)",
                        "multi-valued keys and case-colliding keys are outside C29_full's hypothesis: the wire format keeps one value per key (witnesses in C29/Proofs.v)"]
    rng = ctx.rng
    groups = load_corpus_dir('C29') + corpus_groups() + [gen_group(rng, i) for i in range(24 if ctx.thorough else 6)]
    if ctx.replay_path and os.path.exists(ctx.replay_path):  # bin/check C29 --replay replays/C29-...json
        rp = json.load(open(ctx.replay_path)).get("replay", {})
        if isinstance(rp.get("group"), dict):
            groups.insert(0, dict(rp["group"], name="rp"))
    outp = os.path.join(ctx.work, "c29_out.jsonl")
    if os.path.exists(outp):
        os.remove(outp)
    with open(os.path.join(ctx.work, "c29_groups.jsonl"), "w") as f:
        for g in groups:
            f.write(json.dumps(g) + "\n")
    rc, out = ctx.go_test("actor", "^TestVerifC29", ["zz_verif_C29_test.go"], env={"CGO_ENABLED": "0"}, timeout=1200)
    recs = read_jsonl(outp)
    want = sum(32 * 6 + 3 * 6 + 6 + 6 + 6 + 24 for _ in groups)
    if rc != 0 or len(recs) < want:
        ctx.tie_broken("go-harness actor remoteTellHandler/messageMetadata", "rc=%s records=%d expected>=%d\n%s" % (rc, len(recs), want, out))

    reported = {}
    n_viol = 0
    n_tie = 0
    gmap = {g["name"]: g for g in groups}
    for o in recs:
        for sig, what in oracle(o):
            if sig == "tie":
                n_tie += 1
                if n_tie <= 2:
                    ctx.tie_broken("harness: message not observed", what)
                continue
            n_viol += 1
            if o["part"].startswith("relay"):
                sig += ":relayed-send"   # second hop of client -> relay actor -> leaf
            if sig not in reported and len(reported) < 5:
                reported[sig] = 1
                ctx.violation(sig, what, {"group": gmap.get(o["group"]), "record": o,
                                          "batching": "bit i of %d set = batch boundary after message i" % o.get("comp", 0) if o["part"] == "batchings" else o["part"]})

    # ---- Coq model on the same cases (distinct (injected, wire, restored) triples)
    seen = {}
    for o in recs:
        if o.get("err"):
            continue
        chain = o.get("chain") or []
        per_msg = None
        if o["part"] in ("batchings", "coalesced"):
            n_req = 1 if (o["part"] == "batchings" and o.get("req_md")) else 0
            per_msg = chain[n_req] if len(chain) > n_req else None
        else:
            per_msg = chain[-1] if chain else None
            if per_msg is not None and not per_msg:
                per_msg = None  # direct path: an Extract with an empty header set (deadline-only metadata) restores nothing
        wire = o.get("wire") if o["part"] == "batchings" else None
        attached = None
        if o["part"] == "ask-preattached":
            attached = [("X-Stale-Upstream", "s"), ("Traceparent", "00-stale-00")]
        elif o["part"].startswith("relay"):
            attached = [("X-Inbound-Hop", "1")]  # stands for the first hop's frame metadata
        key = canon_hash([o.get("injected") or [], wire, per_msg, attached])
        if key not in seen:
            seen[key] = (o.get("injected") or [], wire, per_msg, o["id"], attached)
    triples = list(seen.values())
    mism = None
    if triples:
        defs, names = [], []
        for i, (inj, wire, got, _, attached) in enumerate(triples):
            w = "None" if wire is None else "Some %s" % coq_md([(e["k"], e["v"][0]) for e in wire])
            g = "None" if got is None else "Some %s" % coq_md([(e["k"], (e["v"] or [""])[0]) for e in got])
            a = "None" if attached is None else "Some %s" % coq_md(attached)
            defs.append("Definition c%d : case_t := (%s, %s, %s, %s)." % (i, coq_hdr(inj), w, g, a))
            names.append("c%d" % i)
        rc2, o2 = ctx.coq_eval("cases_C29", COQ_EVAL % ("\n".join(defs), "; ".join(names)), timeout=300)
        flat = " ".join(o2.split()).replace("%nat", "")
        m_ = re.search(r"= \((\d+), (\d+), \[(.*?)\]\)", flat)
        if rc2 != 0 or not m_:
            ctx.tie_broken("model evaluation (cases.v did not evaluate)", o2)
        else:
            mism = int(m_.group(2))
            if mism and n_viol == 0:
                firsts = [tuple(int(y) for y in re.findall(r"\d+", x)) for x in m_.group(3).split(";") if x.strip()]
                ctx.tie_broken("Coq model vs implementation (1 wire metadata != first_values | 2 Extract although nothing injected | 3 no Extract | 4 restored set is no restore(order))",
                               {"mismatches": mism, "first": [{"code": c, "case": triples[i][3], "injected": triples[i][0], "wire": triples[i][1], "restored": triples[i][2]} for i, c in firsts]})

    if not ctx.coq_property():
        if not any(f.kind == "violation" for f in ctx.findings):
            ctx.proof_broken("Properties/C29.v (%s)" % getattr(ctx, "failed_at", "?"), getattr(ctx, "coq_log", ""))
        else:
            ctx.notes.append("Coq obligation broken at %s; concrete failing input reported" % getattr(ctx, "failed_at", "?"))

    parts = {}
    for o in recs:
        parts[o["part"]] = parts.get(o["part"], 0) + 1
    kinds = {"noncanonical_key": 0, "multi_value": 0, "empty_value_list": 0, "no_headers": 0, "colliding_keys": 0, "invalid_key_byte": 0}
    for inj, _, _, _, _ in triples:
        ks = [e["k"] for e in inj]
        kinds["no_headers"] += not inj
        kinds["noncanonical_key"] += any(canon(k) != k for k in ks)
        kinds["multi_value"] += any(len(e.get("v") or []) > 1 for e in inj)
        kinds["empty_value_list"] += any(not e.get("v") for e in inj)
        kinds["colliding_keys"] += len({canon(k) for k in ks}) < len(ks)
        kinds["invalid_key_byte"] += any(any(c not in TOKEN for c in k) for k in ks)
    ctx.coverage.update({
        "evaluations": len(recs),
        "distinct_nontrivial": sum(1 for inj, _, got, _, _ in triples if inj),
        "rule": "(plus per group 6 first-hop asks with pre-attached stale metadata and 24 two-hop relays whose second hop injects the next message's headers) groups of 6 messages (corpus + seeded: canonical single-valued, multi-valued via Add/raw, raw non-canonical keys, case-colliding keys, empty value lists, no headers; every group mixes messages with and without headers); every group is delivered in all 32 batchings x (with/without request-level metadata), through the real coalescer with 3 concurrent callers, as direct tells and as asks; evaluations = messages observed; distinct_nontrivial = distinct (injected, wire, restored) triples with a non-empty injected header map",
        "samples": [groups[0]["specs"][:3], recs[3] if len(recs) > 3 else None, recs[-1] if recs else None],
        "records_by_part": parts, "header_kinds_in_distinct_cases": kinds,
        "coq_cases": len(triples), "coq_mismatches": mism, "oracle_violations": n_viol,
        "theorems": ["C29_restored_is_canon_first_values", "C29_full", "C29_sound", "C29_complete", "C29_batching_invisible",
                     "C29_same_messages_same_contexts", "C29_message_context",
                     "C29_attached_metadata_ignored", "C29_relayed_send_restores_own_headers"],
    })


META = {
    "ready": True,
    "category": "proof",
    "technique": "Rocq proof over an executable model of the sender projection / receiver rebuild / per-message delivery loop + evaluation of that model on the headers observed through the real sender and receiver for every batching",
    "text": "For all header maps, all map iteration orders and all batchings the header set handed to Extract for a message is canon(first values of what was injected for that message), equal to the injected set for single-valued canonical keys, and independent of the other messages sharing its batch.",
    "design_ref": "DESIGN.md 7/C29",
    "level_note": "Trusted: Coq kernel, net/http Header.Set (its canonicalisation is modelled and compared), the recording propagator. Multi-valued and case-colliding keys lose information by design of the wire format (witnesses proved, not reported as violations).",
}
