"""C23 — wire frames round-trip; malformed frames are rejected safely.

Proof:  Properties/C23.v over the byte-level model C23/Model.v (frames, metadata, readProtoFrame,
        both format detectors), protobuf and the type registry as parameters.
Tie:    the REAL codecs (in-package, internal/net) run on generated messages of the whole internal
        schema, generated metadata, a malformed stream (truncations, length-field mutations, flips,
        random bytes) and concatenated streams through chunked readers and the real handleConn;
        the Coq model is evaluated on the same bytes (cases.v, vm_compute) and every result
        (class, type name, message identity, headers, deadline against the clock bracket, frame
        boundaries, end-of-stream error, messages delivered by the server loop) is compared.
Oracle: independent of the model, in the harness: decode(encode x) == x, strict prefixes rejected,
        no panic anywhere, concatenated frames split exactly, bounded allocation.
"""
import json
import os
import re

from vlib import read_jsonl, canon_hash
from bytes_util import pack


def hx(s):
    return bytes.fromhex(s or "")


def zl(n):
    return "(%d)%%Z" % n


def expect_term(r):
    if r.get("HasMD"):
        hs = ";".join("(%s,%s)" % (pack(hx(k)), pack(hx(v))) for k, v in (r.get("Hdrs") or []))
        md = "(Some ([%s], %s, %s, %s))" % (hs, zl(r["Deadline"]), zl(r["Lo"]), zl(r["Hi"]))
    else:
        md = "None"
    return "(Build_expect %d%%N %d%%N %s %d%%N %s)" % (r["Dec"], r["Class"], pack(hx(r.get("Name"))), r.get("ID", 0), md)


def probes_term(ps):
    return "[" + ";".join("(%d%%N,%d%%N,%d%%N,%d%%N,%s)" % (p["NLo"], p["NHi"], p["PLo"], p["PHi"],
                                                           ("Some %d%%N" % p["ID"]) if p["Ok"] else "None") for p in (ps or [])) + "]"


HEADER = """From Coq Require Import NArith ZArith List Bool Uint63.
From GV Require Import Lib.Bytes Lib.BytesPack C23.Model C23.Eval.
Import ListNotations.
Open Scope uint63_scope.
"""


def run(ctx):
    ctx.trusted += [
        "protobuf-go (proto.Marshal/Unmarshal, protoregistry) — a parameter of the model; its verdict on the slice the model selects is taken from the real library (probe table)",
        "time.Now() readings bracketed by the harness (deadline compared against the bracket)",
        "io.ReadFull / bufio.Reader (stdlib) deliver the stream bytes in order whatever the segmentation — exercised with 1-byte and irregular chunking",
    ]
    ctx.assumptions += [
        "Go int is 64 bit (12+nameLen+metaLen cannot wrap)",
        "round trip: total frame length < 2^32, fewer than 2^16 headers, keys/values shorter than 2^16 bytes — the encoders check none of these limits (silent truncation beyond them: theorems C23_limit_*)",
        "format detection: the u32 at offset 8 of a legacy frame overshoots the frame (legacy_guard); holds for every registered type name (>= 4 bytes, non-zero first byte) in frames <= 16 MiB",
    ]
    for fn in ("c23_cases.jsonl", "c23_streams.jsonl", "c23_known.json", "c23_misc.json"):
        p = os.path.join(ctx.work, fn)
        if os.path.exists(p):
            os.remove(p)
    rc, out = ctx.go_test("internal/net", "^TestVerifC23$", ["zz_verif_C23_test.go"], env={"VERIF_CORPUS": os.path.join(os.path.dirname(os.path.dirname(os.path.abspath(__file__))), "corpus")},
                         timeout=900 if not ctx.thorough else 1800)
    cases = read_jsonl(os.path.join(ctx.work, "c23_cases.jsonl"))
    streams = read_jsonl(os.path.join(ctx.work, "c23_streams.jsonl"))
    try:
        known = json.load(open(os.path.join(ctx.work, "c23_known.json")))
        misc = json.load(open(os.path.join(ctx.work, "c23_misc.json")))
    except Exception:
        known, misc = [], {}
    if rc != 0 or not cases or not streams or not misc:
        ctx.tie_broken("go-harness internal/net TestVerifC23", out)

    # ------------------------------------------------------------ the property's oracle on the real code
    nviol = 0

    def sig_of(msg):
        if "panicked" in msg:
            return "panic:" + msg.split(" panicked")[0].replace(" ", "-")
        if "strict prefix" in msg:
            return "truncated-input-accepted"
        if "deadline" in msg:
            return "roundtrip:deadline"
        if "headers" in msg or "metadata presence" in msg:
            return "roundtrip:metadata"
        if "decode of an encoded frame failed" in msg or "differs from the encoded one" in msg:
            return "roundtrip:message"
        if "concatenated" in msg or "server delivered" in msg:
            return "stream:split"
        return "oracle:" + re.sub(r"[^a-z]+", "-", msg.lower())[:40]

    for c in cases:
        for msg in c.get("Oracle") or []:
            if nviol < 6:
                nviol += 1
                ctx.violation(sig_of(msg), "internal/net codec: " + msg,
                              {"kind": c["Kind"], "input_hex": c["Data"][:4000], "input_len": len(c["Data"]) // 2,
                               "results": c.get("Res"), "how": "feed input_hex to the decoder named in the message (UnmarshalBinary=1, UnmarshalBinaryWithMetadata=2, Client.unmarshalProtoResponse=3, ProtoServer.handleConn=4, Metadata.UnmarshalBinary=5)"})
    for s in streams:
        for msg in s.get("Oracle") or []:
            if nviol < 6:
                nviol += 1
                ctx.violation(sig_of(msg), "internal/net stream: " + msg,
                              {"kind": s["Kind"], "stream_hex": s["Data"][:6000], "max_frame_size": s["Max"], "chunks": s["Chunks"],
                               "frames_returned": s["Frames"], "end": s["End"]})
    if misc:
        if misc.get("HostileAllocBytes", 0) > (1 << 20) + 65536 or not misc.get("HostileErrIsTooLarge", False):
            ctx.violation("readProtoFrame:allocates-before-limit-check",
                          "readProtoFrame on a header announcing 2 GiB with maxFrameSize 1 MiB allocated %s bytes (error is ErrFrameTooLarge: %s)" %
                          (misc.get("HostileAllocBytes"), misc.get("HostileErrIsTooLarge")),
                          {"stream_hex": "7fffffff0000000178", "max_frame_size": 1 << 20, "allocated": misc.get("HostileAllocBytes")})
        if not misc.get("LimitPlusOneRejected", False) or not misc.get("LimitAccepted", False):
            ctx.violation("readProtoFrame:limit-boundary", "frame of exactly maxFrameSize must be accepted and maxFrameSize+1 rejected: %s" % misc,
                          {"max_frame_size": 4096})
        if misc.get("MetadataHostileCountAllocBytes", 0) > 65536:
            ctx.violation("Metadata.UnmarshalBinary:map-presized-from-wire-count",
                          "a 12-byte metadata block announcing 65535 headers made Metadata.UnmarshalBinary allocate %s bytes before rejecting it (an allocation far beyond the input, and beyond any frame limit configured below it)" % misc.get("MetadataHostileCountAllocBytes"),
                          {"function": "internal/net.(*Metadata).UnmarshalBinary", "input_hex": "ffff" + "00" * 10,
                           "allocated_bytes": misc.get("MetadataHostileCountAllocBytes"), "bound_checked": 65536,
                           "repair": "fixes/C23-metadata-count-presize.diff"})
        if misc.get("PoolFail"):
            ctx.violation("FramePool:bad-buffer", "internal/net.FramePool: " + misc["PoolFail"], {"sequence": "see harness: Get/Put of sizes 0..5MiB with misaligned Puts in between"})
        if not misc.get("MetadataHostileCountRejected", False):
            ctx.violation("Metadata.UnmarshalBinary:hostile-count-accepted", "count=65535 in a 12-byte block was accepted", {"input_hex": "ffff" + "00" * 10})

    # ------------------------------------------------------------ model vs implementation
    names_ok = all(len(hx(k)) >= 4 and hx(k)[0] >= 1 for k in known)
    if known and not names_ok:
        ctx.tie_broken("legacy_guard hypothesis: a registered message name is shorter than 4 bytes", [hx(k).decode("latin1") for k in known if len(hx(k)) < 4])
    mism_cases, mism_streams = None, None
    ok_eval, out_eval = ctx.coq_build(["theories/C23/Eval.vo"])
    if not ok_eval:
        ctx.tie_broken("C23/Model.v or C23/Eval.v does not compile", out_eval)
    elif cases:
        lines = [HEADER]
        lines.append("Definition names : list bytes := map unpack [%s]." % ";".join(pack(hx(k)) for k in known))
        ids = []
        for c in cases:
            if not c.get("Res"):
                continue
            ids.append(c["I"])
            lines.append("Definition c%d : ecase := Build_ecase %s %s [%s]." % (
                c["I"], pack(hx(c["Data"])), probes_term(c.get("Probes")), ";".join(expect_term(r) for r in c["Res"])))
        lines.append("Definition allc : list ecase := [%s]." % ";".join("c%d" % i for i in ids))
        for s in streams:
            lines.append("Definition s%d : scase := Build_scase %s %d%%N %s [%s] %d%%N [%s]." % (
                s["I"], pack(hx(s["Data"])), s["Max"], probes_term(s.get("Probes")),
                ";".join("%d%%N" % n for n in (s.get("Frames") or [])), s["End"],
                ";".join(expect_term(dict(r, Lo=s["Lo"], Hi=s["Hi"])) for r in (s.get("Served") or []))))
        lines.append("Definition alls : list scase := [%s]." % ";".join("s%d" % s["I"] for s in streams))
        pool_pairs = misc.get("PoolPairs") or []
        lines.append("Definition pool_bad := filter (fun p => negb (N.eqb (pool_cap (fst p)) (snd p))) [%s]." % ";".join("(%d%%N,%d%%N)" % (a, c) for a, c in pool_pairs))
        lines.append("Definition rc := run_cases names 0%N allc.")
        lines.append("Definition rs := run_streams names 0%N alls.")
        lines.append("Eval vm_compute in (length pool_bad, firstn 3 pool_bad).")
        lines.append("Eval vm_compute in (length allc, length rc, firstn 4 rc, length alls, length rs, firstn 3 rs).")
        rc2, o2 = ctx.coq_eval("cases_C23", "\n".join(lines) + "\n")
        flat = " ".join(o2.split())
        m = re.search(r"= \((\d+)%nat, (\d+)%nat, (\[.*?\]), (\d+)%nat, (\d+)%nat, (\[.*\])\) :", flat)
        mp = re.search(r"= \((\d+)%nat, (\[.*?\])\) : nat \* list", flat)
        if rc2 == 0 and mp and int(mp.group(1)) != 0:
            ctx.tie_broken("model-vs-implementation FramePool.Get capacity (pool_cap) differs for %s request sizes" % mp.group(1), mp.group(2)[:400])
        if rc2 != 0 or not m or not mp:
            ctx.tie_broken("model evaluation (cases_C23.v did not evaluate)", o2[-3000:])
        else:
            mism_cases, mism_streams = int(m.group(2)), int(m.group(5))
            if int(m.group(1)) != len(ids) or int(m.group(4)) != len(streams):
                ctx.tie_broken("model evaluation: case count differs", flat[-500:])
            if mism_cases:
                first = re.findall(r"\((\d+)%N, \[(.*?)\]\)", m.group(3))
                detail = []
                for pos, body in first[:4]:
                    c = [c for c in cases if c.get("Res")][int(pos)]
                    detail.append({"case": c["I"], "kind": c["Kind"], "input_hex": c["Data"][:2000],
                                   "model_vs_real(decoder, model class, real class)": body, "real": c["Res"]})
                ctx.tie_broken("model-vs-implementation internal/net frame decoders (%d of %d cases differ)" % (mism_cases, len(ids)), detail)
            if mism_streams:
                ctx.tie_broken("model-vs-implementation readProtoFrame/handleConn streams (%d of %d differ)" % (mism_streams, len(streams)),
                               {"coq": m.group(6)[:1500]})

    # ------------------------------------------------------------ stated limits replayed on the real code
    lim = {}
    if misc:
        bk, mh = misc.get("BigKey", {}), misc.get("ManyHdrs", {})
        lim["key_of_65536_bytes_decodes_silently_to"] = bk
        lim["65536_headers_decode_silently_to"] = mh
        # the Coq theorems C23_limit_key_length_silently_truncated / header_count say exactly this
        if not (bk.get("Class") == 0 and bk.get("Hdrs") == [["", ""]]):
            ctx.tie_broken("limit replay: 65536-byte key (theorem C23_limit_key_length_silently_truncated says it decodes to {\"\":\"\"})", bk)
        if not (mh.get("Class") == 0 and mh.get("N") == 0 and mh.get("Count") == 0):
            ctx.tie_broken("limit replay: 65536 headers (theorem C23_limit_header_count_silently_truncated says they decode to none)", mh)
        ctx.notes.append("outside the property's limits the encoder truncates lengths silently (no limit is checked): a 65536-byte header key round-trips to %s, 65536 headers to %d headers" % (bk.get("Hdrs"), mh.get("N", -1)))
        ctx.notes.append("Metadata.UnmarshalBinary on a 12-byte block with count=65535 allocated %s bytes before rejecting it (bound asserted: 64 KiB)" % misc.get("MetadataHostileCountAllocBytes"))

    # ------------------------------------------------------------ the theorems
    if not ctx.coq_property():
        if not any(f.kind == "violation" for f in ctx.findings):
            ctx.proof_broken("Properties/C23.v (%s)" % getattr(ctx, "failed_at", "?"), getattr(ctx, "coq_log", ""))
        else:
            ctx.notes.append("Coq obligation broken at %s; concrete failing input reported" % getattr(ctx, "failed_at", "?"))

    kinds, classes = {}, {}
    distinct = set()
    for c in cases:
        kinds[c["Kind"]] = kinds.get(c["Kind"], 0) + 1
        for r in c.get("Res") or []:
            k = "dec%d:class%d" % (r["Dec"], r["Class"])
            classes[k] = classes.get(k, 0) + 1
        if len(c["Data"]) >= 16:
            distinct.add(canon_hash(c["Data"]))
    for s in streams:
        kinds["stream-" + s["Kind"]] = kinds.get("stream-" + s["Kind"], 0) + 1
        distinct.add(canon_hash(s["Data"]))
    ctx.coverage.update({
        "evaluations": sum(len(c.get("Res") or []) for c in cases) + 2 * len(streams),
        "distinct_nontrivial": len(distinct),
        "rule": "distinct byte strings of >= 8 bytes fed to the real decoders and to the Coq model (round-trip frames of every message type of internalpb/testpb with generated fields and metadata; truncations, length-field/count mutations, flips, random bytes; concatenated streams under chunked readers and frame-size limits)",
        "input_kinds": kinds, "result_classes": classes,
        "message_types_covered": "%s of %s" % (misc.get("TypesCovered"), misc.get("TypesAvailable")),
        "registered_names_checked_against_guard": len(known),
        "model_mismatches": {"cases": mism_cases, "streams": mism_streams},
        "limits_replayed": lim,
        "hostile_header_alloc_bytes": misc.get("HostileAllocBytes"),
        "samples": [{"kind": c["Kind"], "input_hex": c["Data"][:160], "results": [(r["Dec"], r["Class"]) for r in c["Res"]]} for c in cases[:2] + cases[len(cases) // 2: len(cases) // 2 + 2] if c.get("Res")],
        "theorems": ["C23_metadata_roundtrip", "C23_headers_same_map", "C23_deadline_within_clock_tolerance", "C23_frame_roundtrip",
                     "C23_frame_with_metadata_roundtrip", "C23_concatenated_frames_split", "C23_server_delivers_in_order",
                     "C23_*_never_panics (6)", "C23_read_frame_allocation_bounded", "C23_read_frame_length_bounded", "C23_pool_capacity_bounded",
                     "C23_truncated_frame_rejected", "C23_truncated_md_frame_rejected", "C23_truncated_stream_rejected",
                     "C23_oversized_frame_rejected", "C23_undersized_frame_rejected", "C23_server_detects_legacy/metadata",
                     "C23_client_detects_legacy/metadata", "C23_guard_for_real_names", "C23_limit_* (5 stated limits)"],
    })


META = {
    "ready": True,
    "category": "proof",
    "technique": "Rocq proof over a byte-level model (partial slicing => explicit Panic outcome) + differential evaluation of the model on the bytes the real codecs ran on",
    "text": "Round trip of frames and metadata within the u16/u32 limits, exact splitting of concatenated frames, rejection of every strict prefix, and total robustness (no out-of-range slice for EVERY byte string, reader allocation <= maxFrameSize) proved for all inputs; both format detectors proved correct under an explicit guard that is checked against every registered type name; the real serializer, metadata codec, client heuristic, readProtoFrame and handleConn run on generated messages, metadata, malformed frames and chunked streams and are compared with the Coq model evaluated on the same bytes.",
    "design_ref": "DESIGN.md 7/C23",
    "level_note": "Trusted: Coq kernel, protobuf-go and the registry (parameters of the model; real verdicts supplied per case), stdlib io/bufio, the harness. Stated limits beyond the property's quantifier are theorems (C23_limit_*) replayed on the real code.",
}
