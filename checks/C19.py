"""C19 — scheduled messages are delivered as scheduled, and cancelled ones stop.

Proof: Properties/C19.v over C19/Model.v (actor/scheduler.go bookkeeping over the go-quartz contract it uses;
       cluster tick claim = put-if-absent on a shared registry, any number of nodes, any interleaving).
Tie:   (1) generated schedule / cancel / pause / resume / wait sequences on the real scheduler of a real actor
           system: the error class of every call, ListSchedules and the delivery counts after every step are
           compared with the Coq model evaluated on the same sequence;
       (2) timing-tolerant live runs: one-shots (exactly once, not before the delay), interval schedules
           (k-th delivery not before k intervals), cancel (at most one delivery after CancelSchedule returned,
           then not-found errors), pause/resume;
       (3) the real claimClusterFire / makeJobFn of several schedulers sharing one put-if-absent registry:
           sequential claims compared with the model's claim_once, and races (exactly one delivery per tick);
       (4) the real cluster.ClaimScheduleFire over a DMap with real NX+EX semantics, raced by many callers.
"""
import json
import os
import re

from vlib import read_jsonl, canon_hash

MS = 10 ** 6
SEC = 10 ** 9
SIG_ONCE = "ScheduleOnce:pause-then-resume:message-never-delivered"
ERR = {"ok": "EOk", "notfound": "ENotFound", "exists": "EExists", "jobnotfound": "EJobNotFound",
       "suspended": "ESuspended", "active": "EActive", "expired": "EExpired"}
HOUR_MS = 3600 * 1000


def z(n):
    return "(%d)" % n if n < 0 else "%d" % n


def coq_list(items):
    return "[" + "; ".join(items) + "]"


def gen_book_case(rng, cid, thorough):
    refs = rng.randint(2, 4)
    ops = []
    n = rng.randint(8, 28 if thorough else 18)
    waits = 0
    for _ in range(n):
        r = rng.randrange(refs)
        x = rng.random()
        if x < 0.16:
            ops.append({"K": "once_short", "R": r})
        elif x < 0.28:
            ops.append({"K": "once_long", "R": r})
        elif x < 0.42:
            ops.append({"K": "every_long", "R": r})
        elif x < 0.60:
            ops.append({"K": "cancel", "R": r})
        elif x < 0.76:
            ops.append({"K": "pause", "R": r})
        elif x < 0.90:
            ops.append({"K": "resume", "R": r})
        elif waits < 3:
            waits += 1
            ops.append({"K": "wait", "R": 0})
    if waits == 0:
        ops.append({"K": "wait", "R": 0})
    return {"Id": cid, "Refs": refs, "ShortMs": 300, "WaitMs": 1200, "Ops": ops}


def run(ctx):
    ctx.trusted += ["hand-written model C19/Model.v incl. the go-quartz v0.15.2 contract (queue keyed by reference, run-once trigger expiring at its first NextFireTime, pause/resume/delete, one goroutine per firing) — validated each run against the real scheduler",
                    "the registry's put-if-absent atomicity (olric NX+EX) is a contract: the harness substitutes an in-memory registry with that semantics",
                    "go-quartz timer accuracy: live oracles only use lower bounds and counts"]
    ctx.assumptions += ["clock readings never go back; delays and intervals are not negative",
                        "cluster claim: every node derives the same TTL for a tick, and every put happens at or after the tick's run time and before run time + TTL (guard of creach; refuted without it)",
                        "at most one delivery after CancelSchedule holds when a job function completes before the next firing of the same job",
                        "every scheduler operation is one atomic step of the model (the code holds scheduler.mu); the concurrent cancel/schedule rounds test that on the real code"]
    rng = ctx.rng
    work = ctx.work
    n_book = 120 if ctx.thorough else 40
    book = []
    corpus = [
        {"Refs": 2, "Ops": [{"K": "once_short", "R": 0}, {"K": "pause", "R": 0}, {"K": "resume", "R": 0}, {"K": "wait", "R": 0}, {"K": "cancel", "R": 0}, {"K": "cancel", "R": 0}]},
        {"Refs": 2, "Ops": [{"K": "every_long", "R": 1}, {"K": "every_long", "R": 1}, {"K": "pause", "R": 1}, {"K": "pause", "R": 1}, {"K": "resume", "R": 1}, {"K": "resume", "R": 1},
                            {"K": "cancel", "R": 1}, {"K": "resume", "R": 1}, {"K": "pause", "R": 0}, {"K": "wait", "R": 0}]},
        {"Refs": 2, "Ops": [{"K": "once_short", "R": 0}, {"K": "wait", "R": 0}, {"K": "cancel", "R": 0}, {"K": "once_short", "R": 0}, {"K": "once_short", "R": 0}, {"K": "wait", "R": 0}, {"K": "pause", "R": 0}]},
    ]
    for c in corpus:
        c.update({"Id": len(book), "ShortMs": 300, "WaitMs": 1200})
        book.append(c)
    while len(book) < n_book:
        book.append(gen_book_case(rng, len(book), ctx.thorough))
    claims = []
    for i in range(60 if ctx.thorough else 24):
        nodes = rng.randint(2, 5)
        ops = [{"Node": rng.randrange(nodes), "Ref": rng.randrange(2), "RunSec": rng.choice([-200, -90, -30, -30, -10, -10, 0, 0, 20])} for _ in range(rng.randint(6, 20))]
        # every node runs in its own process-local time zone: the claim must not depend on it
        zones = [rng.choice([0, 0, 7200, -18000, 19800, 32400, -12600]) for _ in range(nodes)]
        claims.append({"Id": i, "Nodes": nodes, "Zones": zones, "TTLs": 60, "Ops": ops})
    for name, data in (("c19_book_in.jsonl", book), ("c19_claim_in.jsonl", claims)):
        with open(os.path.join(work, name), "w") as f:
            for x in data:
                f.write(json.dumps(x) + "\n")
    for fn in ("c19_book_out.jsonl", "c19_live_out.jsonl", "c19_claim_out.jsonl", "c19_race_out.jsonl", "c19_cluster_out.jsonl", "c19_oprace_out.jsonl"):
        p = os.path.join(work, fn)
        if os.path.exists(p):
            os.remove(p)

    # both packages in one `go test` invocation (they build and run in parallel)
    import vlib
    ov = ctx.overlay({"actor": ["zz_verif_C19_test.go", "zz_verif_common_test.go"],
                      "internal/cluster": ["zz_verif_C19_test.go", "zz_verif_common_test.go"]})
    env = vlib.go_env()
    env.update({"VERIF_SEED": str(ctx.seed), "VERIF_TIER": ctx.tier, "VERIF_OUT": ctx.work})
    rc, out = vlib.sh([vlib.GOBIN, "test", "-tags", "verif", "-overlay", ov, "-vet=off", "-count=1", "-run", "^TestVerifC19",
                       "-timeout", "1400s", "./actor/", "./internal/cluster/"], cwd=vlib.REPO, env=env, timeout=1500)
    rc_c, out_c = rc, out
    ctx.log("go harness done rc=%d" % rc)
    book_outs = read_jsonl(os.path.join(work, "c19_book_out.jsonl"))
    live_outs = read_jsonl(os.path.join(work, "c19_live_out.jsonl"))
    claim_outs = read_jsonl(os.path.join(work, "c19_claim_out.jsonl"))
    race_outs = read_jsonl(os.path.join(work, "c19_race_out.jsonl"))
    cluster_outs = read_jsonl(os.path.join(work, "c19_cluster_out.jsonl"))
    oprace_outs = read_jsonl(os.path.join(work, "c19_oprace_out.jsonl"))
    if rc == 0 and not oprace_outs:
        ctx.tie_broken("go-harness TestVerifC19Race produced no output", out)
    if rc != 0 or len(book_outs) != len(book) or not live_outs or len(claim_outs) != len(claims) or not race_outs:
        ctx.tie_broken("go-harness actor scheduler (TestVerifC19*)", out)
        if len(book_outs) != len(book):
            book_outs = []
        if len(claim_outs) != len(claims):
            claim_outs = []
    if rc_c != 0 or not cluster_outs:
        ctx.tie_broken("go-harness internal/cluster ClaimScheduleFire (TestVerifC19ClusterClaim)", out_c)

    budget = {"n": 0}

    def viol(sig, what, replay):
        if budget["n"] < 6:
            budget["n"] += 1
            ctx.violation(sig, what, replay)

    # ---- (1) bookkeeping sequences: property oracle (clauses of the statement) + Coq cases
    op_hist, err_hist = {}, {}
    coq_book = []
    n_steps = 0
    nontrivial = set()
    once_lost = 0
    for cs, res in zip(book, book_outs):
        if not res.get("Steps") or len(res["Steps"]) != len(cs["Ops"]):
            ctx.tie_broken("go-harness book case produced no steps", {"case": cs["Id"]})
            continue
        clock = 10
        ops_c, obs_c = [], []
        known = set()         # references the scheduler knows (scheduled and not cancelled since)
        live = {}             # reference -> kind of the schedule that is certainly still queued (1 h one-shots and intervals)
        kinds = set()
        for o, st in zip(cs["Ops"], res["Steps"]):
            n_steps += 1
            op_hist[o["K"]] = op_hist.get(o["K"], 0) + 1
            err_hist[st["Err"]] = err_hist.get(st["Err"], 0) + 1
            kinds.add(st["Err"])
            r = o["R"]
            # the statement: a cancelled or unknown reference reports an error
            if o["K"] in ("cancel", "pause", "resume") and r not in known and st["Err"] != "notfound":
                viol("scheduler:unknown-reference-error", "book case %d: %s of reference %d, which is unknown or cancelled, returned %r instead of the reference-not-found error" % (cs["Id"], o["K"], r, st["Err"]),
                     {"case": cs, "op": o, "step": st})
            # the statement: a schedule lives until it is cancelled (or, for a one-shot, delivered); while it lives
            # it can be cancelled and paused, and a refused second registration under its reference changes nothing
            if o["K"] in ("cancel", "pause") and r in live and st["Err"] == "notfound":
                viol("scheduler:live-schedule-reported-not-found", "book case %d: %s of reference %d returned the reference-not-found error although its %s schedule was registered successfully and never cancelled (operations so far: %s)" %
                     (cs["Id"], o["K"], r, live[r], json.dumps(cs["Ops"][:len(ops_c) + 1])), {"case": cs, "op_index": len(ops_c), "step": st})
            if o["K"] in ("once_long", "every_long") and st["Err"] == "ok":
                live[r] = o["K"]
            if o["K"] == "once_short" and st["Err"] == "ok":
                live.pop(r, None)
            if o["K"] == "cancel":
                live.pop(r, None)
            if o["K"] == "resume" and live.get(r) == "once_long" and st["Err"] == "expired":
                live.pop(r, None)     # the known pause-then-resume loss of a one-shot
            missing = [x for x in live if x not in (st["Listed"] or [])]
            if missing:
                viol("scheduler:live-schedule-not-listed", "book case %d after %s of reference %d: ListSchedules %s misses live references %s" % (cs["Id"], o["K"], r, st["Listed"], missing),
                     {"case": cs, "op_index": len(ops_c), "step": st})
                live = {k: v for k, v in live.items() if k not in missing}
            if o["K"] in ("once_short", "once_long", "every_long"):
                known.add(r)
            if o["K"] == "cancel":
                known.discard(r)
            if st["Err"].startswith("other:"):
                viol("scheduler:unexpected-error", "book case %d: %s returned %s" % (cs["Id"], o["K"], st["Err"]), {"case": cs, "op": o, "step": st})
            clock += 1
            k = o["K"]
            if k == "once_short":
                ops_c.append("BOp (OScheduleOnce %d%%nat %s %s)" % (r, z(cs["ShortMs"]), z(clock)))
            elif k == "once_long":
                ops_c.append("BOp (OScheduleOnce %d%%nat %s %s)" % (r, z(HOUR_MS), z(clock)))
            elif k == "every_long":
                ops_c.append("BOp (OSchedule %d%%nat %s %s)" % (r, z(HOUR_MS), z(clock)))
            elif k == "cancel":
                ops_c.append("BOp (OCancel %d%%nat)" % r)
            elif k == "pause":
                ops_c.append("BOp (OPause %d%%nat)" % r)
            elif k == "resume":
                ops_c.append("BOp (OResume %d%%nat %s)" % (r, z(clock)))
            else:
                clock += cs["WaitMs"]
                ops_c.append("BWait %s" % z(clock))
            obs_c.append("(%s, %s, %s)" % (ERR.get(st["Err"], "EOk") if not st["Err"].startswith("other:") else "EOk",
                                           coq_list("%d%%nat" % x for x in (st["Listed"] or [])), coq_list("%d%%nat" % x for x in st["Delivered"])))
        # delivery counts never exceed the number of successful one-shot schedules (interval schedules here never fire)
        coq_book.append("(%d%%nat, %d%%nat, %s, %s)" % (cs["Id"], cs["Refs"], coq_list(ops_c), coq_list(obs_c)))
        if len(kinds) >= 3:
            nontrivial.add(canon_hash(cs["Ops"]))

    # ---- (2) live
    live_stats = {"once": 0, "every": 0, "pause": 0}
    for o in live_outs:
        kind, d, call, recv = o["Kind"], o["DelayNs"], o["CallNs"], sorted(o.get("Recv") or [])
        errs, marks = o["Errs"], o["Marks"]
        if kind == "once":
            live_stats["once"] += 1
            if errs["schedule"] != "ok":
                viol("ScheduleOnce:error", "%s: ScheduleOnce returned %s" % (o["Ref"], errs["schedule"]), o)
            elif len(recv) != 1:
                viol("ScheduleOnce:delivery-count", "%s (delay %d ms): delivered %d times within delay + 1500 ms" % (o["Ref"], d // MS, len(recv)), o)
            elif recv[0] - call < d - 2 * MS:
                viol("ScheduleOnce:early", "%s: delivered %.1f ms after the call, delay is %d ms" % (o["Ref"], (recv[0] - call) / MS, d // MS), o)
        elif kind in ("every", "pause"):
            live_stats[kind] += 1
            if errs["schedule"] != "ok":
                viol("Schedule:error", "%s: Schedule returned %s" % (o["Ref"], errs["schedule"]), o)
                continue
            first_phase_end = marks.get("pause_returned", marks.get("cancel_returned"))
            before = [t for t in recv if t <= first_phase_end]
            for k, t in enumerate(before, 1):
                if t - call < k * d - 3 * MS:
                    viol("Schedule:early", "%s (interval %d ms): delivery #%d arrived %.1f ms after the call" % (o["Ref"], d // MS, k, (t - call) / MS), o)
                    break
            if len(before) < 2:
                viol("Schedule:not-repeating", "%s (interval %d ms): %d deliveries in the first %.0f ms" % (o["Ref"], d // MS, len(before), (first_phase_end - call) / MS), o)
            after_cancel = [t for t in recv if t > marks["cancel_returned"]]
            if errs["cancel"] != "ok":
                viol("CancelSchedule:error", "%s: CancelSchedule of a live schedule returned %s" % (o["Ref"], errs["cancel"]), o)
            if len(after_cancel) > 1:
                viol("CancelSchedule:deliveries-after-return", "%s: %d deliveries after CancelSchedule returned" % (o["Ref"], len(after_cancel)), o)
            if kind == "every":
                for k in ("cancel_again", "pause_cancelled", "resume_cancelled"):
                    if errs[k] != "notfound":
                        viol("scheduler:cancelled-reference-error", "%s: %s on a cancelled reference returned %s" % (o["Ref"], k, errs[k]), o)
            else:
                if errs["pause"] != "ok" or errs["resume"] != "ok":
                    viol("PauseSchedule:error", "%s: pause returned %s, resume returned %s" % (o["Ref"], errs["pause"], errs["resume"]), o)
                paused = [t for t in recv if marks["pause_returned"] < t < marks["resume_called"]]
                if len(paused) > 1:
                    viol("PauseSchedule:deliveries-while-paused", "%s: %d deliveries while paused" % (o["Ref"], len(paused)), o)
                resumed = [t for t in recv if marks["resume_returned"] <= t <= marks["cancel_returned"]]
                if len(resumed) < 1:
                    viol("ResumeSchedule:not-resumed", "%s: no delivery in %.0f ms after ResumeSchedule" % (o["Ref"], (marks["cancel_returned"] - marks["resume_returned"]) / MS), o)
                elif resumed[0] - marks["resume_called"] < d - 3 * MS:
                    viol("ResumeSchedule:early", "%s: first delivery %.1f ms after resume, interval %d ms" % (o["Ref"], (resumed[0] - marks["resume_called"]) / MS, d // MS), o)
        elif kind == "once_paused":
            if errs["schedule"] == "ok" and errs["pause"] == "ok" and len(recv) == 0:
                once_lost += 1
                viol(SIG_ONCE, "ScheduleOnce(%d ms); PauseSchedule -> %s; ResumeSchedule -> %s; the message is never delivered (waited %d ms after the resume) and CancelSchedule then reports %s" %
                     (d // MS, errs["pause"], errs["resume"], (d + 600 * MS) // MS, errs["cancel"]), o)
            elif len(recv) > 1:
                viol("ScheduleOnce:delivery-count", "%s: delivered %d times" % (o["Ref"], len(recv)), o)
        elif kind == "unknown":
            for k in ("cancel", "pause", "resume"):
                if errs[k] != "notfound":
                    viol("scheduler:unknown-reference-error", "%s of an unknown reference returned %s" % (k, errs[k]), o)

    # ---- (3) claims
    coq_claims = []
    n_claims = 0
    for cs, res in zip(claims, claim_outs):
        items = []
        expect_keys = []
        seen_win = {}
        for op, code, run in zip(cs["Ops"], res["Codes"], res["RunNs"]):
            n_claims += 1
            tick = (op["Ref"], op["RunSec"])
            stale = -op["RunSec"] > cs["TTLs"]
            if code == 3:
                viol("claimClusterFire:error", "claim case %d: claimClusterFire returned an error" % cs["Id"], {"case": cs, "result": res})
            if not stale:
                expect_keys.append("c19ref%d@%d" % (op["Ref"], run))
            if code == 1:
                if tick in seen_win:
                    viol("claimClusterFire:tick-won-twice", "claim case %d: tick (reference %d, run time %+d s) won by node %d and again by node %d" % (cs["Id"], op["Ref"], op["RunSec"], seen_win[tick], op["Node"]),
                         {"case": cs, "result": res})
                seen_win[tick] = op["Node"]
                if stale:
                    viol("claimClusterFire:stale-tick-claimed", "claim case %d: a tick %d s old was claimed with a TTL of %d s" % (cs["Id"], -op["RunSec"], cs["TTLs"]), {"case": cs, "result": res})
            items.append("((%d%%nat, %s), %s)" % (op["Ref"], z(op["RunSec"]), z(code)))
        # the registry key must be a function of (reference, run time), and an injective one (the literal
        # format is the implementation's business)
        keys = res.get("Keys") or []
        ticks = [(op["Ref"], op["RunSec"]) for op in cs["Ops"] if not (-op["RunSec"] > cs["TTLs"])]
        if len(keys) != len(ticks):
            viol("claimClusterFire:claim-count", "claim case %d: %d claims reached the registry for %d non-stale ticks" % (cs["Id"], len(keys), len(ticks)), {"case": cs, "result": res})
        else:
            k_of, t_of = {}, {}
            for tk, ky in zip(ticks, keys):
                if k_of.setdefault(tk, ky) != ky or t_of.setdefault(ky, tk) != tk:
                    viol("claimClusterFire:claim-key", "claim case %d: the claim key is not a one-to-one function of (reference, run time): tick %s -> %r, but %r is also used for tick %s / tick %s already had key %r" %
                         (cs["Id"], tk, ky, ky, t_of.get(ky), tk, k_of.get(tk)), {"case": cs, "result": res})
                    break
        if any(t != cs["TTLs"] * SEC for t in (res.get("TTLsNs") or [])):
            viol("claimClusterFire:claim-ttl", "claim case %d: TTLs sent to the registry %s" % (cs["Id"], res.get("TTLsNs")), {"case": cs, "result": res})
        coq_claims.append("(%s, %s)" % (z(cs["TTLs"]), coq_list(items)))
    for r in race_outs:
        if r["Delivered"] != 1 or r["OtherTick"] != 1 or r["Errors"]:
            viol("makeJobFn:cluster-tick-delivery-count", "%d nodes fired the same cron tick at once: the message was delivered %d times (a second tick of the same reference raced at the same time: %d times; errors %d)" %
                 (r["Nodes"], r["Delivered"], r["OtherTick"], r["Errors"]), r)
    for r in cluster_outs:
        puts = r.get("Puts") or []
        if r["Won"] != 101 or r["Claimed"] != r["Callers"] - 1 or r["Other"]:
            viol("ClaimScheduleFire:exactly-one-winner", "%d callers raced ClaimScheduleFire(%s): %d won, %d got ErrScheduleFireClaimed, %d other outcomes (a different key afterwards: %s)" %
                 (r["Callers"], r["ClaimKey"], r["Won"] % 100, r["Claimed"], r["Other"] % 1000, "won" if r["Won"] >= 100 else "lost"), r)
        elif any((not p["NX"]) or (not p["HasEX"]) or p["EXNs"] != r["TTLNs"] or ("schedule-fire" not in p["Key"]) for p in puts):
            viol("ClaimScheduleFire:put-options", "ClaimScheduleFire wrote %s (needs NX, EX = ttl %d ns, the schedule-fire namespace)" % (puts[:2], r["TTLNs"]), r)

    ctx.log("oracles done")
    # ---- (5) concurrent CancelSchedule / Schedule on one reference
    race_rounds = 0
    for r in oprace_outs:
        race_rounds += r["Rounds"]
        if r["Orphaned"] and (r["CancelAfter"] == "notfound" or r["DeliveredAfter"] > 1):
            viol("scheduler:concurrent-cancel-and-schedule:uncancellable", "reference %s: CancelSchedule and Schedule issued at the same time (round %d); afterwards CancelSchedule returns %s and %d more messages are delivered in the next 200 ms (interval 10 ms): the schedule is live but can no longer be cancelled" %
                 (r["Ref"], r["OrphanRound"], r["CancelAfter"], r["DeliveredAfter"]), r)
        elif r["FinalDelivered"] > 1 or r["FinalJobPresent"]:
            viol("scheduler:concurrent-cancel-and-schedule:keeps-firing", "reference %s: after %d concurrent cancel/schedule rounds the last CancelSchedule calls returned %s / %s, yet %d messages were delivered afterwards (job still queued: %s)" %
                 (r["Ref"], r["Rounds"], r["FinalCancel"], r["FinalCancel2"], r["FinalDelivered"], r["FinalJobPresent"]), r)
        elif r["FinalCancel2"] != "notfound":
            viol("scheduler:cancelled-reference-error", "reference %s: a second CancelSchedule returned %s" % (r["Ref"], r["FinalCancel2"]), r)

    # ---- model vs implementation
    coq_stats = None
    if coq_book or coq_claims:
        body = """From Coq Require Import ZArith List Bool Arith. Import ListNotations.
From GV Require Import C19.Model.
Open Scope Z_scope.
Inductive bop := BOp (o : op) | BWait (now : Z).
Definition err_eqb (a b : err) : bool :=
  match a, b with
  | EOk, EOk | ENotFound, ENotFound | EExists, EExists | EJobNotFound, EJobNotFound | ESuspended, ESuspended | EActive, EActive | EExpired, EExpired => true
  | _, _ => false
  end.
Fixpoint list_eqb {A} (eq : A -> A -> bool) (a b : list A) : bool :=
  match a, b with [], [] => true | x :: r, y :: s => eq x y && list_eqb eq r s | _, _ => false end.
Definition bstep (s : sstate) (b : bop) : sstate * err :=
  match b with
  | BOp o => step s o
  | BWait now => (complete_all (tick_all s now (S (length (s_jobs s)))), EOk)
  end.
Definition sorted_listed (s : sstate) (refs : nat) : list nat :=
  filter (fun r => existsb (Nat.eqb r) (listed s)) (seq 0 refs).
Definition obs_of (refs : nat) (s : sstate) (e : err) : err * list nat * list nat :=
  (e, sorted_listed s refs, map (fun r => count_ref r (s_delivered s)) (seq 0 refs)).
Definition obs_eqb (a b : err * list nat * list nat) : bool :=
  err_eqb (fst (fst a)) (fst (fst b)) && list_eqb Nat.eqb (snd (fst a)) (snd (fst b)) && list_eqb Nat.eqb (snd a) (snd b).
Fixpoint first_diff (refs : nat) (n : nat) (s : sstate) (bs : list bop) (ob : list (err * list nat * list nat)) : option nat :=
  match bs, ob with
  | [], [] => None
  | b :: r, o :: t => let '(s', e) := bstep s b in if obs_eqb (obs_of refs s' e) o then first_diff refs (S n) s' r t else Some n
  | _, _ => Some n
  end.
Definition book_cases : list (nat * nat * list bop * list (err * list nat * list nat)) := %s.
Definition book_bad := filter (fun x => match snd x with Some _ => true | None => false end)
  (map (fun c => match c with (id, refs, bs, ob) => (id, first_diff refs 0 s0 bs ob) end) book_cases).
Definition claim_cases : list (Z * list ((nat * Z) * Z)) := %s.
Definition claim_ok (c : Z * list ((nat * Z) * Z)) : bool :=
  (fix go (reg : list (key * Z)) (l : list ((nat * Z) * Z)) : bool :=
     match l with
     | [] => true
     | (k, code) :: r => let '(reg', res) := claim_once reg k (fst c) 0 in (res =? code) && go reg' r
     end) [] (snd c).
Definition claim_bad := length (filter (fun c => negb (claim_ok c)) claim_cases).
Definition summary := (length book_cases, length book_bad, firstn 4 book_bad, length claim_cases, claim_bad).
Eval vm_compute in summary.
""" % (coq_list(coq_book), coq_list(coq_claims))
        rc2, o2 = ctx.coq_eval("cases_C19", body)
        flat = " ".join(o2.split())
        m_ = re.search(r"= \((\d+)%nat, (\d+)%nat, (\[.*?\]), (\d+)%nat, (\d+)%nat\)", flat)
        if rc2 != 0 or not m_:
            ctx.tie_broken("model-evaluation (cases_C19.v did not evaluate)", o2)
        else:
            coq_stats = {"book_cases": int(m_.group(1)), "book_mismatches": int(m_.group(2)), "first_mismatches(case,step)": m_.group(3),
                         "claim_cases": int(m_.group(4)), "claim_mismatches": int(m_.group(5))}
            if coq_stats["book_mismatches"]:
                ctx.tie_broken("model C19/Model.v vs the real scheduler (schedule/cancel/pause/resume/wait sequences)", coq_stats)
            if coq_stats["claim_mismatches"]:
                ctx.tie_broken("model C19/Model.v claim_once vs claimClusterFire", coq_stats)

    ctx.log("model evaluation done")
    # ---- the theorems
    if not ctx.coq_property():
        if not any(f.kind == "violation" for f in ctx.findings):
            ctx.proof_broken("Properties/C19.v (%s)" % getattr(ctx, "failed_at", "?"), getattr(ctx, "coq_log", ""))
        else:
            ctx.notes.append("Coq obligation broken at %s; concrete failing input reported" % getattr(ctx, "failed_at", "?"))

    ctx.coverage.update({
        "evaluations": n_steps + len(live_outs) + n_claims + len(race_outs) + len(cluster_outs),
        "distinct_nontrivial": len(nontrivial) + len({canon_hash(c["Ops"]) for c in claims}),
        "rule": "scheduler sequences: 8-28 operations (one-shot 300 ms / one-shot 1 h / interval 1 h / cancel / pause / resume / wait 1200 ms) over 2-4 references on a real system — non-trivial = at least three different error classes observed, distinct by sequence; claims: 6-20 claims by 2-5 nodes over two references and run times from 200 s in the past to 20 s ahead with a 60 s TTL, distinct by sequence",
        "samples": [book[0], book[len(corpus)] if len(book) > len(corpus) else book[0], claims[0]],
        "book_steps": n_steps, "op_histogram": op_hist, "error_class_histogram": err_hist, "live": live_stats,
        "concurrent_cancel_schedule_rounds": race_rounds,
        "claims": n_claims, "claim_races": len(race_outs), "cluster_claim_races": len(cluster_outs),
        "once_pause_resume_lost": once_lost, "model_vs_implementation": coq_stats,
        "theorems": ["C19_delivered_as_scheduled", "C19_once_at_most_once", "C19_fires_when_due", "C19_once_exactly_once_refuted", "C19_cancel_stops", "C19_duplicate_registration_keeps_live", "C19_paused_does_not_fire",
                     "C19_unknown_reference", "C19_cancelled_reference", "C19_cron_claim_unique", "C19_cron_claim_some_winner", "C19_cron_claim_unguarded_refuted", "C19_claim_call_is_check_then_put"],
    })


META = {
    "ready": True,
    "category": "proof",
    "technique": "Rocq inductive invariants over all operation orders of the scheduler model and over all interleavings of any number of claiming nodes + differential validation against the real scheduler and claim code",
    "text": "The scheduler's reference bookkeeping over the go-quartz contract, and the cluster tick claim (put-if-absent keyed by reference and run time), are modelled with a logical clock. Proved for every operation order: deliveries only from firings at or after their run time (one-shot: schedule time + delay), a one-shot fires at most once, nothing fires after CancelSchedule returned or while paused, unknown/cancelled references report not-found; for every interleaving of any number of nodes: at most one winner and delivery per tick, exactly one if any attempted. Every run replays generated sequences on the real scheduler and claim code and compares with the Coq model.",
    "design_ref": "DESIGN.md 7/C19",
    "level_note": "Trusted: Coq kernel, the hand model incl. the go-quartz contract (validated differentially each run), olric NX atomicity (contract).",
}
